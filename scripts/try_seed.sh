#!/bin/bash
# usage: try_seed.sh <patch file> <check id> [tier]   — applies a seeded change to /repo, runs the check, reverts.
P=$1; C=$2; T=${3:-quick}
cd /repo || exit 2
if [ -n "$(git status --porcelain)" ]; then echo "/repo not clean"; exit 2; fi
git apply "$P" || { echo "patch does not apply"; exit 2; }
cd /verif && VCHECK_EVIDENCE_DIR=$(mktemp -d /tmp/seed_ev.XXXX) ./run_check.sh "$C" "$T" > /tmp/try_seed.out 2>&1; rc=$?
git -C /repo checkout -- . ; git -C /repo clean -fdq
echo "exit=$rc"; grep -c "^VIOLATION" /tmp/try_seed.out; grep "^VIOLATION\|violation:" /tmp/try_seed.out | cut -c1-260 | head -${4:-6}; tail -1 /tmp/try_seed.out | cut -c1-200
