#!/bin/bash
# Regression smoke for fix: commits: runs the repository's own script corpus (tests/run_tests.php)
# with the binary built from /repo's working tree and compares its normalised output with the
# output of the binary built from the pinned base commit. Scratch files live under a temp dir.
set -e
. /verif/env.sh
BASE=${1:-55311dd}
T=$(mktemp -d)
trap 'rm -rf "$T"; git -C /repo worktree prune' EXIT
git -C /repo worktree add -q "$T/wt" "$BASE"
(cd "$T/wt" && go build -o "$T/origami_base" .)
git -C /repo worktree remove --force "$T/wt"
(cd /repo && go build -o "$T/origami_head" .)
norm() { sed 's/\x1b\[[0-9;]*m//g; s/[0-9]\{4\}-[0-9][0-9]-[0-9][0-9] [0-9:]\{8\}//'; }
(cd /repo && timeout -s KILL 180 "$T/origami_base" tests/run_tests.php 2>&1 | norm > "$T/base.txt") || true
(cd /repo && timeout -s KILL 180 "$T/origami_head" tests/run_tests.php 2>&1 | norm > "$T/head.txt") || true
wc -l "$T/base.txt" "$T/head.txt" | head -2
if diff "$T/base.txt" "$T/head.txt" > "$T/diff.txt"; then echo "corpus output identical"; else echo "corpus output DIFFERS:"; head -40 "$T/diff.txt"; fi
