#!/bin/bash
# Regression of the seeded breaking changes (seeded/<id>/patch.diff): each is applied to /repo's
# working tree, the property's quick check must exit 1 with a VIOLATION line, then it is reverted.
# usage: seed_regress.sh [id ...]     (default: all)
cd /verif || exit 2
ids=("$@"); [ ${#ids[@]} -eq 0 ] && ids=($(ls seeded))
fail=0
for id in "${ids[@]}"; do
  prop=$(python3 -c "import json;print(json.load(open('seeded/$id/meta.json'))['property'])")
  if [ -n "$(git -C /repo status --porcelain)" ]; then echo "/repo not clean"; exit 2; fi
  if ! git -C /repo apply "/verif/seeded/$id/patch.diff" 2>/dev/null; then echo "$id: patch does not apply"; fail=1; continue; fi
  out=$(mktemp); t0=$(date +%s)
  VCHECK_EVIDENCE_DIR=$(mktemp -d /tmp/seed_ev.XXXX) ./run_check.sh "$prop" quick > "$out" 2>&1; rc=$?
  git -C /repo checkout -- . ; git -C /repo clean -fdq
  n=$(grep -c "^VIOLATION" "$out")
  echo "$id: check $prop exit=$rc violation_lines=$n ($(( $(date +%s) - t0 ))s) $(grep -m1 '^violation:' "$out" | cut -c1-140)"
  if [ "$rc" != 1 ] || [ "$n" = 0 ]; then fail=1; echo "$id: NOT DETECTED"; fi
  rm -f "$out"
done
exit $fail
