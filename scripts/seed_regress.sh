#!/bin/bash
# Regression of the seeded breaking changes (seeded/<id>/patch.diff). Each is applied to a scratch
# worktree of /repo (VERIF_REPO points the checks at it; /repo itself is not touched), the
# property's quick check must exit 1 with a VIOLATION line, and the worktree is removed.
# usage: seed_regress.sh [id ...]     (default: all)
V=${VERIF_DIR:-/verif}; cd "$V" || exit 2
. ./env.sh
go build -o bin/vcheck ./cmd/vcheck || exit 2
ids=("$@"); [ ${#ids[@]} -eq 0 ] && ids=($(ls seeded))
fail=0
W=$(mktemp -d /tmp/seedwt.XXXX)
trap 'git -C /repo worktree remove --force "$W/wt" 2>/dev/null; rm -rf "$W" /tmp/verif-altmod-*; git -C /repo worktree prune' EXIT
git -C /repo worktree add -q --detach "$W/wt" HEAD || exit 2
for id in "${ids[@]}"; do
  prop=$(python3 -c "import json;print(json.load(open('seeded/$id/meta.json'))['property'])")
  if python3 -c "import json,sys;sys.exit(0 if json.load(open('seeded/$id/meta.json')).get('detected_by','').startswith('(neutralised)') or json.load(open('seeded/$id/meta.json')).get('detected_by','')=='NOT DETECTED' else 1)"; then echo "$id: skipped (recorded as neutralised / outside the claim in meta.json)"; continue; fi
  git -C "$W/wt" checkout -q -- . ; git -C "$W/wt" clean -fdq
  if ! git -C "$W/wt" apply "$V/seeded/$id/patch.diff" 2>/dev/null; then echo "$id: patch does not apply"; fail=1; continue; fi
  out="$W/out.txt"; t0=$(date +%s)
  VERIF_REPO="$W/wt" VCHECK_EVIDENCE_DIR="$W/ev" ./bin/vcheck check --tier quick "$prop" > "$out" 2>&1; rc=$?
  n=$(grep -c "^VIOLATION" "$out")
  echo "$id: check $prop exit=$rc violation_lines=$n ($(( $(date +%s) - t0 ))s) $(grep -m1 '  violation:' "$out" | cut -c1-150)"
  if [ "$rc" != 1 ] || [ "$n" = 0 ]; then fail=1; echo "$id: NOT DETECTED"; fi
done
exit $fail
