#!/bin/bash
# usage: confirm_seed.sh <ID> <patch> <demo> [pkgdir for a *_test.go demo]
# Confirms a seeded change in a scratch worktree: compiles, repo tests pass, demo fails with / passes without.
. /verif/env.sh
ID=$1; PATCH=$2; DEMO=$3; PKG=$4
W=/tmp/confirm/$ID
rm -rf $W; git -C /repo worktree prune; git -C /repo worktree add -q --detach $W HEAD || exit 2
trap 'git -C /repo worktree remove --force '$W' 2>/dev/null; rm -f /tmp/confirm/bin_'$ID'_*' EXIT
cd $W
run_demo() { # $1 = tag
  if [ -n "$PKG" ]; then
    cp "$DEMO" $W/$PKG/zz_seed_demo_test.go
    (cd $W && timeout -s KILL 300 go test -vet=off -count=1 ./$PKG/ 2>&1 | grep -v "TestDiagVendor\|diag_vendor\|convertControl\|^        \|^    diag" | tail -4) > /tmp/confirm/out_${ID}_$1.txt
    rm -f $W/$PKG/zz_seed_demo_test.go
  else
    (cd $W && go build -o /tmp/confirm/bin_${ID}_$1 . && cd /tmp/confirm && timeout -s KILL 30 /tmp/confirm/bin_${ID}_$1 "$DEMO" 2>&1 | tail -6) > /tmp/confirm/out_${ID}_$1.txt
  fi
}
run_demo base
git apply "$PATCH" || { echo "PATCH DOES NOT APPLY"; exit 2; }
go build ./... || { echo "BUILD FAILS"; exit 2; }
T=$(go test -vet=off -count=1 ./lexer/ ./parser/ ./runtime/ ./data/ ./std/net/http/ ./std/protowire/ ./std/php/stream/ ./std/system/ ./cmd/... 2>&1 | grep "^--- FAIL" | grep -v TestDiagVendorCompileAuthStringCorrupt | wc -l)
echo "build ok; unexpected repo test failures with patch: $T"
run_demo patched
echo "--- demo WITHOUT the change:"; cut -c1-160 /tmp/confirm/out_${ID}_base.txt
echo "--- demo WITH the change:"; cut -c1-160 /tmp/confirm/out_${ID}_patched.txt
if cmp -s /tmp/confirm/out_${ID}_base.txt /tmp/confirm/out_${ID}_patched.txt; then echo "DEMO DOES NOT DISTINGUISH"; else echo "demo distinguishes"; fi
