#!/usr/bin/env python3
# usage: seed_prepare.py <round number>  — prepares /tmp/seed<N>/<id>/ (property.json, already_tried.txt, scratch worktree wt) and
# /tmp/seed<N>/PROMPT.txt for independent sub-agents that seed breaking changes; they get nothing from /verif but the property text
# and one-line descriptions of the changes already tried (so that each round is different).
import json, os, subprocess, sys
n = sys.argv[1]
root = f'/tmp/seed{n}'
os.makedirs(root, exist_ok=True)
here = os.path.dirname(os.path.abspath(__file__))
open(root + '/PROMPT.txt', 'w').write(open(here + '/seed_prompt.txt').read().replace('@N@', n))
props = {}
for l in open('/verif/properties.jsonl'):
    p = json.loads(l); props[p['id']] = p
ids = [i for i in sorted(props) if i != 'C16']
if len(sys.argv) > 2: ids = [i for i in ids if i in sys.argv[2:]]  # optional: only these properties
for i in ids:
    d = f'{root}/{i}'; os.makedirs(d, exist_ok=True)
    json.dump(props[i], open(d + '/property.json', 'w'), indent=1, ensure_ascii=False)
    tried = []
    for s in [i] + [i + c for c in 'bcdefghijklm']:
        m = f'/verif/seeded/{s}/meta.json'
        if os.path.exists(m): tried.append('- ' + json.load(open(m))['change'])
    if i == 'C14': tried.append('- (do NOT touch json_encode / json_decode at all: pick serialize/unserialize, base64, urlencode/rawurlencode/urldecode, bin2hex/hex2bin, md5/hash or the protobuf wire codec)')
    open(d + '/already_tried.txt', 'w').write('\n'.join(tried) + '\n')
    if not os.path.exists(d + '/wt'):
        subprocess.run(['git', '-C', '/repo', 'worktree', 'add', '-q', '--detach', d + '/wt', 'HEAD'], check=True)
print(len(ids))
