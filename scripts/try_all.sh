#!/bin/bash
# usage: try_all.sh <suffix> [ids...] — runs every seeded/<id><suffix> against its property's quick check
suf=$1; shift
ids=("$@"); [ ${#ids[@]} -eq 0 ] && ids=($(ls /verif/seeded | grep "${suf}\$" ))
for d in "${ids[@]}"; do
  prop=${d:0:3}
  /verif/scripts/try_seed.sh /verif/seeded/$d/patch.diff $prop quick 3 > /tmp/try_$d.txt 2>&1
  echo "$d: $(head -2 /tmp/try_$d.txt | tr '\n' ' ') $(grep -m1 'violation:' /tmp/try_$d.txt | cut -c1-150)"
done
