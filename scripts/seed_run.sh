#!/bin/bash
# usage: seed_run.sh <seed id> <vcheck run arguments...>  — runs one harness against a scratch worktree with the seeded change applied
id=$1; shift
cd /verif && . ./env.sh
W=/tmp/sw/$id
if [ ! -d $W ]; then mkdir -p /tmp/sw; git -C /repo worktree add -q --detach $W HEAD || exit 2; fi
git -C $W checkout -q --detach $(git -C /repo rev-parse HEAD); git -C $W checkout -q -- .; git -C $W clean -fdq
git -C $W apply /verif/seeded/$id/patch.diff || { echo "patch does not apply"; exit 2; }
VERIF_REPO=$W VCHECK_EVIDENCE_DIR=/tmp/sw/ev ./bin/vcheck run "$@" 2>&1 | grep -v "^sample" | cut -c1-300 | tail -${TAILN:-8}
