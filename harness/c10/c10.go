// Package c10: VM registries stay consistent under concurrent definition and
// lookup (DESIGN.md §4 C10). Two or three goroutines issue Add*/Get*/SetConstant/
// EnsureGlobalZVal calls on one VM; every interleaving of their lock operations is
// explored; (a) no unordered conflicting access to a registry map (the condition
// under which the Go runtime dies with "concurrent map writes"), (b) the tuple of
// results equals that of some sequential order, (c) a duplicate name is accepted
// for at most one registrant.
package c10

import (
	"sync"

	"github.com/php-any/origami/data"
	"github.com/php-any/origami/node"
	"github.com/php-any/origami/parser"
	"github.com/php-any/origami/runtime"
	"verif/symx"
)

type fn struct{ name string }

func (f *fn) Call(ctx data.Context) (data.GetValue, data.Control) { return data.NewNullValue(), nil }
func (f *fn) GetName() string                                     { return f.name }
func (f *fn) GetParams() []data.GetValue                          { return nil }
func (f *fn) GetVariables() []data.Variable                       { return nil }

var pool = []string{"a", "b"}

const nOps = 8

// do performs operation op on vm with name n and returns an int summarising the result:
// registration: 1 accepted / 0 rejected; lookup: 1 found / 0 not found.
// objs[tag] records the object a registration installed / a get-or-create returned.
var objs [8]any

func do(vm data.VM, op int, n string, tag int) int { return doSlot(vm, op, n, tag, tag) }

// doSlot: tag is the payload identity (constant value), slot is where the installed object is recorded.
func doSlot(vm data.VM, op int, n string, tag, slot int) int {
	b2i := func(b bool) int {
		if b {
			return 1
		}
		return 0
	}
	switch op {
	case 0:
		c := node.NewClassStatement(nil, n, "", nil, nil, map[string]data.Method{})
		objs[slot] = c
		return b2i(vm.AddClass(c) == nil)
	case 1:
		f := &fn{name: n}
		objs[slot] = f
		return b2i(vm.AddFunc(f) == nil)
	case 2:
		it := node.NewInterfaceStatement(nil, n, nil, nil)
		objs[slot] = it
		return b2i(vm.AddInterface(it) == nil)
	case 3:
		_, ok := vm.GetClass(n)
		return b2i(ok)
	case 4:
		_, ok := vm.GetFunc(n)
		return b2i(ok)
	case 5:
		return b2i(vm.SetConstant(n, data.NewIntValue(tag)) == nil)
	case 6:
		v, ok := vm.GetConstant(n)
		if !ok {
			return 0
		}
		if iv, ok := v.(*data.IntValue); ok {
			return 10 + iv.Value
		}
		return 1
	case 7:
		zv := vm.EnsureGlobalZVal(n)
		objs[slot] = zv
		return b2i(zv != nil)
	}
	return -1
}

// H_two: two goroutines, one call each (all op pairs, all name pairs).
func H_two() {
	ops := [2]int{symx.Choose("op0", nOps), symx.Choose("op1", nOps)}
	names := [2]string{pool[symx.Choose("n0", 2)], pool[symx.Choose("n1", 2)]}
	vm := runtime.NewVM(parser.NewParser())
	for _, m := range vm.(*runtime.VM).VerifRegistryMaps() {
		symx.SharedMap(m)
	}
	// recorded findings are matched by the race label
	symx.KnownPanic("C10-registry-write-under-rlock", "data-race@", true)
	var wg sync.WaitGroup
	res := [2]int{}
	wg.Add(2)
	for t := 0; t < 2; t++ {
		t := t
		go func() {
			res[t] = do(vm, ops[t], names[t], t+1)
			wg.Done()
		}()
	}
	wg.Wait()
	// sequential witnesses on fresh VMs
	match := false
	for _, order := range [][2]int{{0, 1}, {1, 0}} {
		w := runtime.NewVM(parser.NewParser())
		var sr [2]int
		for _, t := range order {
			sr[t] = doSlot(w, ops[t], names[t], t+1, t+5)
		}
		if sr == res {
			match = true
		}
	}
	symx.Assert(match, "results equal those of some sequential order of the same calls")
	// every registration that reported success is visible to all later lookups, as that very object
	for t := 0; t < 2; t++ {
		switch ops[t] {
		case 0:
			if res[t] == 1 {
				c, ok := vm.GetClass(names[t])
				symx.Assert(ok && any(c) == objs[t+1], "an accepted class registration is what later lookups resolve")
			}
		case 1:
			if res[t] == 1 {
				f, ok := vm.GetFunc(names[t])
				symx.Assert(ok && any(f) == objs[t+1], "an accepted function registration is what later lookups resolve")
			}
		case 2:
			if res[t] == 1 {
				it, ok := vm.GetInterface(names[t])
				symx.Assert(ok && any(it) == objs[t+1], "an accepted interface registration is what later lookups resolve")
			}
		case 5:
			if res[t] == 1 {
				symx.Assert(do(vm, 6, names[t], 0) == 10+t+1, "an accepted constant is what later lookups read")
			}
		case 7:
			symx.Assert(any(vm.EnsureGlobalZVal(names[t])) == objs[t+1], "the global cell returned to a caller is the one later callers get")
		}
	}
	// duplicate registration accepted by at most one registrant
	if ops[0] == ops[1] && names[0] == names[1] && (ops[0] == 0 || ops[0] == 1 || ops[0] == 2 || ops[0] == 5) {
		symx.Assert(res[0]+res[1] <= 1, "a duplicate name is accepted for at most one registrant")
	}
	symx.Reach("end")
}

// H_two_fold: the case-insensitive lookup path. A class whose name differs from the looked-up
// spelling only in letter case is registered before the goroutines start (or not), and the two
// goroutines register / look up the spellings "a" and "A": lookups that miss the exact spelling
// take the case-folding path concurrently with each other and with registrations.
func H_two_fold() {
	fold := []string{"a", "A"}
	opsel := []int{0, 3, 3, 2} // AddClass, GetClass (twice as likely to pair up), AddInterface
	ops := [2]int{opsel[symx.Choose("op0", 4)], opsel[symx.Choose("op1", 4)]}
	names := [2]string{fold[symx.Choose("n0", 2)], fold[symx.Choose("n1", 2)]}
	pre := symx.Choose("pre", 3) // 0 nothing, 1 class "A", 2 class "a"
	mk := func() data.VM {
		vm := runtime.NewVM(parser.NewParser())
		if pre > 0 {
			vm.AddClass(node.NewClassStatement(nil, fold[2-pre], "", nil, nil, map[string]data.Method{}))
		}
		return vm
	}
	vm := mk()
	for _, m := range vm.(*runtime.VM).VerifRegistryMaps() {
		symx.SharedMap(m)
	}
	var wg sync.WaitGroup
	res := [2]int{}
	wg.Add(2)
	for t := 0; t < 2; t++ {
		t := t
		go func() {
			res[t] = do(vm, ops[t], names[t], t+1)
			wg.Done()
		}()
	}
	wg.Wait()
	match := false
	for _, order := range [][2]int{{0, 1}, {1, 0}} {
		w := mk()
		var sr [2]int
		for _, t := range order {
			sr[t] = doSlot(w, ops[t], names[t], t+1, t+5)
		}
		if sr == res {
			match = true
		}
	}
	symx.Assert(match, "fold: results equal those of some sequential order of the same calls")
	symx.Reach("end")
}

// H_two_autoload: two goroutines resolve classes that have to be loaded from files (virtual file
// system) on one VM at the same time. Whatever the interleaving, a class that exists as a file is
// found by both, as in either sequential order, and the registries stay race free.
func H_two_autoload() {
	root := symx.VRoot()
	defer symx.VCleanup()
	symx.VFile(root+"/app/Foo.php", "<?php\nnamespace App;\nclass Foo { public $v = 1; }\n")
	symx.VFile(root+"/app/Bar.php", "<?php\nnamespace App;\nclass Bar { public $w = 2; }\n")
	// classes of sub-namespaces that were NOT registered explicitly (their path nodes are created on
	// first use)
	symx.VFile(root+"/app/Sub/Qux.php", "<?php\nnamespace App\\Sub;\nclass Qux { public $x = 3; }\n")
	symx.VFile(root+"/app/Sub/Deep/Baz.php", "<?php\nnamespace App\\Sub\\Deep;\nclass Baz { public $y = 4; }\n")
	names := []string{"App\\Foo", "App\\Bar", "App\\Sub\\Qux", "App\\Sub\\Deep\\Baz"}
	sel := [2]int{symx.Choose("n0", 4), symx.Choose("n1", 4)}
	ops := [2]int{symx.Choose("op0", 2), symx.Choose("op1", 2)} // 0 GetOrLoadClass, 1 LoadPkg
	vm := runtime.NewVM(parser.NewParser())
	vm.SetThrowControl(func(acl data.Control) {})
	vm.AddNamespace("App", root+"/app")
	for _, m := range vm.(*runtime.VM).VerifRegistryMaps() {
		symx.SharedMap(m)
	}
	var wg sync.WaitGroup
	res := [2]int{}
	wg.Add(2)
	for t := 0; t < 2; t++ {
		t := t
		go func() {
			if ops[t] == 0 {
				c, ctl := vm.GetOrLoadClass(names[sel[t]])
				if ctl == nil && c != nil {
					res[t] = 1
				}
			} else {
				c, ctl := vm.LoadPkg(names[sel[t]])
				if ctl == nil && c != nil {
					res[t] = 1
				}
			}
			wg.Done()
		}()
	}
	wg.Wait()
	symx.AssertKnown(res[0] == 1 && res[1] == 1, "autoload: a class that exists as a file is resolved by both concurrent callers", sel[0] == sel[1], "C10-concurrent-autoload-same-file")
	_, ok := vm.GetClass(names[sel[0]])
	symx.Assert(ok, "autoload: the class is registered afterwards")
	symx.Reach("end")
}

// N_autoload_same_file is the native confirmation twin of C10-concurrent-autoload-same-file (run
// natively only): four goroutines load the same class file on a fresh VM, repeated over many
// rounds with a class body large enough for the loads to overlap; a failed load is the finding.
func N_autoload_same_file() {
	root := symx.VRoot()
	defer symx.VCleanup()
	body := "<?php\nnamespace App;\nclass Foo {\n"
	for i := 0; i < 300; i++ {
		body += "  public function m" + itoa(i) + "($a, $b) { if ($a > $b) { return $a - $b; } return $a + $b * " + itoa(i) + "; }\n"
	}
	body += "}\n"
	symx.VFile(root+"/app/Foo.php", body)
	failed := 0
	for round := 0; round < 40; round++ {
		vm := runtime.NewVM(parser.NewParser())
		vm.SetThrowControl(func(acl data.Control) {})
		vm.AddNamespace("App", root+"/app")
		var wg sync.WaitGroup
		var mu sync.Mutex
		for g := 0; g < 4; g++ {
			wg.Add(1)
			go func() {
				defer wg.Done()
				c, ctl := vm.GetOrLoadClass("App\\Foo")
				if ctl != nil || c == nil {
					mu.Lock()
					failed++
					mu.Unlock()
				}
			}()
		}
		wg.Wait()
	}
	symx.Assert(failed == 0, "native twin: every concurrent load of an existing class file succeeds")
}

func itoa(x int) string {
	if x == 0 {
		return "0"
	}
	out := ""
	for x > 0 {
		out = string(rune('0'+x%10)) + out
		x /= 10
	}
	return out
}

// H_two_temp: two coroutines of ONE request (they share the request's temporary VM, as spawn
// does) register and look up classes, functions and interfaces: no data race on the request's
// own tables, and the results equal those of some sequential order.
func H_two_temp() {
	ops := [2]int{symx.Choose("op0", 5), symx.Choose("op1", 5)}
	names := [2]string{pool[symx.Choose("n0", 2)], pool[symx.Choose("n1", 2)]}
	base := runtime.NewVM(parser.NewParser())
	vm := runtime.NewTempVM(base)
	var wg sync.WaitGroup
	res := [2]int{}
	wg.Add(2)
	for t := 0; t < 2; t++ {
		t := t
		go func() {
			res[t] = do(vm, ops[t], names[t], t+1)
			wg.Done()
		}()
	}
	wg.Wait()
	match := false
	for _, order := range [][2]int{{0, 1}, {1, 0}} {
		w := runtime.NewTempVM(runtime.NewVM(parser.NewParser()))
		var sr [2]int
		for _, t := range order {
			sr[t] = doSlot(w, ops[t], names[t], t+1, t+5)
		}
		if sr == res {
			match = true
		}
	}
	symx.Assert(match, "results equal those of some sequential order of the same calls")
	symx.Reach("end")
}
