// Package c10: VM registries stay consistent under concurrent definition and
// lookup (DESIGN.md §4 C10). Two or three goroutines issue Add*/Get*/SetConstant/
// EnsureGlobalZVal calls on one VM; every interleaving of their lock operations is
// explored; (a) no unordered conflicting access to a registry map (the condition
// under which the Go runtime dies with "concurrent map writes"), (b) the tuple of
// results equals that of some sequential order, (c) a duplicate name is accepted
// for at most one registrant.
package c10

import (
	"sync"

	"github.com/php-any/origami/data"
	"github.com/php-any/origami/node"
	"github.com/php-any/origami/parser"
	"github.com/php-any/origami/runtime"
	"verif/symx"
)

type fn struct{ name string }

func (f *fn) Call(ctx data.Context) (data.GetValue, data.Control) { return data.NewNullValue(), nil }
func (f *fn) GetName() string                                      { return f.name }
func (f *fn) GetParams() []data.GetValue                           { return nil }
func (f *fn) GetVariables() []data.Variable                        { return nil }

var pool = []string{"a", "b"}

const nOps = 8

// do performs operation op on vm with name n and returns an int summarising the result:
// registration: 1 accepted / 0 rejected; lookup: 1 found / 0 not found.
func do(vm data.VM, op int, n string, tag int) int {
	b2i := func(b bool) int {
		if b {
			return 1
		}
		return 0
	}
	switch op {
	case 0:
		return b2i(vm.AddClass(node.NewClassStatement(nil, n, "", nil, nil, map[string]data.Method{})) == nil)
	case 1:
		return b2i(vm.AddFunc(&fn{name: n}) == nil)
	case 2:
		return b2i(vm.AddInterface(node.NewInterfaceStatement(nil, n, nil, nil)) == nil)
	case 3:
		_, ok := vm.GetClass(n)
		return b2i(ok)
	case 4:
		_, ok := vm.GetFunc(n)
		return b2i(ok)
	case 5:
		return b2i(vm.SetConstant(n, data.NewIntValue(tag)) == nil)
	case 6:
		v, ok := vm.GetConstant(n)
		if !ok {
			return 0
		}
		if iv, ok := v.(*data.IntValue); ok {
			return 10 + iv.Value
		}
		return 1
	case 7:
		return b2i(vm.EnsureGlobalZVal(n) != nil)
	}
	return -1
}

// H_two: two goroutines, one call each (all op pairs, all name pairs).
func H_two() {
	ops := [2]int{symx.Choose("op0", nOps), symx.Choose("op1", nOps)}
	names := [2]string{pool[symx.Choose("n0", 2)], pool[symx.Choose("n1", 2)]}
	vm := runtime.NewVM(parser.NewParser())
	for _, m := range vm.(*runtime.VM).VerifRegistryMaps() {
		symx.SharedMap(m)
	}
	// recorded findings are matched by the race label
	symx.KnownPanic("C10-registry-write-under-rlock", "data-race@", true)
	var wg sync.WaitGroup
	res := [2]int{}
	wg.Add(2)
	for t := 0; t < 2; t++ {
		t := t
		go func() {
			res[t] = do(vm, ops[t], names[t], t+1)
			wg.Done()
		}()
	}
	wg.Wait()
	// sequential witnesses on fresh VMs
	match := false
	for _, order := range [][2]int{{0, 1}, {1, 0}} {
		w := runtime.NewVM(parser.NewParser())
		var sr [2]int
		for _, t := range order {
			sr[t] = do(w, ops[t], names[t], t+1)
		}
		if sr == res {
			match = true
		}
	}
	symx.Assert(match, "results equal those of some sequential order of the same calls")
	// duplicate registration accepted by at most one registrant
	if ops[0] == ops[1] && names[0] == names[1] && (ops[0] == 0 || ops[0] == 1 || ops[0] == 2 || ops[0] == 5) {
		symx.Assert(res[0]+res[1] <= 1, "a duplicate name is accepted for at most one registrant")
	}
	symx.Reach("end")
}
