// Package c15: array and string methods behave as documented (Node.js-style
// semantics; docs/array_methods.md, docs/strings.md). DESIGN.md §4 C15, B.5.
package c15

import (
	"verif/harness/sx"
	"verif/symx"
)

// V is a reference value: int, null, bool or a list.
type V struct {
	K    byte // i n b a
	I    int
	B    bool
	List []V
}

func iv(x int) V  { return V{K: 'i', I: x} }
func lv(xs []V) V { return V{K: 'a', List: xs} }
func ints(xs []int) []V {
	out := make([]V, len(xs))
	for i, x := range xs {
		out[i] = iv(x)
	}
	return out
}

// flatten a reference value into the observation encoding of sx.dump
func enc(v V, out *[]sx.Obs) {
	switch v.K {
	case 'a':
		*out = append(*out, sx.Obs{Kind: 'a', I: len(v.List)})
		for _, e := range v.List {
			enc(e, out)
		}
	case 'i':
		*out = append(*out, sx.Obs{Kind: 'i', I: v.I})
	case 'b':
		*out = append(*out, sx.Obs{Kind: 'b', B: v.B})
	default:
		*out = append(*out, sx.Obs{Kind: 'n'})
	}
}

func rel(i, L int) int {
	if i < 0 {
		if L+i < 0 {
			return 0
		}
		return L + i
	}
	if i > L {
		return L
	}
	return i
}

// runMethod: `$arr = [..]; $r = $arr-><call>; dump($r); mark(5); dump($arr);`
func runMethod(lit, call string, binds []sx.Bind) ([]sx.Obs, []sx.Obs, bool, bool) {
	// $a,$b,$c are ordinary assigned script variables (a closure's use() captures them like any other)
	s := sx.Compile("$a = $pa; $b = $pb; $c = $pc;\n$arr = " + lit + ";\n$r = $arr->" + call + ";\ndump($r); mark(5); dump($arr);")
	if s.Err != nil {
		return nil, nil, false, false
	}
	_, ctl := s.Run(binds...)
	if ctl != nil {
		return nil, nil, sx.IsThrow(ctl), true
	}
	for i, o := range sx.Log {
		if o.Kind == 'M' && o.I == 5 {
			res := append([]sx.Obs{}, sx.Log[:i]...)
			recv := append([]sx.Obs{}, sx.Log[i+1:]...)
			return res, recv, false, true
		}
	}
	return nil, nil, false, false
}

func sameObs(got []sx.Obs, want V, label string, known bool, id string) {
	var w []sx.Obs
	enc(want, &w)
	symx.AssertKnown(len(got) == len(w), label, known, id)
	if len(got) != len(w) {
		return
	}
	for i := range w {
		ok := got[i].Kind == w[i].Kind
		if ok {
			switch w[i].Kind {
			case 'i', 'a':
				ok = got[i].I == w[i].I
			case 'b':
				ok = got[i].B == w[i].B
			}
		}
		symx.AssertKnown(ok, label, known, id)
	}
}

// receiver: list of L symbolic ints
func receiver(concrete bool) (string, []int, []sx.Bind) {
	L := symx.Choose("L", 4)
	names := []string{"e0", "e1", "e2"}
	lit := "["
	var vals []int
	var binds []sx.Bind
	for i := 0; i < L; i++ {
		if i > 0 {
			lit += ", "
		}
		lit += "$" + names[i]
		var v int
		if concrete {
			v = []int{0, 1, -1, 7}[symx.Choose(names[i]+"c", 4)]
		} else {
			v = symx.Int(names[i])
		}
		vals = append(vals, v)
		binds = append(binds, sx.Bind{Name: names[i], V: sx.Int(v)})
	}
	return lit + "]", vals, binds
}

type caseDef struct {
	call   string
	known  string // id of a recorded finding covering the whole case ("" = none)
	result func(r []int, a, b, c int) V
	after  func(r []int, a, b, c int) []int // receiver afterwards
}

func same(r []int, a, b, c int) []int { return r }

var cases = []caseDef{
	{"push($a)", "", func(r []int, a, b, c int) V { return iv(len(r) + 1) }, func(r []int, a, b, c int) []int { return append(append([]int{}, r...), a) }},
	{"push($a, $b)", "", func(r []int, a, b, c int) V { return iv(len(r) + 2) }, func(r []int, a, b, c int) []int { return append(append([]int{}, r...), a, b) }},
	{"pop()", "", func(r []int, a, b, c int) V {
		if len(r) == 0 {
			return V{K: 'n'}
		}
		return iv(r[len(r)-1])
	}, func(r []int, a, b, c int) []int {
		if len(r) == 0 {
			return r
		}
		return r[:len(r)-1]
	}},
	{"shift()", "", func(r []int, a, b, c int) V {
		if len(r) == 0 {
			return V{K: 'n'}
		}
		return iv(r[0])
	}, func(r []int, a, b, c int) []int {
		if len(r) == 0 {
			return r
		}
		return r[1:]
	}},
	{"unshift($a)", "", func(r []int, a, b, c int) V { return iv(len(r) + 1) }, func(r []int, a, b, c int) []int { return append([]int{a}, r...) }},
	{"unshift($a, $b)", "", func(r []int, a, b, c int) V { return iv(len(r) + 2) }, func(r []int, a, b, c int) []int { return append([]int{a, b}, r...) }},
	{"slice()", "", func(r []int, a, b, c int) V { return lv(ints(r)) }, same},
	{"slice($a)", "", func(r []int, a, b, c int) V {
		s := rel(a, len(r))
		return lv(ints(r[s:]))
	}, same},
	{"slice($a, $b)", "", func(r []int, a, b, c int) V {
		s, e := rel(a, len(r)), rel(b, len(r))
		if s >= e {
			return lv(nil)
		}
		return lv(ints(r[s:e]))
	}, same},
	{"splice($a)", "", func(r []int, a, b, c int) V { return lv(ints(r[rel(a, len(r)):])) }, func(r []int, a, b, c int) []int { return r[:rel(a, len(r))] }},
	{"splice($a, $b)", "", spliceRes, func(r []int, a, b, c int) []int { return spliceAfter(r, a, b, nil) }},
	{"splice($a, $b, $c)", "", spliceRes, func(r []int, a, b, c int) []int { return spliceAfter(r, a, b, []int{c}) }},
	{"splice($a, $b, $c, 7)", "", spliceRes, func(r []int, a, b, c int) []int { return spliceAfter(r, a, b, []int{c, 7}) }},
	{"concat([$a, $b])", "", func(r []int, a, b, c int) V { return lv(ints(append(append([]int{}, r...), a, b))) }, same},
	{"concat([$a], [$b, $c])", "", func(r []int, a, b, c int) V { return lv(ints(append(append([]int{}, r...), a, b, c))) }, same},
	{"concat($a, [$b])", "", func(r []int, a, b, c int) V { return lv(ints(append(append([]int{}, r...), a, b))) }, same},
	{"reverse()", "", func(r []int, a, b, c int) V { return lv(ints(rev(r))) }, func(r []int, a, b, c int) []int { return rev(r) }},
	{"indexOf($a)", "", func(r []int, a, b, c int) V { return iv(indexOf(r, a, 0)) }, same},
	{"indexOf($a, $b)", "", func(r []int, a, b, c int) V { return iv(indexOf(r, a, rel(b, len(r)))) }, same},
	{"includes($a)", "", func(r []int, a, b, c int) V { return V{K: 'b', B: indexOf(r, a, 0) >= 0} }, same},
	{"includes($a, $b)", "", func(r []int, a, b, c int) V { return V{K: 'b', B: indexOf(r, a, rel(b, len(r))) >= 0} }, same},
	{"map(function($x) use ($a) { return $x + $a; })", "", func(r []int, a, b, c int) V {
		out := make([]int, len(r))
		for i, x := range r {
			out[i] = x + a
		}
		return lv(ints(out))
	}, same},
	{"map(function($x, $i) use ($a) { return $x * 2 + $i; })", "", func(r []int, a, b, c int) V {
		out := make([]int, len(r))
		for i, x := range r {
			out[i] = x*2 + i
		}
		return lv(ints(out))
	}, same},
	{"filter(function($x) use ($a) { return $x > $a; })", "", func(r []int, a, b, c int) V {
		var out []int
		for _, x := range r {
			if x > a {
				out = append(out, x)
			}
		}
		return lv(ints(out))
	}, same},
	{"find(function($x) use ($a) { return $x > $a; })", "", func(r []int, a, b, c int) V {
		for _, x := range r {
			if x > a {
				return iv(x)
			}
		}
		return V{K: 'n'}
	}, same},
	{"findIndex(function($x) use ($a) { return $x > $a; })", "", func(r []int, a, b, c int) V {
		for i, x := range r {
			if x > a {
				return iv(i)
			}
		}
		return iv(-1)
	}, same},
	{"every(function($x) use ($a) { return $x > $a; })", "", func(r []int, a, b, c int) V {
		for _, x := range r {
			if !(x > a) {
				return V{K: 'b', B: false}
			}
		}
		return V{K: 'b', B: true}
	}, same},
	{"some(function($x) use ($a) { return $x > $a; })", "", func(r []int, a, b, c int) V {
		for _, x := range r {
			if x > a {
				return V{K: 'b', B: true}
			}
		}
		return V{K: 'b', B: false}
	}, same},
	{"reduce(function($acc, $x) { return $acc + $x; }, $a)", "", func(r []int, a, b, c int) V {
		acc := a
		for _, x := range r {
			acc += x
		}
		return iv(acc)
	}, same},
	{"flatMap(function($x) use ($a) { return [$x, $x + $a]; })", "", func(r []int, a, b, c int) V {
		var out []int
		for _, x := range r {
			out = append(out, x, x+a)
		}
		return lv(ints(out))
	}, same},
	{"flat()", "", func(r []int, a, b, c int) V { return lv(ints(r)) }, same},
	// callbacks with a local variable: a local starts unset for every element (it is neither the
	// index argument nor what the previous element left behind)
	{"map(function($x) use ($a) { if ($x > $a) { $s = $x; } return $s ?? 0; })", "", func(r []int, a, b, c int) V {
		out := make([]int, len(r))
		for i, x := range r {
			if x > a {
				out[i] = x
			}
		}
		return lv(ints(out))
	}, same},
	{"filter(function($x) use ($a) { if ($x > $a) { $big = 1; } return ($big ?? 0) > 0; })", "", func(r []int, a, b, c int) V {
		var out []int
		for _, x := range r {
			if x > a {
				out = append(out, x)
			}
		}
		return lv(ints(out))
	}, same},
	{"findIndex(function($x) use ($a) { if ($x == $a) { $hit = 1; } return ($hit ?? 0) == 1; })", "", func(r []int, a, b, c int) V {
		for i, x := range r {
			if x == a {
				return iv(i)
			}
		}
		return iv(-1)
	}, same},
	{"some(function($x, $i) use ($a) { if ($x > $a) { $f = 1; } return ($f ?? 0) == 1; })", "", func(r []int, a, b, c int) V {
		for _, x := range r {
			if x > a {
				return V{K: 'b', B: true}
			}
		}
		return V{K: 'b', B: false}
	}, same},
	{"reduce(function($acc, $x) { return $acc + $x; })", "", func(r []int, a, b, c int) V {
		if len(r) == 0 {
			return V{K: 'n'}
		}
		acc := r[0]
		for _, x := range r[1:] {
			acc += x
		}
		return iv(acc)
	}, same},
	{"reduce(function($acc, $x) use ($a) { if ($x > $a) { $n = 1; } return $acc + ($n ?? 0); }, 0)", "", func(r []int, a, b, c int) V {
		acc := 0
		for _, x := range r {
			if x > a {
				acc++
			}
		}
		return iv(acc)
	}, same},
	// callbacks that USE the index argument (its value is part of the documented contract)
	{"reduce(function($acc, $x, $i) { return $acc + $x + $i * 100; })", "", func(r []int, a, b, c int) V {
		if len(r) == 0 {
			return V{K: 'n'}
		}
		acc := r[0]
		for i := 1; i < len(r); i++ {
			acc += r[i] + i*100
		}
		return iv(acc)
	}, same},
	{"reduce(function($acc, $x, $i) { return $acc + $x + $i * 100; }, $a)", "", func(r []int, a, b, c int) V {
		acc := a
		for i := 0; i < len(r); i++ {
			acc += r[i] + i*100
		}
		return iv(acc)
	}, same},
	{"filter(function($x, $i) { return $i != 1; })", "", func(r []int, a, b, c int) V {
		var out []int
		for i, x := range r {
			if i != 1 {
				out = append(out, x)
			}
		}
		return lv(ints(out))
	}, same},
	{"findIndex(function($x, $i) { return $i == 2; })", "", func(r []int, a, b, c int) V {
		if len(r) > 2 {
			return iv(2)
		}
		return iv(-1)
	}, same},
	{"every(function($x, $i) { return $i < 2; })", "", func(r []int, a, b, c int) V { return V{K: 'b', B: len(r) <= 2} }, same},
	{"some(function($x, $i) { return $i == 1; })", "", func(r []int, a, b, c int) V { return V{K: 'b', B: len(r) >= 2} }, same},
}

func rev(r []int) []int {
	out := make([]int, len(r))
	for i, x := range r {
		out[len(r)-1-i] = x
	}
	return out
}

func indexOf(r []int, x, from int) int {
	for i := from; i < len(r); i++ {
		if r[i] == x {
			return i
		}
	}
	return -1
}

func spliceParts(r []int, a, b int) (int, int) {
	s := rel(a, len(r))
	dc := b
	if dc < 0 {
		dc = 0
	}
	if dc > len(r)-s {
		dc = len(r) - s
	}
	return s, dc
}

func spliceRes(r []int, a, b, c int) V {
	s, dc := spliceParts(r, a, b)
	return lv(ints(r[s : s+dc]))
}

func spliceAfter(r []int, a, b int, items []int) []int {
	s, dc := spliceParts(r, a, b)
	out := append([]int{}, r[:s]...)
	out = append(out, items...)
	return append(out, r[s+dc:]...)
}

// H_array: every method case on receivers of length 0..3 with symbolic elements
// and symbolic (full-range) index/count arguments.
func H_array() {
	k := symx.Param("case", -1)
	if k < 0 {
		k = symx.Choose("case", len(cases))
	}
	cd := cases[k]
	// indexOf/includes compare elements through their string form (number formatting is not
	// encoded): receiver elements and the searched value come from a concrete pool there
	conc := len(cd.call) > 8 && (cd.call[:7] == "indexOf" || cd.call[:8] == "includes")
	lit, r, binds := receiver(conc)
	a, b, c := symx.Int("a"), symx.Int("b"), symx.Int("c")
	if conc {
		a = []int{0, 1, -1, 7}[symx.Choose("ac", 4)]
	}
	binds = append(binds, sx.Bind{Name: "pa", V: sx.Int(a)}, sx.Bind{Name: "pb", V: sx.Int(b)}, sx.Bind{Name: "pc", V: sx.Int(c)})
	res, recv, threw, ok := runMethod(lit, cd.call, binds)
	known := cd.known != ""
	symx.AssertKnown(ok && !threw, cd.call+": call completes", known, cd.known)
	if !ok || threw {
		return
	}
	sameObs(res, cd.result(r, a, b, c), cd.call+": result as documented", known, cd.known)
	sameObs(recv, lv(ints(cd.after(r, a, b, c))), cd.call+": receiver afterwards as documented", known, cd.known)
	symx.Reach("end")
}

// ---- strings (docs/strings.md). Receivers: printable-ASCII strings of length n (symbolic bytes).

func strObs() ([]sx.Obs, bool) {
	if len(sx.Log) == 0 {
		return nil, false
	}
	return sx.Log, true
}

func runStr(call string, binds []sx.Bind) ([]sx.Obs, bool, bool) {
	s := sx.Compile("$s = $ps; $t = $pt; $u = $pu; $a = $pa; $b = $pb;\n$r = $s->" + call + ";\ndump($r); mark(5); dump($s);")
	if s.Err != nil {
		return nil, false, false
	}
	_, ctl := s.Run(binds...)
	if ctl != nil {
		return nil, sx.IsThrow(ctl), true
	}
	return append([]sx.Obs{}, sx.Log...), false, true
}

func printable(s string) {
	for i := 0; i < len(s); i++ {
		symx.Assume(s[i] >= 32 && s[i] < 127)
	}
}

func upper(s string) string {
	b := []byte(s)
	for i := range b {
		if b[i] >= 'a' && b[i] <= 'z' {
			b[i] -= 32
		}
	}
	return string(b)
}
func lower(s string) string {
	b := []byte(s)
	for i := range b {
		if b[i] >= 'A' && b[i] <= 'Z' {
			b[i] += 32
		}
	}
	return string(b)
}
func index(s, t string) int {
	for i := 0; i+len(t) <= len(s); i++ {
		if s[i:i+len(t)] == t {
			return i
		}
	}
	return -1
}
func trim(s string) string {
	i, j := 0, len(s)
	for i < j && s[i] == ' ' {
		i++
	}
	for j > i && s[j-1] == ' ' {
		j--
	}
	return s[i:j]
}

func H_string() {
	n, m := symx.Param("n", 2), symx.Param("m", 1)
	s, t, u := symx.String("s", n), symx.String("t", m), symx.String("u", 1)
	printable(s)
	printable(t)
	printable(u)
	a, b := symx.IntRange("a", -1, n+1), symx.IntRange("b", -1, n+1)
	binds := []sx.Bind{{Name: "ps", V: sx.Str(s)}, {Name: "pt", V: sx.Str(t)}, {Name: "pu", V: sx.Str(u)}, {Name: "pa", V: sx.Int(a)}, {Name: "pb", V: sx.Int(b)}}
	calls := []string{"length()", "indexOf($t)", "toUpperCase()", "toLowerCase()", "startsWith($t)", "endsWith($t)", "trim()", "substring($a, $b)", "substring($a)", "replace($t, $u)", "split($t)"}
	k := symx.Choose("case", len(calls))
	call := calls[k]
	log, threw, ok := runStr(call, binds)
	symx.Assert(ok && !threw, call+": call completes")
	if !ok || threw {
		return
	}
	// split into result / receiver-after
	cut := -1
	for i, o := range log {
		if o.Kind == 'M' && o.I == 5 {
			cut = i
		}
	}
	symx.Assert(cut >= 1 && cut+2 == len(log), call+": one result, receiver dumped")
	if !(cut >= 1 && cut+2 == len(log)) {
		return
	}
	res, recv := log[:cut], log[cut+1]
	symx.Assert(recv.Kind == 's' && recv.S == s, call+": receiver untouched")
	r0 := res[0]
	switch k {
	case 0:
		symx.Assert(len(res) == 1 && r0.Kind == 'i' && r0.I == len(s), call+": as documented")
	case 1:
		symx.Assert(len(res) == 1 && r0.Kind == 'i' && r0.I == index(s, t), call+": as documented")
	case 2:
		symx.Assert(len(res) == 1 && r0.Kind == 's' && r0.S == upper(s), call+": as documented")
	case 3:
		symx.Assert(len(res) == 1 && r0.Kind == 's' && r0.S == lower(s), call+": as documented")
	case 4:
		symx.Assert(len(res) == 1 && r0.Kind == 'b' && r0.B == (len(t) <= len(s) && s[:len(t)] == t), call+": as documented")
	case 5:
		symx.Assert(len(res) == 1 && r0.Kind == 'b' && r0.B == (len(t) <= len(s) && s[len(s)-len(t):] == t), call+": as documented")
	case 6:
		symx.Assert(len(res) == 1 && r0.Kind == 's' && r0.S == trim(s), call+": as documented")
	case 7:
		if a >= 0 && a <= b && b <= len(s) { // documented domain; outside it only "no crash" is claimed
			symx.Assert(len(res) == 1 && r0.Kind == 's' && r0.S == s[a:b], call+": as documented")
		}
	case 8:
		if a >= 0 && a <= len(s) {
			symx.Assert(len(res) == 1 && r0.Kind == 's' && r0.S == s[a:], call+": as documented")
		}
	case 9:
		if len(t) > 0 {
			// every occurrence replaced (docs: "Hello World"->replace("o","0") == "Hell0 W0rld")
			want := ""
			for i := 0; i < len(s); {
				if i+len(t) <= len(s) && s[i:i+len(t)] == t {
					want += u
					i += len(t)
				} else {
					want += s[i : i+1]
					i++
				}
			}
			symx.Assert(len(res) == 1 && r0.Kind == 's' && r0.S == want, call+": as documented")
		}
	case 10:
		if len(t) > 0 {
			var parts []string
			cur := ""
			for i := 0; i < len(s); {
				if i+len(t) <= len(s) && s[i:i+len(t)] == t {
					parts = append(parts, cur)
					cur = ""
					i += len(t)
				} else {
					cur += s[i : i+1]
					i++
				}
			}
			parts = append(parts, cur)
			symx.Assert(r0.Kind == 'a' && r0.I == len(parts) && len(res) == len(parts)+1, call+": as documented (piece count)")
			if r0.Kind == 'a' && len(res) == len(parts)+1 {
				for i, p := range parts {
					symx.Assert(res[i+1].Kind == 's' && res[i+1].S == p, call+": as documented (piece)")
				}
			}
		}
	}
	symx.Reach("end")
}

// H_array_text: methods whose result depends on the decimal text of the elements (join, sort)
// and flat() on nested lists. Elements come from a concrete pool (number formatting is not encoded).
func H_array_text() {
	pool := []int{10, 9, 1, -1, -2, 2}
	L := symx.Choose("L", 4)
	var r []int
	lit := "["
	for i := 0; i < L; i++ {
		if i > 0 {
			lit += ", "
		}
		v := pool[symx.Choose("e"+string(rune('0'+i)), len(pool))]
		r = append(r, v)
		lit += itoa(v)
	}
	lit += "]"
	kind := symx.Choose("method", 7)
	text := func(sep string) string {
		out := ""
		for i, x := range r {
			if i > 0 {
				out += sep
			}
			out += itoa(x)
		}
		return out
	}
	var call string
	var wantStr string
	var wantList []V
	isStr := false
	after := lv(ints(r))
	recvLit := lit
	switch kind {
	case 0:
		call, wantStr, isStr = "join()", text(","), true
	case 1:
		call, wantStr, isStr = "join(\"-\")", text("-"), true
	case 2:
		call, wantStr, isStr = "join(\"\")", text(""), true
	case 3:
		// sort(): string comparison of the elements, receiver sorted in place
		sorted := append([]int{}, r...)
		for i := 1; i < len(sorted); i++ {
			for j := i; j > 0 && itoa(sorted[j]) < itoa(sorted[j-1]); j-- {
				sorted[j], sorted[j-1] = sorted[j-1], sorted[j]
			}
		}
		call, wantList = "sort()", ints(sorted)
		after = lv(ints(sorted))
	default:
		// flat(depth?) on [e.., [e.., [e..]]]
		nested := lv(append(ints(r), lv(append(ints(r), lv(ints(r))))))
		recvLit = "[" + text(", ") + sepIf(L) + "[" + text(", ") + sepIf(L) + "[" + text(", ") + "]]]"
		after = nested
		switch kind {
		case 4:
			call = "flat()"
			wantList = append(append(ints(r), ints(r)...), lv(ints(r)))
		case 5:
			call = "flat(2)"
			wantList = append(append(ints(r), ints(r)...), ints(r)...)
		case 6:
			call = "flat(0)"
			wantList = nested.List
		}
	}
	res, recv, threw, ok := runMethod(recvLit, call, []sx.Bind{{Name: "pa", V: sx.Int(0)}, {Name: "pb", V: sx.Int(0)}, {Name: "pc", V: sx.Int(0)}})
	symx.Assert(ok && !threw, call+": call completes")
	if !ok || threw {
		return
	}
	if isStr {
		symx.Assert(len(res) == 1 && res[0].Kind == 's' && res[0].S == wantStr, call+": result as documented")
	} else {
		sameObs(res, lv(wantList), call+": result as documented", false, "")
	}
	sameObs(recv, after, call+": receiver afterwards as documented", false, "")
	symx.Reach("end")
}

func sepIf(L int) string {
	if L > 0 {
		return ", "
	}
	return ""
}

func itoa(x int) string {
	if x == 0 {
		return "0"
	}
	neg := x < 0
	if neg {
		x = -x
	}
	out := ""
	for x > 0 {
		out = string(rune('0'+x%10)) + out
		x /= 10
	}
	if neg {
		out = "-" + out
	}
	return out
}
