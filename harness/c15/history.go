package c15

// Histories on ONE array value: a non-mutating method, a change of the array's length, the same
// method again (and a different one). The second call must see the array as it is then: a method
// object, view or length remembered from the first call would show here.

import (
	"verif/harness/sx"
	"verif/symx"
)

func H_array_history() {
	m := symx.Choose("method", 6)
	mut := symx.Choose("mutation", 6)
	e0, e1, e2 := symx.Int("e0"), symx.Int("e1"), symx.Int("e2")
	x := symx.Int("x")
	pool := []int{0, 1, -1, 7}
	conc := m <= 1 // indexOf / includes compare through the string form: concrete pool there
	if conc {
		e0, e1, e2 = pool[symx.Choose("e0c", 4)], pool[symx.Choose("e1c", 4)], pool[symx.Choose("e2c", 4)]
		x = pool[symx.Choose("xc", 4)]
	}
	calls := []string{"indexOf($x)", "includes($x)", "slice(0)", "map(fn($v) => $v + 1)", "reduce(fn($s, $v) => $s + $v, 0)", "concat([5])"}
	muts := []string{"$arr->push($x);", "$arr->pop();", "$arr->shift();", "$arr->unshift($x);", "$arr[] = $x;", "$arr->splice(1, 1);"}
	src := "$x = $px;\n$arr = [$e0, $e1, $e2];\n$r = $arr->" + calls[m] + ";\ndump($r); mark(5);\n" + muts[mut] + "\n$r = $arr->" + calls[m] + ";\ndump($r); mark(6);\n$q = $arr->slice(0);\ndump($q);"
	s := sx.Compile(src)
	symx.Assert(s.Err == nil, "history parses")
	if s.Err != nil {
		return
	}
	_, ctl := s.Run(sx.Bind{Name: "e0", V: sx.Int(e0)}, sx.Bind{Name: "e1", V: sx.Int(e1)}, sx.Bind{Name: "e2", V: sx.Int(e2)}, sx.Bind{Name: "px", V: sx.Int(x)})
	symx.Assert(ctl == nil, "history runs")
	if ctl != nil {
		return
	}
	var parts [3][]sx.Obs
	k := 0
	for _, o := range sx.Log {
		if o.Kind == 'M' && (o.I == 5 || o.I == 6) {
			k++
			continue
		}
		if k < 3 {
			parts[k] = append(parts[k], o)
		}
	}
	ref := func(r []int) V {
		switch m {
		case 0:
			return iv(indexOf(r, x, 0))
		case 1:
			return V{K: 'b', B: indexOf(r, x, 0) >= 0}
		case 2:
			return lv(ints(r))
		case 3:
			out := make([]int, len(r))
			for i, v := range r {
				out[i] = v + 1
			}
			return lv(ints(out))
		case 4:
			sum := 0
			for _, v := range r {
				sum += v
			}
			return iv(sum)
		}
		return lv(ints(append(append([]int{}, r...), 5)))
	}
	before := []int{e0, e1, e2}
	var after []int
	switch mut {
	case 0, 4:
		after = []int{e0, e1, e2, x}
	case 1:
		after = []int{e0, e1}
	case 2:
		after = []int{e1, e2}
	case 3:
		after = []int{x, e0, e1, e2}
	case 5:
		after = []int{e0, e2}
	}
	sameObs(parts[0], ref(before), calls[m]+": first call as documented", false, "")
	sameObs(parts[1], ref(after), calls[m]+" after `"+muts[mut]+"`: the call sees the array as it is now", false, "")
	sameObs(parts[2], lv(ints(after)), "a different method after `"+muts[mut]+"` sees the array as it is now", false, "")
	symx.Reach("end")
}

// H_join_strings: join over lists of strings / nulls incl. EMPTY elements in every position (a
// separator belongs between every two elements, whatever their text).
func H_join_strings() {
	pool := []struct{ lit, text string }{{"\"\"", ""}, {"\"a\"", "a"}, {"null", ""}, {"\"bc\"", "bc"}}
	L := 1 + symx.Choose("L", 3)
	sepK := symx.Choose("sep", 4)
	lit, want := "[", ""
	sep := []string{",", "-", "", ","}[sepK]
	for i := 0; i < L; i++ {
		e := pool[symx.Choose("e"+string(rune('0'+i)), len(pool))]
		if i > 0 {
			lit += ", "
			want += sep
		}
		lit += e.lit
		want += e.text
	}
	lit += "]"
	call := []string{"join(\",\")", "join(\"-\")", "join(\"\")", "join()"}[sepK]
	res, _, threw, ok := runMethod(lit, call, []sx.Bind{{Name: "pa", V: sx.Int(0)}, {Name: "pb", V: sx.Int(0)}, {Name: "pc", V: sx.Int(0)}})
	symx.Assert(ok && !threw, call+": call completes")
	if !ok || threw {
		return
	}
	symx.Assert(len(res) == 1 && res[0].Kind == 's' && res[0].S == want, call+" on "+lit+": every element, empty ones included, is separated from its neighbours")
	symx.Reach("end")
}
