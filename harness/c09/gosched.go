package c09

import (
	"runtime"
	"time"
)

func runtimeGosched() { runtime.Gosched(); time.Sleep(200 * time.Microsecond) }
