// Package c09: the channel delivers each value exactly once, in sender order,
// under any schedule (DESIGN.md §4 C09, §2.8). The goroutines below are
// interpreted by the engine's scheduler: every interleaving of their visible
// operations (channel ops, the shared `closed` flag) within the preemption
// bound is explored; payloads and the capacity are symbolic/enumerated.
package c09

import (
	"sync"

	"github.com/php-any/origami/data"
	"github.com/php-any/origami/std/channel"
	"verif/symx"
)

func newChan(capacity int) *channel.Channel {
	c := channel.NewChannel()
	c.Construct(nil, data.NewIntValue(capacity))
	symx.Shared(c.VerifClosedPtr(), "Channel.closed")
	return c
}

func intOf(v data.Value) int {
	if iv, ok := v.(*data.IntValue); ok {
		return iv.Value
	}
	return -999
}

// H_pc: P producers x 2 sends, one consumer receiving everything; nobody closes.
func H_pc() {
	P := symx.Param("producers", 1)
	capacity := symx.Choose("cap", 3)
	c := newChan(capacity)
	vals := [2][2]int{{symx.Int("v00"), symx.Int("v01")}, {symx.Int("v10"), symx.Int("v11")}}
	// distinct payloads (the exactly-once bookkeeping below identifies a value by its content)
	symx.Assume(vals[0][0] != vals[0][1] && vals[0][0] != vals[1][0] && vals[0][0] != vals[1][1] &&
		vals[0][1] != vals[1][0] && vals[0][1] != vals[1][1] && vals[1][0] != vals[1][1])
	var wg sync.WaitGroup
	okSend := [2][2]bool{}
	for p := 0; p < P; p++ {
		wg.Add(1)
		p := p
		go func() {
			for j := 0; j < 2; j++ {
				okSend[p][j] = c.Send(data.NewIntValue(vals[p][j]))
			}
			wg.Done()
		}()
	}
	var got []int
	for k := 0; k < 2*P; k++ {
		v, ok := c.Receive()
		symx.Assert(ok, "receive on an open channel with pending senders yields a value")
		got = append(got, intOf(v))
	}
	wg.Wait()
	for p := 0; p < P; p++ {
		symx.Assert(okSend[p][0] && okSend[p][1], "send on an open channel reports success")
	}
	// exactly once, nothing invented, per-sender order: got is an interleaving of the senders' sequences
	idx := [2]int{}
	for _, g := range got {
		matched := false
		for p := 0; p < P && !matched; p++ {
			if idx[p] < 2 && g == vals[p][idx[p]] {
				idx[p]++
				matched = true
			}
		}
		symx.Assert(matched, "received value is the next unsent value of some sender (exactly once, sender order)")
	}
	symx.Assert(c.Len() == 0, "nothing left behind")
	symx.Reach("end")
}

// H_close_drain: the producer sends n values and then closes (same goroutine, the documented
// usage); the consumer receives until it is told the channel is closed.
func H_close_drain() {
	capacity := symx.Choose("cap", 3)
	n := symx.Choose("n", 3)
	c := newChan(capacity)
	v := [2]int{symx.Int("v0"), symx.Int("v1")}
	var wg sync.WaitGroup
	wg.Add(1)
	go func() {
		for j := 0; j < n; j++ {
			c.Send(data.NewIntValue(v[j]))
		}
		c.Close()
		wg.Done()
	}()
	var got []int
	for k := 0; k < 4; k++ {
		x, ok := c.Receive()
		if !ok {
			symx.Assert(x == nil, "after close and drain receive yields null")
			break
		}
		got = append(got, intOf(x))
	}
	wg.Wait()
	symx.Assert(len(got) == n, "receiver drains exactly what was sent before close")
	for j := 0; j < len(got) && j < n; j++ {
		symx.Assert(got[j] == v[j], "drained in sending order")
	}
	symx.Assert(c.IsClosed(), "closed flag set")
	symx.Assert(!c.Send(data.NewIntValue(1)), "send after close reports failure")
	x, ok := c.Receive()
	symx.Assert(!ok && x == nil, "receive after close and drain yields null/false")
	symx.Reach("end")
}

// H_close_race: a closer runs concurrently with a sender and a receiver. The property: no
// combination crashes or corrupts; a send either reports success (and is then received exactly
// once) or reports failure.
func H_close_race() {
	capacity := symx.Choose("cap", 2)
	c := newChan(capacity)
	v := symx.Int("v")
	var wg sync.WaitGroup
	sent := false
	wg.Add(2)
	go func() {
		sent = c.Send(data.NewIntValue(v))
		wg.Done()
	}()
	go func() {
		c.Close()
		wg.Done()
	}()
	x, ok := c.Receive()
	wg.Wait()
	if ok {
		symx.Assert(sent && intOf(x) == v, "a received value was sent, and its send reported success")
	} else {
		// this receive found the channel closed and drained: in every sequential order of the three
		// calls that explains it, the close precedes the send, so the send must report failure
		// (a send that "succeeds" now leaves its value behind a consumer that has already been told
		// the channel is finished)
		symx.Assert(!sent, "after a receiver has seen the channel closed and drained, send reports failure")
	}
	symx.Reach("end")
}

// H_two_consumers: one producer (2 sends), two consumers (1 receive each): each value is
// received exactly once by exactly one consumer.
func H_two_consumers() {
	capacity := symx.Choose("cap", 3)
	c := newChan(capacity)
	v := [2]int{symx.Int("v0"), symx.Int("v1")}
	symx.Assume(v[0] != v[1])
	var wg sync.WaitGroup
	got := [2]int{}
	okr := [2]bool{}
	wg.Add(3)
	go func() {
		c.Send(data.NewIntValue(v[0]))
		c.Send(data.NewIntValue(v[1]))
		wg.Done()
	}()
	for k := 0; k < 2; k++ {
		k := k
		go func() {
			x, ok := c.Receive()
			okr[k] = ok
			got[k] = intOf(x)
			wg.Done()
		}()
	}
	wg.Wait()
	symx.Assert(okr[0] && okr[1], "both receives yield a value")
	symx.Assert((got[0] == v[0] && got[1] == v[1]) || (got[0] == v[1] && got[1] == v[0]), "each value received exactly once, nothing invented")
	symx.Reach("end")
}

// N_close_parked is the native confirmation twin of the close/send findings (run natively only):
// a sender parked on an unbuffered channel, then Close. The real runtime panics in the sender.
func N_close_parked() {
	c := channel.NewChannel()
	c.Construct(nil, data.NewIntValue(0))
	started := make(chan struct{})
	go func() {
		close(started)
		c.Send(data.NewIntValue(1)) // parks: nobody receives
	}()
	<-started
	for i := 0; i < 200; i++ {
		runtimeGosched()
	}
	c.Close()
	for i := 0; i < 2000; i++ {
		runtimeGosched()
	}
}

// H_close_accounting: two senders, one receive, then close, then drain: every send that reported
// success is received exactly once and every send that reported failure is never received,
// whichever sender the receive served and wherever the close lands.
func H_close_accounting() {
	capacity := symx.Choose("cap", 2)
	c := newChan(capacity)
	v0, v1 := symx.Int("v0"), symx.Int("v1")
	symx.Assume(v0 != v1)
	var wg sync.WaitGroup
	var sent [2]bool
	vals := [2]int{v0, v1}
	wg.Add(2)
	for t := 0; t < 2; t++ {
		t := t
		go func() {
			sent[t] = c.Send(data.NewIntValue(vals[t]))
			wg.Done()
		}()
	}
	var got []int
	// the consumer takes one value before closing, or closes at once (a sender can then be blocked on
	// a full buffer at the moment of the close)
	if symx.Choose("receive_first", 2) == 1 {
		if x, ok := c.Receive(); ok {
			got = append(got, intOf(x))
		}
	}
	c.Close()
	// the consumer drains WHILE the senders may still be returning from their calls
	drained := false
	for k := 0; k < 3; k++ {
		x, ok := c.Receive()
		if !ok {
			drained = true
			continue
		}
		symx.Assert(!drained, "once a receive has reported the channel closed and drained, no later receive yields a value")
		got = append(got, intOf(x))
	}
	wg.Wait()
	if x, ok := c.Receive(); ok {
		symx.Assert(false, "a value appears in the channel after it was closed and drained")
		got = append(got, intOf(x))
	}
	for t := 0; t < 2; t++ {
		n := 0
		for _, g := range got {
			if g == vals[t] {
				n++
			}
		}
		if sent[t] {
			symx.Assert(n == 1, "a send that reported success is received exactly once")
		} else {
			symx.Assert(n == 0, "a send that reported failure is never received")
		}
	}
	symx.Assert(len(got) <= 2, "nothing is received that was not sent")
	symx.Reach("end")
}

// H_two_senders_late_receiver (seed C09h): two producers, ONE send each, a single consumer
// that may arrive after both sends were issued. On an unbuffered channel three kinds of
// waiter share the condition variable (a sender waiting for the slot, a sender waiting for
// its value to be taken, the receiver): every wake-up that frees the slot has to reach the
// sender waiting for it. Fewer operations than H_pc, so a higher preemption bound is affordable.
func H_two_senders_late_receiver() {
	capacity := symx.Choose("cap", 2)
	c := newChan(capacity)
	v := [2]int{symx.Int("v0"), symx.Int("v1")}
	symx.Assume(v[0] != v[1])
	var wg sync.WaitGroup
	okSend := [2]bool{}
	for p := 0; p < 2; p++ {
		wg.Add(1)
		p := p
		go func() {
			okSend[p] = c.Send(data.NewIntValue(v[p]))
			wg.Done()
		}()
	}
	a, ok1 := c.Receive()
	b, ok2 := c.Receive()
	wg.Wait()
	symx.Assert(ok1 && ok2, "receive on an open channel with pending senders yields a value")
	symx.Assert(okSend[0] && okSend[1], "send on an open channel reports success")
	ga, gb := intOf(a), intOf(b)
	symx.Assert((ga == v[0] && gb == v[1]) || (ga == v[1] && gb == v[0]), "each value delivered exactly once")
	symx.Assert(c.Len() == 0, "nothing left behind")
	symx.Reach("end")
}
