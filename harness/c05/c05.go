// Package c05: first matching catch, finally exactly once (DESIGN.md §4 C05, model B.3).
package c05

import (
	"verif/harness/sx"
	"verif/symx"
)

const classes = `class E1 extends Exception {} class E2 extends E1 {} class E3 extends Exception {}
`

// One try inside a loop inside a function. Selectors (symbolic ints):
//
//	$t: how the try body exits   0 fall through, 1 return 10, 2 break, 3 continue, 4 throw (class by $x)
//	$c: how the E1 handler exits 0 fall through, 1 return 20, 2 break, 3 continue, 4 throw new E3
//	$f: finally                  0 fall through, 1 return 30
//	$x: thrown class             0 E1, 1 E2, 2 E3, 3 Exception, 4 Go-level error (1 % 0)
const tmpl1 = classes + `
function f($t, $c, $f, $x) {
  for ($i = 0; $i < 2; $i++) {
    try {
      mark(1);
      if ($t == 1) { return 10; }
      if ($t == 2) { break; }
      if ($t == 3) { continue; }
      if ($t == 4) {
        if ($x == 0) { throw new E1("a"); }
        if ($x == 1) { throw new E2("b"); }
        if ($x == 2) { throw new E3("c"); }
        if ($x == 3) { throw new Exception("d"); }
        $z = 1 % ($x - 4);
      }
      mark(2);
    } catch (E1 $e) {
      mark(3);
      if ($c == 1) { return 20; }
      if ($c == 2) { break; }
      if ($c == 3) { continue; }
      if ($c == 4) { throw new E3("from-catch"); }
      mark(4);
    } catch (E3 $e) {
      mark(5);
    } finally {
      mark(6);
      if ($f == 1) { return 30; }
    }
    mark(7);
  }
  mark(8);
  return 0;
}
try { emit(f($t, $c, $f, $x)); } catch (Exception $e) { mark(90); } catch (Throwable $e) { mark(91); }
mark(9);`

type outcome int

const (
	oNormal outcome = iota
	oReturn
	oBreak
	oContinue
	oThrow
)

// model of tmpl1: returns the marker trace and emitted values
func model1(t, c, f, x int) (trace []int) {
	mark := func(m int) { trace = append(trace, m) }
	emitted := -1
	thrownOut := 0 // 0 none, 1 Exception-family, 2 other Throwable
	func() {
		for i := 0; i < 2; i++ {
			o := oNormal
			ret := 0
			cls := -1 // thrown class: 0 E1, 1 E2, 2 E3, 3 Exception, 4 error
			// try body
			mark(1)
			switch t {
			case 1:
				o, ret = oReturn, 10
			case 2:
				o = oBreak
			case 3:
				o = oContinue
			case 4:
				o, cls = oThrow, x
			default:
				mark(2)
			}
			// catch: first matching clause
			if o == oThrow {
				switch {
				case cls == 0 || cls == 1: // E1 or its subclass E2 -> catch (E1)
					o = oNormal
					mark(3)
					switch c {
					case 1:
						o, ret = oReturn, 20
					case 2:
						o = oBreak
					case 3:
						o = oContinue
					case 4:
						o, cls = oThrow, 2
					default:
						mark(4)
					}
				case cls == 2: // E3 -> second clause
					o = oNormal
					mark(5)
				}
			}
			// finally: exactly once, return overrides
			mark(6)
			if f == 1 {
				o, ret = oReturn, 30
			}
			switch o {
			case oReturn:
				emitted = ret
				return
			case oBreak:
				goto done
			case oContinue:
				continue
			case oThrow:
				// a Go-level error (1 % 0) is a Throwable that also matches Exception (B.3):
				// the caller's first clause, catch (Exception), takes every class here
				thrownOut = 1
				return
			}
			mark(7)
		}
	done:
		mark(8)
		emitted = 0
	}()
	switch thrownOut {
	case 0:
		trace = append(trace, 1000+emitted)
	case 1:
		mark(90)
	case 2:
		mark(91)
	}
	mark(9)
	return
}

func runTrace(src string, binds ...sx.Bind) ([]int, bool) {
	s := sx.Compile(src)
	if s.Err != nil {
		return nil, false
	}
	_, ctl := s.Run(binds...)
	if ctl != nil {
		return nil, false
	}
	var out []int
	for _, o := range sx.Log {
		switch o.Kind {
		case 'M':
			out = append(out, o.I)
		case 'i':
			out = append(out, 1000+o.I)
		default:
			return nil, false
		}
	}
	return out, true
}

func H_try1() {
	t, c, f, x := symx.IntRange("t", 0, 4), symx.IntRange("c", 0, 4), symx.IntRange("f", 0, 1), symx.IntRange("x", 0, 4)
	// pin the selectors (they steer control flow only): one path per combination
	t, c, f, x = symx.Concrete(t), symx.Concrete(c), symx.Concrete(f), symx.Concrete(x)
	got, ok := runTrace(tmpl1, sx.Bind{Name: "t", V: sx.Int(t)}, sx.Bind{Name: "c", V: sx.Int(c)}, sx.Bind{Name: "f", V: sx.Int(f)}, sx.Bind{Name: "x", V: sx.Int(x)})
	want := model1(t, c, f, x)
	symx.Assert(ok, "try1: runs to completion")
	if !ok {
		return
	}
	symx.Observe("got", got, "want", want)
	symx.Assert(len(got) == len(want), "try1: marker trace length")
	if len(got) != len(want) {
		return
	}
	for i := range got {
		symx.Assert(got[i] == want[i], "try1: marker trace element")
	}
	symx.Reach("end")
}

// the catch variable is that same object; catch order matters (first match wins)
const tmpl2 = classes + `
$o = new E2("x");
try { throw $o; } catch (E3 $e) { mark(1); } catch (Exception $e) { mark(2); } catch (E1 $e) { mark(3); }
try { throw $o; } catch (E2 | E3 $e) { mark(4); }
try { try { throw new E3("in"); } catch (E1 $e) { mark(5); } finally { mark(6); } } catch (E3 $e) { mark(7); }
mark(9);`

func H_try2() {
	got, ok := runTrace(tmpl2)
	symx.Assert(ok, "try2: runs to completion")
	if !ok {
		return
	}
	want := []int{2, 4, 6, 7, 9}
	symx.Observe("got", got)
	symx.Assert(len(got) == len(want), "try2: marker trace length")
	if len(got) != len(want) {
		return
	}
	for i := range got {
		symx.Assert(got[i] == want[i], "try2: marker trace element")
	}
	symx.Reach("end")
}

// the catch variable is that same object
const tmpl3 = classes + `
$o = new E2("x");
try { throw $o; } catch (Exception $e) { if ($e === $o) { mark(1); } else { mark(0); } }
mark(9);`

func H_same_object() {
	got, ok := runTrace(tmpl3)
	symx.Assert(ok, "try3: runs to completion")
	if !ok {
		return
	}
	symx.AssertKnown(len(got) == 2 && got[0] == 1, "catch variable is the thrown object", true, "C05-catch-var-wrapper")
	symx.Reach("end")
}

// H_catch_order: every thrown class x every ordered pair of catch clause types: the FIRST clause
// (in source order) whose type is the object's class, an ancestor or an implemented interface wins.
func H_catch_order() {
	thrown := symx.Choose("thrown", 5)
	c1, c2 := symx.Choose("clause1", 8), symx.Choose("clause2", 8)
	names := []string{"E1", "E2", "E3", "Exception", "Throwable", "Tag", "Sub", "E4"}
	// interfaces: Sub extends Tag; E1 implements Sub (so E2 has both through its ancestor),
	// E3 implements Tag itself, E4 extends E2 (interfaces two levels up)
	// isA[thrown][type]
	isA := [][]bool{
		{true, false, false, true, true, true, true, false},    // E1
		{true, true, false, true, true, true, true, false},     // E2 extends E1
		{false, false, true, true, true, true, false, false},   // E3
		{false, false, false, true, true, false, false, false}, // Exception
		{true, true, false, true, true, true, true, true},      // E4 extends E2
	}
	thrownNames := []string{"E1", "E2", "E3", "Exception", "E4"}
	decl := "interface Tag {} interface Sub extends Tag {}\nclass E1 extends Exception implements Sub {} class E2 extends E1 {} class E3 extends Exception implements Tag {} class E4 extends E2 {}\n"
	// the handlers either leave a marker or are EMPTY (an empty handler still consumes the throwable)
	empty := symx.Choose("empty_handlers", 2) == 1
	b1, b2 := "mark(1);", "mark(2);"
	if empty {
		b1, b2 = "", "/* nothing to do */"
	}
	src := decl + "try { try { throw new " + thrownNames[thrown] + "(\"x\"); } catch (" + names[c1] + " $e) { " + b1 + " } catch (" + names[c2] + " $e) { " + b2 + " } finally { mark(7); } } catch (Throwable $e) { mark(3); }\nmark(9);"
	got, ok := runTrace(src)
	symx.Assert(ok, "catch-order: runs to completion")
	if !ok {
		return
	}
	want := 3
	if isA[thrown][c1] {
		want = 1
	} else if isA[thrown][c2] {
		want = 2
	}
	if empty {
		if want == 3 {
			symx.Assert(len(got) == 3 && got[0] == 7 && got[1] == 3 && got[2] == 9, "no clause matches: finally, then the enclosing handler")
		} else {
			symx.Assert(len(got) == 2 && got[0] == 7 && got[1] == 9, "an empty matching handler consumes the throwable (finally once, nothing reaches the enclosing try)")
		}
		symx.Reach("end")
		return
	}
	if want == 3 {
		symx.Assert(len(got) == 3 && got[0] == 7 && got[1] == 3 && got[2] == 9, "no clause matches: finally, then the enclosing handler")
	} else {
		symx.Assert(len(got) == 3 && got[0] == want && got[1] == 7 && got[2] == 9, "first matching catch clause in source order handles the throwable, then finally")
	}
	symx.Reach("end")
}

// H_rethrow: a caught throwable that is thrown again (`throw $e;`) is still the same object: the
// enclosing try matches it by its original class and sees its original message.
func H_rethrow() {
	names := []string{"E1", "E2", "E3", "Exception"}
	msgs := []string{"a", "b", "c", "d"}
	x := symx.Choose("thrown", 4)
	inner := symx.Choose("inner", 5) // inner clause type: 0..3 as names, 4 Throwable
	innerT := append(append([]string{}, names...), "Throwable")[inner]
	src := classes + `
try {
  try { throw new ` + names[x] + `("` + msgs[x] + `"); }
  catch (` + innerT + ` $e) { mark(1); throw $e; }
  finally { mark(2); }
}
catch (E2 $o) { mark(12); emit($o->getMessage()); }
catch (E1 $o) { mark(11); emit($o->getMessage()); }
catch (E3 $o) { mark(13); emit($o->getMessage()); }
catch (Exception $o) { mark(14); emit($o->getMessage()); }
mark(9);`
	s := sx.Compile(src)
	symx.Assert(s.Err == nil, "rethrow template parses")
	if s.Err != nil {
		return
	}
	_, ctl := s.Run()
	symx.Assert(ctl == nil, "rethrow template runs")
	if ctl != nil {
		return
	}
	// does the inner clause match?  E2 is an E1; everything is an Exception / Throwable
	isA := func(cls int, t string) bool {
		switch t {
		case "Throwable", "Exception":
			return true
		case "E1":
			return cls == 0 || cls == 1
		case "E2":
			return cls == 1
		case "E3":
			return cls == 2
		}
		return false
	}
	var want []sx.Obs
	if isA(x, innerT) {
		want = append(want, sx.Obs{Kind: 'M', I: 1})
	}
	want = append(want, sx.Obs{Kind: 'M', I: 2})
	outer := []struct {
		t string
		m int
	}{{"E2", 12}, {"E1", 11}, {"E3", 13}, {"Exception", 14}}
	for _, oc := range outer {
		if isA(x, oc.t) {
			want = append(want, sx.Obs{Kind: 'M', I: oc.m}, sx.Obs{Kind: 's', S: msgs[x]})
			break
		}
	}
	want = append(want, sx.Obs{Kind: 'M', I: 9})
	symx.Assert(len(sx.Log) == len(want), "rethrow: trace length")
	if len(sx.Log) != len(want) {
		return
	}
	for i := range want {
		symx.Assert(sx.Log[i].Kind == want[i].Kind && sx.Log[i].I == want[i].I && sx.Log[i].S == want[i].S, "rethrow: the rethrown object keeps its class and message")
	}
	symx.Reach("end")
}

// H_messages: every throwable keeps its own message: constructing a second exception (of any
// class) before the first one is thrown changes neither what the handler sees nor what the
// objects report afterwards; a non-string message is a value, not a crash.
func H_messages() {
	// E5 has a constructor of its own that never calls the parent's: its objects carry no message
	names := []string{"E1", "E2", "E3", "Exception", "E5"}
	x, y := symx.Choose("first", 5), symx.Choose("second", 5)
	third := symx.Choose("third", 3) // 0 none, 1 a third object built inside the handler, 2 an int message
	msgOf := func(k int, m string) string {
		if k == 4 {
			return ""
		}
		return m
	}
	src := classes + `class E5 extends Exception { public $id = 0; function __construct($id) { $this->id = $id; } }
$x = new ` + names[x] + `("a");
$y = new ` + names[y] + `("b");
try { throw $x; }
catch (Exception $o) {
  ` + []string{"", "$z = new E3(\"c\");", "$z = new Exception(5);"}[third] + `
  emit($o->getMessage());
}
finally { mark(2); }
emit($x->getMessage());
emit($y->getMessage());
mark(9);`
	s := sx.Compile(src)
	symx.Assert(s.Err == nil, "messages template parses")
	if s.Err != nil {
		return
	}
	_, ctl := s.Run()
	symx.Assert(ctl == nil, "messages template runs")
	if ctl != nil {
		return
	}
	want := []sx.Obs{{Kind: 's', S: msgOf(x, "a")}, {Kind: 'M', I: 2}, {Kind: 's', S: msgOf(x, "a")}, {Kind: 's', S: msgOf(y, "b")}, {Kind: 'M', I: 9}}
	symx.Assert(len(sx.Log) == len(want), "messages: trace length")
	if len(sx.Log) != len(want) {
		return
	}
	for i := range want {
		symx.Assert(sx.Log[i].Kind == want[i].Kind && sx.Log[i].I == want[i].I && sx.Log[i].S == want[i].S, "messages: each throwable reports the message it was constructed with")
	}
	symx.Reach("end")
}

// H_abnormal: ways of leaving a try body that are not an ordinary script-level throw: an
// interpreter-level failure inside the body (`throw` of a call that returns nothing: a Go panic
// recovered by the try statement) and a throw coming out of an INCLUDED file (virtual file
// system). finally runs exactly once, the matching catch handles the throwable.
func H_abnormal() {
	k := symx.Choose("case", 4)
	defer symx.VCleanup()
	symx.VReset()
	root := symx.VRoot()
	symx.VFile(root+"/inc.php", "<?php\nmark(5);\nthrow new Exception(\"from the included file\");\n")
	symx.VFile(root+"/ok.php", "<?php\nmark(6);\nreturn 1;\n")
	srcs := []string{
		"function nothing() { }\ntry { try { mark(1); throw nothing(); } finally { mark(2); } } catch (Throwable $e) { mark(3); }\nmark(9);",
		"function nothing() { }\ntry { mark(1); throw nothing(); } catch (Throwable $e) { mark(3); } finally { mark(2); }\nmark(9);",
		"try { mark(1); include \"" + root + "/inc.php\"; mark(7); } catch (Exception $e) { mark(3); } finally { mark(2); }\nmark(9);",
		"try { mark(1); include \"" + root + "/ok.php\"; mark(7); } catch (Exception $e) { mark(3); } finally { mark(2); }\nmark(9);",
	}
	want := [][]int{{1, 2, 3, 9}, {1, 3, 2, 9}, {1, 5, 3, 2, 9}, {1, 6, 7, 2, 9}}[k]
	s := sx.Compile(srcs[k])
	symx.Assert(s.Err == nil, "abnormal: parses")
	if s.Err != nil {
		return
	}
	_, ctl := s.Run()
	var got []int
	for _, o := range sx.Log {
		if o.Kind == 'M' {
			got = append(got, o.I)
		}
	}
	// recorded finding: the program node of an included file hands an uncaught throwable straight to
	// the VM's fatal-error handler instead of returning it to the include statement, so an enclosing
	// try never sees it (the repository's own test runner relies on execution continuing after it)
	known := k == 2
	ok := ctl == nil && len(got) == len(want)
	for i := 0; ok && i < len(want); i++ {
		ok = got[i] == want[i]
	}
	symx.AssertKnown(ok, "abnormal exit "+string(rune('0'+k))+": the matching catch handles the throwable and finally runs exactly once", known, "C05-include-throw-bypasses-try")
	symx.Reach("end")
}

// H_try_repeated: ONE try statement executed twice (a function called twice / a loop body) with
// two throwables: which clause handles the second throwable depends on that throwable only, not
// on what the statement handled before. Oracle: the trace of the sequence is the concatenation of
// the traces of each execution alone (three runs of the real evaluator in the same path).
func H_try_repeated() {
	k0, k1 := symx.Choose("k0", 6), symx.Choose("k1", 6)
	c1, c2 := symx.Choose("clause1", 5), symx.Choose("clause2", 5)
	shape := symx.Choose("shape", 2)
	names := []string{"E1", "E2", "Exception", "Error", "Throwable"}
	decl := classes + `function thrower($k) {
  if ($k == 1) { throw new Exception("x"); }
  if ($k == 2) { throw new E1("x"); }
  if ($k == 3) { throw new E2("x"); }
  if ($k == 4) { $z = 1 % 0; }
  if ($k == 5) { nofn(); }
  if ($k == 6) { $q = null; $q->m(); }
  return 0;
}
`
	stmt := "try { try { thrower($k); mark(10); } catch (" + names[c1] + " $e) { mark(1); } catch (" + names[c2] + " $e) { mark(2); } finally { mark(7); } } catch (Throwable $e) { mark(3); }"
	digit := func(k int) string { return string(rune('0' + k)) }
	prog := func(ks ...int) string {
		if shape == 0 {
			s := decl + "function attempt($k) { " + stmt + " return 0; }\n"
			for _, k := range ks {
				s += "attempt(" + digit(k) + "); mark(50);\n"
			}
			return s
		}
		list := ""
		for i, k := range ks {
			if i > 0 {
				list += ", "
			}
			list += digit(k)
		}
		return decl + "foreach ([" + list + "] as $k) { " + stmt + " mark(50); }\n"
	}
	t0, ok0 := runTrace(prog(k0))
	t1, ok1 := runTrace(prog(k1))
	both, ok := runTrace(prog(k0, k1))
	symx.Assert(ok0 && ok1 && ok, "try-repeated: runs to completion")
	if !(ok0 && ok1 && ok) {
		return
	}
	want := append(append([]int{}, t0...), t1...)
	symx.Assert(len(both) == len(want), "try-repeated: the second execution of the statement behaves as it does alone (trace length)")
	if len(both) != len(want) {
		return
	}
	for i := range want {
		symx.Assert(both[i] == want[i], "try-repeated: the second execution of the statement behaves as it does alone")
	}
	symx.Reach("end")
}
