// Package c02: control flow and function calls follow the reference semantics
// (DESIGN.md §4 C02). Each template is parsed by the real parser and run by the
// real evaluators with symbolic ints; the oracle is the same algorithm in Go.
package c02

import (
	"verif/harness/sx"
	"verif/symx"
)

// run executes src with int bindings and returns the emitted ints; ok=false on
// parse error / uncaught error / non-int emission.
func run(src string, binds map[string]int) (out []int, ok bool) {
	s := sx.Compile(src)
	if s.Err != nil {
		return nil, false
	}
	var bs []sx.Bind
	for _, k := range []string{"n", "m", "k", "a", "b", "d"} {
		if v, has := binds[k]; has {
			bs = append(bs, sx.Bind{Name: k, V: sx.Int(v)})
		}
	}
	_, ctl := s.Run(bs...)
	if ctl != nil {
		return nil, false
	}
	for _, o := range sx.Log {
		if o.Kind != 'i' {
			return nil, false
		}
		out = append(out, o.I)
	}
	return out, true
}

// same asserts got == want element-wise (lengths are concrete per path).
func same(got []int, ok bool, want []int, tag string) { sameKnown(got, ok, want, tag, false, "") }

// sameKnown: inputs satisfying known may deviate (recorded finding id).
func sameKnown(got []int, ok bool, want []int, tag string, known bool, id string) {
	symx.AssertKnown(ok, tag+": program runs to completion", known, id)
	if !ok {
		return
	}
	symx.AssertKnown(len(got) == len(want), tag+": trace length", known, id)
	if len(got) != len(want) {
		return
	}
	for i := range got {
		symx.AssertKnown(got[i] == want[i], tag+": trace element", known, id)
	}
	symx.Reach("end")
}

const levelFinding = "C02-break-continue-level"

var exits = []string{"", "break;", "continue;", "break 2;", "continue 2;", "break 1;", "continue 1;"}

// H_for_nested: nested for loops with an exit statement of every kind/level.
func H_for_nested() {
	n, m, k := symx.IntRange("n", 0, 3), symx.IntRange("m", 0, 3), symx.IntRange("k", -1, 3)
	e := symx.Choose("exit", len(exits))
	src := `for ($i = 0; $i < $n; $i++) {
  for ($j = 0; $j < $m; $j++) {
    if ($j == $k) { ` + exits[e] + ` }
    emit($i * 10 + $j);
  }
  emit(100 + $i);
}
emit(999);`
	got, ok := run(src, map[string]int{"n": n, "m": m, "k": k})
	var want []int
outer:
	for i := 0; i < n; i++ {
		for j := 0; j < m; j++ {
			if j == k {
				switch e {
				case 1, 5:
					goto afterInner
				case 2, 6:
					continue
				case 3:
					break outer
				case 4:
					continue outer
				}
			}
			want = append(want, i*10+j)
		}
	afterInner:
		want = append(want, 100+i)
	}
	want = append(want, 999)
	sameKnown(got, ok, want, "for-nested", e == 3 || e == 4, levelFinding)
}

// H_while_nested: while outer, do-while inner.
func H_while_nested() {
	n, m, k := symx.IntRange("n", 0, 3), symx.IntRange("m", 1, 3), symx.IntRange("k", -1, 3)
	e := symx.Choose("exit", 5)
	src := `$i = 0;
while ($i < $n) {
  $j = 0;
  do {
    $j++;
    if ($j == $k) { ` + exits[e] + ` }
    emit($i * 10 + $j);
  } while ($j < $m);
  emit(100 + $i);
  $i++;
}
emit(999);`
	got, ok := run(src, map[string]int{"n": n, "m": m, "k": k})
	var want []int
	i := 0
outer:
	for i < n {
		j := 0
		for {
			j++
			if j == k {
				switch e {
				case 1:
					goto afterInner
				case 2:
					goto cond
				case 3:
					break outer
				case 4:
					// continue 2 of a while: re-test the outer condition without the increment:
					// with $i unchanged and $j restarting this would loop forever when it triggers;
					// the template keeps it finite by triggering at most while k is reachable
					i++
					continue outer
				}
			}
			want = append(want, i*10+j)
		cond:
			if !(j < m) {
				break
			}
		}
	afterInner:
		want = append(want, 100+i)
		i++
	}
	want = append(want, 999)
	if e == 4 {
		return // continue 2 skips the outer increment in the script: non-terminating by design, not explored
	}
	sameKnown(got, ok, want, "while-dowhile", e == 3, levelFinding)
}

// H_foreach: foreach with key/value and exits.
func H_foreach() {
	a, b, k := symx.IntRange("a", 0, 5), symx.IntRange("b", 0, 5), symx.IntRange("k", -1, 3)
	e := symx.Choose("exit", 3)
	src := `foreach ([$a, $b, 7] as $idx => $v) {
  if ($idx == $k) { ` + exits[e] + ` }
  emit($idx * 10 + $v);
}
emit(999);`
	got, ok := run(src, map[string]int{"a": a, "b": b, "k": k})
	var want []int
	for idx, v := range []int{a, b, 7} {
		if idx == k {
			if e == 1 {
				break
			}
			if e == 2 {
				continue
			}
		}
		want = append(want, idx*10+v)
	}
	want = append(want, 999)
	same(got, ok, want, "foreach")
}

// H_switch_in_for: switch inside for; break leaves the switch, continue continues the loop,
// break 2 / continue 2 address the loop.
func H_switch_in_for() {
	n := symx.IntRange("n", 0, 3)
	e := 1 + symx.Choose("exit", 4) // exit 0 (fall through into the next case) is not asserted: the docs do not define it
	src := `for ($i = 0; $i < $n; $i++) {
  switch ($i) {
    case 0: emit(1); break;
    case 1: emit(2); ` + exits[e] + `
    default: emit(3);
  }
  emit(50 + $i);
}
emit(999);`
	got, ok := run(src, map[string]int{"n": n})
	var want []int
loop:
	for i := 0; i < n; i++ {
		switch i {
		case 0:
			want = append(want, 1)
		case 1:
			want = append(want, 2)
			switch e {
			case 0: // fall through into default
				want = append(want, 3)
			case 1: // break: leaves the switch
			case 2: // continue: in PHP continue inside switch behaves like break (continue 1 targets the switch)
			case 3: // break 2: leaves the loop
				break loop
			case 4: // continue 2: next loop iteration
				continue loop
			}
		default:
			want = append(want, 3)
		}
		want = append(want, 50+i)
	}
	want = append(want, 999)
	if e == 2 {
		return // `continue` directly inside switch: PHP and origami docs differ (targets switch vs loop); not asserted
	}
	sameKnown(got, ok, want, "switch-in-for", e == 3 || e == 4, levelFinding)
}

// H_func_defaults: defaults, recursion, argument passing.
func H_func_defaults() {
	a, b := symx.IntRange("a", -1, 3), symx.Int("b")
	src := `function f($x, $y = 5) { if ($x <= 0) { return $y; } return f($x - 1, $y + $x); }
emit(f($a));
emit(f($a, $b));`
	got, ok := run(src, map[string]int{"a": a, "b": b})
	var f func(x, y int) int
	f = func(x, y int) int {
		if x <= 0 {
			return y
		}
		return f(x-1, y+x)
	}
	same(got, ok, []int{f(a, 5), f(a, b)}, "func-defaults-recursion")
}

// H_static_counter: static locals persist across calls, per function.
func H_static_counter() {
	n := symx.IntRange("n", 0, 3)
	src := `function c() { static $cnt = 0; $cnt++; return $cnt; }
function d() { static $cnt = 10; $cnt++; return $cnt; }
for ($i = 0; $i < $n; $i++) { c(); }
emit(c());
emit(d());`
	got, ok := run(src, map[string]int{"n": n})
	same(got, ok, []int{n + 1, 11}, "static-locals")
}

// H_locals_isolated: a call's locals are not visible to the caller and vice versa.
func H_locals_isolated() {
	a := symx.Int("a")
	src := `function g($i) { $i = $i + 1; $t = 7; return $i; }
$i = $a; $t = 1;
$r = g($i);
emit($i); emit($t); emit($r);`
	got, ok := run(src, map[string]int{"a": a})
	same(got, ok, []int{a, 1, a + 1}, "locals-isolated")
}

// H_if_chain: if / elseif / else.
func H_if_chain() {
	a := symx.Int("a")
	src := `if ($a < 0) { emit(1); } elseif ($a == 0) { emit(2); } elseif ($a < 10) { emit(3); } else { emit(4); }
emit(9);`
	got, ok := run(src, map[string]int{"a": a})
	w := 4
	if a < 0 {
		w = 1
	} else if a == 0 {
		w = 2
	} else if a < 10 {
		w = 3
	}
	same(got, ok, []int{w, 9}, "if-chain")
}

// H_match: match with multi-value arms and default.
func H_match() {
	a := symx.Int("a")
	src := `emit(match($a) { 1 => 10, 2, 3 => 20, default => 30 });`
	got, ok := run(src, map[string]int{"a": a})
	w := 30
	if a == 1 {
		w = 10
	} else if a == 2 || a == 3 {
		w = 20
	}
	same(got, ok, []int{w}, "match")
}

// H_counter_escapes: the loop counter stored into an array / returned / passed by value keeps
// the value it had at that moment.
func H_counter_escapes() {
	n := symx.IntRange("n", 0, 3)
	route := symx.Choose("route", 4)
	srcs := []string{
		`$arr = []; for ($i = 0; $i < $n; $i++) { $arr[] = $i; } foreach ($arr as $v) { emit($v); } emit(99);`,
		`$arr = [0, 0, 0]; for ($i = 0; $i < $n; $i++) { $arr[$i] = $i; } foreach ($arr as $v) { emit($v); } emit(99);`,
		`function keep($x) { static $s = []; $s[] = $x; return $s; } $r = []; for ($i = 0; $i < $n; $i++) { $r = keep($i); } foreach ($r as $v) { emit($v); } emit(99);`,
		`$i = 0; $arr = []; while ($i < $n) { $arr[] = $i; $i++; } foreach ($arr as $v) { emit($v); } emit(99);`,
	}
	got, ok := run(srcs[route], map[string]int{"n": n})
	var want []int
	switch route {
	case 1:
		want = []int{0, 0, 0}
		for i := 0; i < n; i++ {
			want[i] = i
		}
	default:
		for i := 0; i < n; i++ {
			want = append(want, i)
		}
	}
	want = append(want, 99)
	same(got, ok, want, "counter-escapes")
}

// H_return_from_loop: return inside foreach inside a function transfers to the caller.
func H_return_from_loop() {
	k := symx.IntRange("k", -1, 3)
	src := `function find($k) { foreach ([0, 1, 2] as $v) { if ($v == $k) { return $v + 100; } emit($v); } return -1; }
emit(find($k)); emit(999);`
	got, ok := run(src, map[string]int{"k": k})
	var want []int
	ret := -1
	for _, v := range []int{0, 1, 2} {
		if v == k {
			ret = v + 100
			break
		}
		want = append(want, v)
	}
	want = append(want, ret, 999)
	same(got, ok, want, "return-from-foreach")
}

// H_repeated_statements: the same loop statement is executed several times with different
// values (function called twice, recursion, loop nested in a loop): every execution uses the
// values of its own activation.
func H_repeated_statements() {
	a, b := symx.Int("a"), symx.Int("b")
	n := symx.IntRange("n", 0, 2)
	k := symx.Choose("variant", 4)
	srcs := []string{
		// foreach over a literal built from the parameter, function called twice
		`function f($p) { foreach ([$p, $p + 1] as $i => $v) { emit($v); } } f($a); f($b);`,
		// nested: inner foreach over a literal built from the outer counter
		`for ($i = 0; $i < $n; $i++) { foreach ([$i, $i * 10] as $v) { emit($v); } } emit(99);`,
		// recursion: each activation iterates its own literal
		`function r($d, $x) { foreach ([$x, $d] as $v) { emit($v); } if ($d > 0) { r($d - 1, $x + 1); } } r($n, $a);`,
		// while/for bounds and switch subjects taken from parameters, function called twice
		`function g($m, $s) { for ($i = 0; $i < $m; $i++) { emit($i + $s); } switch ($m) { case 0: emit(100); break; case 1: emit(101); break; default: emit(102); } } g($n, $a); g(1, $b);`,
	}
	got, ok := run(srcs[k], map[string]int{"a": a, "b": b, "n": n})
	var want []int
	switch k {
	case 0:
		want = []int{a, a + 1, b, b + 1}
	case 1:
		for i := 0; i < n; i++ {
			want = append(want, i, i*10)
		}
		want = append(want, 99)
	case 2:
		x := a
		for d := n; d >= 0; d-- {
			want = append(want, x, d)
			x++
		}
	case 3:
		g := func(m, s int) {
			for i := 0; i < m; i++ {
				want = append(want, i+s)
			}
			switch m {
			case 0:
				want = append(want, 100)
			case 1:
				want = append(want, 101)
			default:
				want = append(want, 102)
			}
		}
		g(n, a)
		g(1, b)
	}
	same(got, ok, want, "repeated-statements")
}
