package c02

import "verif/symx"

// H_loop_body_exits: an exit statement under an `if` in the MIDDLE of a loop body, for every loop
// kind as the loop that owns the exit (while / do-while / for / foreach). What follows the `if`
// in the same iteration must be skipped by continue and by break.
func H_loop_body_exits() {
	n, k := symx.IntRange("n", 0, 3), symx.IntRange("k", -1, 3)
	loop := symx.Choose("loop", 4)
	e := symx.Choose("exit", 3) // "", break, continue
	body := `  if ($i == $k) { ` + exits[e] + ` }
  emit(10 + $i);
  emit(20 + $i);`
	var src string
	switch loop {
	case 0:
		src = "$i = 0;\nwhile ($i < $n) {\n  $i++;\n" + body + "\n}\nemit(999);"
	case 1:
		src = "$i = 0;\ndo {\n  $i++;\n" + body + "\n} while ($i < $n);\nemit(999);"
	case 2:
		src = "for ($i = 1; $i <= $n; $i++) {\n" + body + "\n}\nemit(999);"
	case 3:
		src = "foreach ([1, 2, 3] as $i) {\n  if ($i > $n) { break; }\n" + body + "\n}\nemit(999);"
	}
	got, ok := run(src, map[string]int{"n": n, "k": k})
	var want []int
	step := func(i int) (stop bool) {
		if i == k {
			if e == 1 {
				return true
			}
			if e == 2 {
				return false
			}
		}
		want = append(want, 10+i, 20+i)
		return false
	}
	switch loop {
	case 0:
		for i := 0; i < n; {
			i++
			if step(i) {
				break
			}
		}
	case 1:
		for i := 0; ; {
			i++
			if step(i) {
				break
			}
			if !(i < n) {
				break
			}
		}
	case 2, 3:
		for i := 1; i <= n && i <= 3; i++ {
			if step(i) {
				break
			}
		}
	}
	want = append(want, 999)
	same(got, ok, want, "loop-body-exit")
}

// H_static_forms: a static local keeps its value across calls and is initialised once, for every
// way of updating it (postfix/prefix increment, plain and compound assignment), every way of
// leaving the function (fall-through, return of the variable, return from a nested block) and
// every placement of the declaration (function top level, inside an if block, inside a loop body).
func H_static_forms() {
	n := symx.IntRange("n", 1, 3)
	d := symx.IntRange("d", -3, 3)
	upd := symx.Choose("update", 6)
	exit := symx.Choose("exit", 3)
	place := symx.Choose("place", 3)
	updates := []string{"$c++;", "++$c;", "$c = $c + $d;", "$c += $d;", "$c = $c * 2 + 1;", "$c -= 1;"}
	decl := "static $c = 5;"
	var fn string
	tail := ""
	switch exit {
	case 0:
		tail = "" // fall-through; observed by a final probe call that returns before the update
	case 1:
		tail = "return $c;"
	case 2:
		tail = "if ($c != 5) { return $c; } return $c;"
	}
	inner := decl + " if ($probe) { return $c; } " + updates[upd] + " " + tail
	switch place {
	case 0:
		fn = "function f($d, $probe) { " + inner + " }"
	case 1:
		fn = "function f($d, $probe) { if ($d < 100) { " + inner + " } }"
	case 2:
		fn = "function f($d, $probe) { for ($q = 0; $q < 1; $q++) { " + inner + " } }"
	}
	src := fn + "\n$r = 0;\nfor ($i = 0; $i < $n; $i++) { $r = f($d, false); }\n"
	if exit != 0 {
		src += "emit($r);\n"
	}
	src += "emit(f($d, true));"
	got, ok := run(src, map[string]int{"n": n, "d": d})
	c := 5
	for i := 0; i < n; i++ {
		switch upd {
		case 0, 1:
			c++
		case 2, 3:
			c += d
		case 4:
			c = c*2 + 1
		case 5:
			c--
		}
	}
	want := []int{c, c}
	if exit == 0 {
		want = []int{c}
	}
	same(got, ok, want, "static-forms")
}

// H_static_recursion: all active frames of a recursive function share the static local.
func H_static_recursion() {
	n := symx.IntRange("n", 0, 3)
	form := symx.Choose("update", 3)
	updates := []string{"$depth++;", "$depth = $depth + 1;", "$depth += 1;"}
	src := `function r($n) { static $depth = 0; ` + updates[form] + ` if ($n > 0) { r($n - 1); } return $depth; }
emit(r($n));
emit(r(0));`
	got, ok := run(src, map[string]int{"n": n})
	same(got, ok, []int{n + 1, n + 2}, "static-recursion")
}

// H_switch_labels: a switch with three cases whose labels are drawn from {1,2,3} WITH repetition
// (duplicate labels are legal: later duplicates are dead code), optional default in any position,
// labels written as literals or as expressions, subject symbolic: the FIRST case in source order
// whose label equals the subject runs, the default runs only when none matches.
func H_switch_labels() {
	x := symx.IntRange("x", 0, 4)
	l0, l1, l2 := 1+symx.Choose("l0", 3), 1+symx.Choose("l1", 3), 1+symx.Choose("l2", 3)
	def := symx.Choose("default_at", 5) // position of the default clause (4 = none)
	form := symx.Choose("label_form", 2) // 0 literals, 1 one label written as an expression
	lab := func(v int, i int) string {
		if form == 1 && i == 1 {
			return "(" + string(rune('0'+v)) + " + 0)"
		}
		return string(rune('0' + v))
	}
	labels := []int{l0, l1, l2}
	src := "switch ($a) {\n"
	for i := 0; i <= 3; i++ {
		if def == i {
			src += "  default: emit(90); break;\n"
		}
		if i < 3 {
			src += "  case " + lab(labels[i], i) + ": emit(1" + string(rune('0'+i)) + "); break;\n"
		}
	}
	src += "}\nemit(999);"
	got, ok := run(src, map[string]int{"a": x})
	var want []int
	hit := false
	for i := 0; i < 3 && !hit; i++ {
		if labels[i] == x {
			want = append(want, 10+i)
			hit = true
		}
	}
	if !hit && def < 4 {
		want = append(want, 90)
	}
	want = append(want, 999)
	same(got, ok, want, "switch-labels")
}

// H_foreach_object_write: a foreach over an object whose body writes the object it iterates
// (by dynamic name, by fixed name, adding a property): the loop visits the entries the object had
// when the loop started, terminates, and the writes are there afterwards.
func H_foreach_object_write() {
	w := symx.Int("w")
	k := symx.Choose("case", 3)
	body := []string{"$o->$k = $v + $a;", "$o->p = $v + $a;", "$o->added = $a;"}[k]
	src := "class P { public $p = 1; public $q = 2; }\n$o = new P();\nforeach ($o as $k => $v) { " + body + " emit($v); }\nemit($o->p); emit($o->q); emit(999);"
	got, ok := run(src, map[string]int{"a": w})
	var want []int
	switch k {
	case 0:
		want = []int{1, 2, 1 + w, 2 + w, 999}
	case 1:
		want = []int{1, 2, 2 + w, 2, 999}
	case 2:
		want = []int{1, 2, 1, 2, 999}
	}
	same(got, ok, want, "foreach-object-write")
}

// H_for_forms: (condition form) x (increment form) x (what the body does to the counter). The
// body may write the loop counter (skip ahead, extra increment): the increment clause then works
// on the value the body left, and the condition is re-evaluated on the result.
func H_for_forms() {
	n := symx.IntRange("n", 0, 4)
	a, b := symx.IntRange("a", 0, 4), symx.IntRange("b", 0, 2)
	c, inc, body := symx.Choose("cond", 6), symx.Choose("incr", 5), symx.Choose("body", 5)
	conds := []string{"$i < $n", "$i <= $n", "$i < 3", "$i <= 3", "$n > $i", "$n >= $i"}
	incs := []string{"$i++", "++$i", "$i += 1", "$i = $i + 1", "$i += 2"}
	bodies := []string{
		"emit($i);",
		"emit($i); if ($i == $a) { $i = $i + $b; }",
		"emit($i); if ($i == $a) { $i++; }",
		"emit($i); $i += $b;",
		"emit($i); for ($j = 0; $j < 2; $j++) { if ($i == $a) { $i = $i + 1; } }",
	}
	src := "for ($i = 0; " + conds[c] + "; " + incs[inc] + ") { " + bodies[body] + " } emit(100 + $i);"
	got, ok := run(src, map[string]int{"n": n, "a": a, "b": b})
	cond := func(i int) bool {
		switch c {
		case 0, 4:
			return i < n
		case 1, 5:
			return i <= n
		case 2:
			return i < 3
		}
		return i <= 3
	}
	var want []int
	i := 0
	for ; cond(i); {
		want = append(want, i)
		switch body {
		case 1:
			if i == a {
				i += b
			}
		case 2:
			if i == a {
				i++
			}
		case 3:
			i += b
		case 4:
			for j := 0; j < 2; j++ {
				if i == a {
					i++
				}
			}
		}
		if inc == 4 {
			i += 2
		} else {
			i++
		}
	}
	want = append(want, 100+i)
	same(got, ok, want, "for-forms `"+src+"`")
}

// H_no_return: a function, method, static method or closure whose body ends without executing a
// return yields null, whatever its last statement computed; an arrow function yields its expression.
func H_no_return() {
	a := symx.Int("a")
	form, tail := symx.Choose("form", 5), symx.Choose("tail", 5)
	tails := []string{
		"$x = $p + 1;",
		"$p + 1;",
		"if ($p == $p + 1) { return 7; }",
		"for ($i = 0; $i < 2; $i++) { $x = $i; }",
		"$x = [1, 2]; $x[] = $p;",
	}
	body := tails[tail]
	var decl, call string
	switch form {
	case 0:
		decl, call = "function nr($p) { "+body+" }", "nr($a)"
	case 1:
		decl, call = "class NR { function m($p) { "+body+" } } $o = new NR();", "$o->m($a)"
	case 2:
		decl, call = "class NR { static function m($p) { "+body+" } }", "NR::m($a)"
	case 3:
		decl, call = "$f = function($p) { "+body+" };", "$f($a)"
	case 4:
		decl, call = "$f = fn($p) => $p + 1;", "$f($a)"
	}
	got, ok := run(decl+" $r = "+call+"; emit(($r === null) ? 1 : 0);", map[string]int{"a": a})
	want := []int{1}
	if form == 4 {
		want = []int{0}
	}
	same(got, ok, want, "no-return: `"+decl+"`")
}

// H_foreach_body_writes: a by-value foreach iterates the array as it was when the loop was
// entered: the body may overwrite elements not yet visited, append, or remove elements of the
// array it iterates; the values (and keys) visited do not change, and the array afterwards holds
// the writes.
func H_foreach_body_writes() {
	a, b, d := symx.Int("a"), symx.Int("b"), symx.Int("d")
	k := symx.IntRange("k", 0, 2)
	w := symx.Choose("write", 5)
	shape := symx.Choose("shape", 2)
	lit := []string{"[$a, $b, 7]", "[\"x\" => $a, \"y\" => $b, \"z\" => 7]"}[shape]
	key2 := []string{"2", "\"z\""}[shape]
	writes := []string{
		"$arr[" + key2 + "] = $d;",
		"$arr[] = $d;",
		"unset($arr[" + key2 + "]);",
		"$arr = [$d];",
		"$arr[" + key2 + "] = $d; $arr[] = $d;",
	}
	src := "$arr = " + lit + "; $n = 0;\nforeach ($arr as $key => $v) { if ($n == $k) { " + writes[w] + " } emit($v); $n++; }\nemit(999);"
	got, ok := run(src, map[string]int{"a": a, "b": b, "d": d, "k": k})
	same(got, ok, []int{a, b, 7, 999}, "foreach body writes `"+writes[w]+"`")
}

// H_foreach_nested_same: two foreach loops over the SAME array, nested (directly, or with the inner
// loop in a function that receives the array): each loop has its own position.
func H_foreach_nested_same() {
	a, b := symx.Int("a"), symx.Int("b")
	shape, inner := symx.Choose("shape", 3), symx.Choose("inner", 3)
	lit := []string{"[$a, $b]", "[\"x\" => $a, \"y\" => $b]", "[\"x\" => $a, 5 => $b]"}[shape]
	var src string
	switch inner {
	case 0:
		src = "$arr = " + lit + "; foreach ($arr as $v) { foreach ($arr as $w) { emit($v); emit($w); } }"
	case 1:
		src = "function each2($x, $v) { foreach ($x as $w) { emit($v); emit($w); } return 0; } $arr = " + lit + "; foreach ($arr as $v) { each2($arr, $v); }"
	case 2:
		src = "$arr = " + lit + "; foreach ($arr as $k => $v) { foreach ($arr as $k2 => $w) { if ($k2 == $k) { continue; } emit($v); emit($w); } emit($v); emit($v); }"
	}
	got, ok := run(src+" emit(999);", map[string]int{"a": a, "b": b})
	var want []int
	if inner == 2 {
		want = []int{a, b, a, a, b, a, b, b, 999}
	} else {
		want = []int{a, a, a, b, b, a, b, b, 999}
	}
	same(got, ok, want, "nested foreach over the same array")
}

// H_match_kinds (seed C02h): `match` compares by identity (===): the subject is a symbolic
// int bound either as an int or as its decimal STRING form is not needed — a string subject
// drawn from a pool must only take string arms, an int subject only int arms, whatever the
// order of the arms.
func H_match_kinds() {
	subjects := []string{`"1"`, `1`, `"0"`, `0`, `"a"`, `true`, `null`, `1.0`}
	k := symx.Choose("subject", len(subjects))
	orders := []string{
		`1 => 10, "1" => 11, 0 => 20, "0" => 21, true => 30, null => 40, 1.0 => 50, default => 99`,
		`"1" => 11, 1 => 10, "0" => 21, 0 => 20, null => 40, true => 30, 1.0 => 50, default => 99`,
		`1.0 => 50, true => 30, null => 40, 0 => 20, "0" => 21, 1 => 10, "1" => 11, default => 99`,
	}
	o := symx.Choose("order", len(orders))
	got, ok := run(`$s = `+subjects[k]+`; emit(match($s) { `+orders[o]+` });`, nil)
	want := []int{11, 10, 21, 20, 99, 30, 40, 50}[k]
	same(got, ok, []int{want}, "match-identity")
}
