package c14b

import (
	"github.com/php-any/origami/data"
	"github.com/php-any/origami/std/php"
	"verif/symx"
)

// Reference recognizer of the serialize grammar (the subset the documentation of unserialize
// names: N, b, i, d, s, a), written independently of std/php/unserialize.go. It returns the index
// after one value, or -1.
//
//	value := "N;" | "b:0;" | "b:1;" | "i:" int ";" | "d:" float ";" | "s:" len ":\"" <len bytes> "\";"
//	       | "a:" n ":{" (key value){n} "}"        key := an i or s value
func refValue(s string, i int, depth int) int {
	if i >= len(s) || depth > 4 {
		return -1
	}
	switch s[i] {
	case 'N':
		if i+2 <= len(s) && s[i+1] == ';' {
			return i + 2
		}
	case 'b':
		if i+4 <= len(s) && s[i+1] == ':' && (s[i+2] == '0' || s[i+2] == '1') && s[i+3] == ';' {
			return i + 4
		}
	case 'i':
		if i+2 <= len(s) && s[i+1] == ':' {
			j := i + 2
			if j < len(s) && (s[j] == '-' || s[j] == '+') {
				j++
			}
			d0 := j
			for j < len(s) && s[j] >= '0' && s[j] <= '9' {
				j++
			}
			// at most 18 digits here: the harness never builds numbers near the int64 boundary with a window
			if j > d0 && j-d0 <= 18 && j < len(s) && s[j] == ';' {
				return j + 1
			}
		}
	case 'd':
		if i+2 <= len(s) && s[i+1] == ':' {
			j := refFloat(s, i+2)
			if j > 0 && j < len(s) && s[j] == ';' {
				return j + 1
			}
		}
	case 's':
		if i+2 <= len(s) && s[i+1] == ':' {
			j := i + 2
			n, d0 := 0, j
			for j < len(s) && s[j] >= '0' && s[j] <= '9' && j-d0 < 4 {
				n = n*10 + int(s[j]-'0')
				j++
			}
			if j > d0 && j+1 < len(s) && s[j] == ':' && s[j+1] == '"' {
				e := j + 2 + n
				if e+2 <= len(s) && s[e] == '"' && s[e+1] == ';' {
					return e + 2
				}
			}
		}
	case 'a':
		if i+2 <= len(s) && s[i+1] == ':' {
			j := i + 2
			n, d0 := 0, j
			for j < len(s) && s[j] >= '0' && s[j] <= '9' && j-d0 < 4 {
				n = n*10 + int(s[j]-'0')
				j++
			}
			if j > d0 && j+1 < len(s) && s[j] == ':' && s[j+1] == '{' {
				j += 2
				for k := 0; k < n; k++ {
					if j >= len(s) || (s[j] != 'i' && s[j] != 's') {
						return -1
					}
					j = refValue(s, j, depth+1)
					if j < 0 {
						return -1
					}
					j = refValue(s, j, depth+1)
					if j < 0 {
						return -1
					}
				}
				if j < len(s) && s[j] == '}' {
					return j + 1
				}
			}
		}
	}
	return -1
}

// refFloat: INF | -INF | NAN | [+-]? (digits ("." digits?)? | "." digits) ([eE] [+-]? digits)?
func refFloat(s string, i int) int {
	for _, w := range []string{"INF", "-INF", "NAN"} {
		if i+len(w) <= len(s) && s[i:i+len(w)] == w {
			return i + len(w)
		}
	}
	j := i
	if j < len(s) && (s[j] == '+' || s[j] == '-') {
		j++
	}
	digits := 0
	for j < len(s) && s[j] >= '0' && s[j] <= '9' {
		j++
		digits++
	}
	if j < len(s) && s[j] == '.' {
		j++
		for j < len(s) && s[j] >= '0' && s[j] <= '9' {
			j++
			digits++
		}
	}
	if digits == 0 {
		return -1
	}
	if j < len(s) && (s[j] == 'e' || s[j] == 'E') {
		k := j + 1
		if k < len(s) && (s[k] == '+' || s[k] == '-') {
			k++
		}
		e0 := k
		for k < len(s) && s[k] >= '0' && s[k] <= '9' {
			k++
		}
		if k == e0 {
			return -1
		}
		j = k
	}
	return j
}

// sandwiches for the acceptance check: a symbolic window at every interesting place of a serialized value
var unserSandwiches = [][2]string{
	{"", ""}, {"", "N;"}, {"N;", ""}, {"N", ""},
	{"b:", ";"}, {"b:1", ""}, {"b", "1;"},
	{"i:", ";"}, {"i:1", ""}, {"i:-", ";"}, {"i", "7;"},
	{"s:1:\"", "\";"}, {"s:", ":\"a\";"}, {"s:2:\"a", ";"}, {"s:1:\"a\"", ""}, {"s:1:\"a\";", ""}, {"s:5:\"ab", ""}, {"s:0:\"", ";"},
	{"a:1:{", "N;}"}, {"a:1:{i:0;", "}"}, {"a:0:{", ""}, {"a:1:{i:0;N;", ""}, {"a:", ":{i:0;N;}"}, {"a:2:{i:0;N;", "i:1;N;}"}, {"a:1:{s:1:\"k\";a:1:{i:0;", "}}"},
	{"a:1:{", "i:0;}"},
	{"d:", ";"}, {"d:1", ";"}, {"d:1.", ";"}, {"d:1e", ";"}, {"d:-IN", ";"},
}

// H_unserialize_exact: unserialize accepts exactly the well-formed inputs and accounts for every
// input byte: on (prefix ‖ window ‖ suffix) it yields a value iff the whole string is one value of
// the grammar.
func H_unserialize_exact() {
	n := symx.Param("n", 1)
	lo, hi := symx.Param("lo", 0), symx.Param("hi", len(unserSandwiches))
	k := lo + symx.Choose("ctx", hi-lo)
	s := unserSandwiches[k][0] + symx.String("w", n) + unserSandwiches[k][1]
	wellFormed := refValue(s, 0, 0) == len(s)
	d, ok := call1(php.NewUnserializeFunction(), data.NewStringValue(s))
	symx.Assert(ok, "unserialize returns a value or false")
	if !ok {
		return
	}
	rejected := false
	if bv, isB := d.(*data.BoolValue); isB && !bv.Value && s != "b:0;" {
		rejected = true
	}
	symx.Assert(rejected == !wellFormed, "unserialize accepts exactly the well-formed inputs (every input byte accounted for)")
	symx.Reach("end")
}

// H_serialize_float: floats survive serialize / unserialize bit for bit (a concrete boundary pool:
// number formatting is not encoded symbolically), alone and as elements of a list.
func H_serialize_float() {
	pool := []float64{0, 1.5, 0.1, -2.25, 1e25, 5e-324, 1.7976931348623157e308, 1e-7, 1e21, 9007199254740993, 0.30000000000000004}
	k := symx.Choose("f", len(pool)+4)
	var f float64
	switch {
	case k < len(pool):
		f = pool[k]
	case k == len(pool):
		f = inf(1)
	case k == len(pool)+1:
		f = inf(-1)
	case k == len(pool)+2:
		f = nan()
	default:
		f = negZero()
	}
	inList := symx.Choose("in_list", 2) == 1
	var v data.Value = data.NewFloatValue(f)
	if inList {
		v = data.NewArrayValue([]data.Value{data.NewIntValue(1), data.NewFloatValue(f), data.NewStringValue("x")})
	}
	e, ok := call1(php.NewSerializeFunction(), v)
	es, ok2 := str(e)
	symx.Assert(ok && ok2, "serialize of a float yields a string")
	if !ok || !ok2 {
		return
	}
	symx.Assert(refValue(es, 0, 0) == len(es), "serialize of a float emits a well-formed value")
	d, ok := call1(php.NewUnserializeFunction(), data.NewStringValue(es))
	symx.Assert(ok, "unserialize accepts serialize's output")
	if !ok {
		return
	}
	if inList {
		arr, isA := d.(*data.ArrayValue)
		symx.Assert(isA && len(arr.List) == 3, "list with a float round trip (length)")
		if !isA || len(arr.List) != 3 {
			return
		}
		d = arr.List[1].Value
	}
	fv, isF := d.(*data.FloatValue)
	symx.Assert(isF, "a float comes back as a float")
	if isF {
		symx.Assert(symx.SameFloat(fv.Value, f), "float round trip is exact")
	}
	symx.Reach("end")
}

func inf(sign int) float64 {
	x := 1.7976931348623157e308
	if sign < 0 {
		return -x * 10
	}
	return x * 10
}
func nan() float64     { z := 0.0; return z / z }
func negZero() float64 { z := 0.0; return -z }
