// Package c14b: text codecs of the standard library (base64, URL, hex,
// serialize): encoders faithful, decoders total (DESIGN.md §4 C14 (b),(c)).
// Kept apart from harness/c14 because package std/php pulls a much larger
// import graph into the SSA program.
package c14b

import (
	"github.com/php-any/origami/data"
	"github.com/php-any/origami/node"
	"github.com/php-any/origami/parser"
	"github.com/php-any/origami/runtime"
	"github.com/php-any/origami/std/php"
	"verif/symx"
)

var vm data.VM

func Setup() {
	vm = runtime.NewVM(parser.NewParser())
	vm.SetThrowControl(func(acl data.Control) {})
}

// call1 invokes a builtin with one argument through a real call context.
func call1(f data.FuncStmt, arg data.Value) (data.Value, bool) {
	vars := []data.Variable{node.NewVariable(nil, "x", 0, nil)}
	ctx := vm.CreateContext(vars)
	ctx.SetVariableValue(vars[0], arg)
	r, ctl := f.Call(ctx)
	if ctl != nil {
		return nil, false
	}
	v, ok := r.(data.Value)
	return v, ok
}

func str(v data.Value) (string, bool) {
	if sv, ok := v.(*data.StringValue); ok {
		return sv.Value, true
	}
	return "", false
}

func isUnreserved(c byte) bool {
	return (c >= 'a' && c <= 'z') || (c >= 'A' && c <= 'Z') || (c >= '0' && c <= '9') || c == '-' || c == '_' || c == '.' || c == '~'
}

func isHex(c byte) bool {
	return (c >= '0' && c <= '9') || (c >= 'a' && c <= 'f') || (c >= 'A' && c <= 'F')
}

// H_base64: decode(encode(s)) == s for every byte string of length n; output alphabet.
func H_base64() {
	n := symx.Param("n", 2)
	s := symx.String("s", n)
	e, ok := call1(php.NewBase64EncodeFunction(), data.NewStringValue(s))
	es, ok2 := str(e)
	symx.Assert(ok && ok2, "base64_encode yields a string")
	if !ok || !ok2 {
		return
	}
	symx.Assert(len(es) == (n+2)/3*4, "base64 length")
	for i := 0; i < len(es); i++ {
		c := es[i]
		symx.Assert((c >= 'A' && c <= 'Z') || (c >= 'a' && c <= 'z') || (c >= '0' && c <= '9') || c == '+' || c == '/' || c == '=', "base64 alphabet")
	}
	d, ok := call1(php.NewBase64DecodeFunction(), data.NewStringValue(es))
	ds, ok2 := str(d)
	symx.Assert(ok && ok2 && ds == s, "base64_decode inverts base64_encode byte for byte")
	symx.Reach("end")
}

// H_hex: bin2hex emits 2 lowercase hex digits per byte that spell the byte.
func H_hex() {
	n := symx.Param("n", 2)
	s := symx.String("s", n)
	e, ok := call1(php.NewBin2hexFunction(), data.NewStringValue(s))
	es, ok2 := str(e)
	symx.Assert(ok && ok2 && len(es) == 2*n, "bin2hex yields 2 characters per byte")
	if !ok || !ok2 || len(es) != 2*n {
		return
	}
	hexv := func(c byte) byte {
		if c >= '0' && c <= '9' {
			return c - '0'
		}
		return c - 'a' + 10
	}
	for i := 0; i < n; i++ {
		hi, lo := es[2*i], es[2*i+1]
		symx.Assert(((hi >= '0' && hi <= '9') || (hi >= 'a' && hi <= 'f')) && ((lo >= '0' && lo <= '9') || (lo >= 'a' && lo <= 'f')), "bin2hex alphabet is lowercase hex")
		symx.Assert(hexv(hi)*16+hexv(lo) == s[i], "bin2hex digits spell the byte")
	}
	symx.Reach("end")
}

// H_url: urlencode/urldecode and rawurlencode/rawurldecode round trip; output alphabet is
// RFC 3986 unreserved plus %XX (plus '+' for urlencode).
func H_url() {
	n := symx.Param("n", 2)
	raw := symx.Choose("raw", 2)
	s := symx.String("s", n)
	enc, dec := php.NewUrlencodeFunction(), php.NewUrldecodeFunction()
	if raw == 1 {
		enc, dec = php.NewRawurlencodeFunction(), php.NewRawurldecodeFunction()
	}
	e, ok := call1(enc, data.NewStringValue(s))
	es, ok2 := str(e)
	symx.Assert(ok && ok2, "url encoder yields a string")
	if !ok || !ok2 {
		return
	}
	for i := 0; i < len(es); i++ {
		c := es[i]
		okc := isUnreserved(c) || (raw == 0 && c == '+')
		if c == '%' {
			okc = i+2 < len(es) && isHex(es[i+1]) && isHex(es[i+2])
		}
		symx.Assert(okc, "encoder output is unreserved / %XX (/ '+')")
	}
	d, ok := call1(dec, data.NewStringValue(es))
	ds, ok2 := str(d)
	symx.Assert(ok && ok2 && ds == s, "url decoder inverts the encoder byte for byte")
	symx.Reach("end")
}

// H_decode_total: every decoder terminates without a crash on arbitrary bytes.
func H_decode_total() {
	n := symx.Param("n", 2)
	k := symx.Choose("decoder", 4)
	s := symx.String("s", n)
	f := []data.FuncStmt{php.NewBase64DecodeFunction(), php.NewUrldecodeFunction(), php.NewRawurldecodeFunction(), php.NewUnserializeFunction()}[k]
	vars := []data.Variable{node.NewVariable(nil, "x", 0, nil)}
	ctx := vm.CreateContext(vars)
	ctx.SetVariableValue(vars[0], data.NewStringValue(s))
	f.Call(ctx) // a Go panic escaping here is the violation
	symx.Reach("end")
}

// H_unserialize_prefixed: arbitrary bytes after the concrete prefixes of the serialize grammar.
func H_unserialize_prefixed() {
	n := symx.Param("n", 2)
	// the last four prefixes carry boundary-size counts / lengths / values in front of the window
	prefixes := []string{"s:", "a:", "i:", "b:", "d:", "N", "O:", "s:1:\"", "a:1:{", "a:1:{i:0;", "i:1", "s:2:\"a",
		"a:9223372036854775807:", "a:4294967296:{", "s:9223372036854775807:\"", "i:9223372036854775808"}
	pre := prefixes[symx.Choose("prefix", len(prefixes))]
	s := pre + symx.String("s", n)
	vars := []data.Variable{node.NewVariable(nil, "x", 0, nil)}
	ctx := vm.CreateContext(vars)
	ctx.SetVariableValue(vars[0], data.NewStringValue(s))
	php.NewUnserializeFunction().Call(ctx)
	symx.Reach("end")
}

// H_serialize_roundtrip: unserialize(serialize(x)) === x for strings (symbolic bytes), bools, null,
// ints from a boundary pool and lists of two such.
func H_serialize_roundtrip() {
	n := symx.Param("n", 2)
	kind := symx.Choose("kind", 8)
	var v data.Value
	s := symx.String("s", n)
	s2 := symx.String("t", n)
	b := symx.Bool("b")
	iv := []int{0, 1, -1, 42, 9223372036854775807, -9223372036854775808}[symx.Choose("i", 6)]
	switch kind {
	case 0:
		v = data.NewStringValue(s)
	case 1:
		v = data.NewBoolValue(b)
	case 2:
		v = data.NewNullValue()
	case 3:
		v = data.NewIntValue(iv)
	case 4:
		v = data.NewArrayValue([]data.Value{data.NewIntValue(iv), data.NewStringValue(s)})
	case 5:
		// two strings: the first one is FOLLOWED by more input (its end must come from its length)
		v = data.NewArrayValue([]data.Value{data.NewStringValue(s), data.NewStringValue(s2)})
	case 6:
		v = data.NewArrayValue([]data.Value{data.NewArrayValue([]data.Value{data.NewStringValue(s)}), data.NewStringValue(s2), data.NewIntValue(iv)})
	case 7:
		v = data.NewArrayValue([]data.Value{data.NewStringValue(s), data.NewBoolValue(b), data.NewNullValue(), data.NewStringValue(s2)})
	}
	e, ok := call1(php.NewSerializeFunction(), v)
	es, ok2 := str(e)
	symx.Assert(ok && ok2, "serialize yields a string")
	if !ok || !ok2 {
		return
	}
	d, ok := call1(php.NewUnserializeFunction(), data.NewStringValue(es))
	symx.Assert(ok, "unserialize accepts serialize's output")
	if !ok {
		return
	}
	switch kind {
	case 0:
		ds, isS := str(d)
		symx.Assert(isS && ds == s, "string round trip")
	case 1:
		bv, isB := d.(*data.BoolValue)
		symx.Assert(isB && bv.Value == b, "bool round trip")
	case 2:
		_, isN := d.(*data.NullValue)
		symx.Assert(isN, "null round trip")
	case 3:
		x, isI := d.(*data.IntValue)
		symx.Assert(isI && x.Value == iv, "int round trip")
	case 4:
		arr, isA := d.(*data.ArrayValue)
		symx.Assert(isA && len(arr.List) == 2, "list round trip (length)")
		if isA && len(arr.List) == 2 {
			x, isI := arr.List[0].Value.(*data.IntValue)
			ds, isS := str(arr.List[1].Value)
			symx.Assert(isI && x.Value == iv && isS && ds == s, "list round trip (elements)")
		}
	case 5:
		arr, isA := d.(*data.ArrayValue)
		symx.Assert(isA && len(arr.List) == 2, "list of two strings round trip (length)")
		if isA && len(arr.List) == 2 {
			d0, ok0 := str(arr.List[0].Value)
			d1, ok1 := str(arr.List[1].Value)
			symx.Assert(ok0 && ok1 && d0 == s && d1 == s2, "list of two strings round trip (elements)")
		}
	case 6:
		arr, isA := d.(*data.ArrayValue)
		symx.Assert(isA && len(arr.List) == 3, "nested list round trip (length)")
		if isA && len(arr.List) == 3 {
			in, isIn := arr.List[0].Value.(*data.ArrayValue)
			d1, ok1 := str(arr.List[1].Value)
			x, isI := arr.List[2].Value.(*data.IntValue)
			symx.Assert(isIn && len(in.List) == 1 && ok1 && d1 == s2 && isI && x.Value == iv, "nested list round trip (elements)")
			if isIn && len(in.List) == 1 {
				d0, ok0 := str(in.List[0].Value)
				symx.Assert(ok0 && d0 == s, "nested list round trip (inner string)")
			}
		}
	case 7:
		arr, isA := d.(*data.ArrayValue)
		symx.Assert(isA && len(arr.List) == 4, "mixed list round trip (length)")
		if isA && len(arr.List) == 4 {
			d0, ok0 := str(arr.List[0].Value)
			bv, isB := arr.List[1].Value.(*data.BoolValue)
			_, isN := arr.List[2].Value.(*data.NullValue)
			d3, ok3 := str(arr.List[3].Value)
			symx.Assert(ok0 && d0 == s && isB && bv.Value == b && isN && ok3 && d3 == s2, "mixed list round trip (elements)")
		}
	}
	symx.Reach("end")
}
