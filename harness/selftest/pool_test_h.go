package selftest

import (
	"sync"

	"verif/symx"
)

type pooled struct{ n int }

var thePool = sync.Pool{New: func() any { return new(pooled) }}

// H_pool_reuse: the engine's sync.Pool model hands back a retained item.
func H_pool_reuse() {
	a := thePool.Get().(*pooled)
	a.n = 7
	thePool.Put(a)
	b := thePool.Get().(*pooled)
	symx.Assert(a == b && b.n == 7, "pool returns the retained item")
	c := thePool.Get().(*pooled)
	symx.Assert(c != a && c.n == 0, "empty pool calls New")
	symx.Reach("end")
}

// H_select_rendezvous: the engine's channel model lets a parked select meet another select (or a
// plain operation) on an unbuffered channel, chooses among ready cases nondeterministically, and
// wakes parked selects on close.
func H_select_rendezvous() {
	ch := make(chan int)
	done := make(chan struct{})
	got := make(chan int, 2)
	var wg sync.WaitGroup
	wg.Add(2)
	go func() { // sender: value or give up when done is closed
		defer wg.Done()
		select {
		case ch <- 7:
			got <- 1
		case <-done:
			got <- 2
		}
	}()
	go func() { // receiver
		defer wg.Done()
		select {
		case v := <-ch:
			symx.Assert(v == 7, "select receives the value the other select sent")
			got <- 10
		case <-done:
			got <- 20
		}
	}()
	if symx.Choose("close", 2) == 1 {
		close(done)
	}
	wg.Wait()
	a, b := <-got, <-got
	sum := a + b
	// either the two selects met (1 + 10), or done woke both (2 + 20), or one side saw done after
	// the other... which is impossible without its partner: the only other outcomes need close
	symx.Assert(sum == 11 || sum == 22, "both selects complete consistently")
	symx.Reach("end")
}
