package selftest

import (
	"sync"

	"verif/symx"
)

type pooled struct{ n int }

var thePool = sync.Pool{New: func() any { return new(pooled) }}

// H_pool_reuse: the engine's sync.Pool model hands back a retained item.
func H_pool_reuse() {
	a := thePool.Get().(*pooled)
	a.n = 7
	thePool.Put(a)
	b := thePool.Get().(*pooled)
	symx.Assert(a == b && b.n == 7, "pool returns the retained item")
	c := thePool.Get().(*pooled)
	symx.Assert(c != a && c.n == 0, "empty pool calls New")
	symx.Reach("end")
}
