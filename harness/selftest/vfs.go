package selftest

import (
	"os"

	"verif/symx"
)

// H_vfs_vector: conformance twin for the virtual file system: the same os.* calls natively (real
// temporary directory) and under the engine (registry in verif/symx) must observe the same things.
func H_vfs_vector() {
	root := symx.VRoot()
	defer symx.VCleanup()
	symx.VFile(root+"/app/Foo.php", "<?php class Foo {}")
	symx.VFile(root+"/app/sub/Bar.php", "<?php\nclass Bar {}\n")
	symx.VFile(root+"/top.zy", "x")
	for _, p := range []string{"/app/Foo.php", "/app", "/app/sub", "/app/sub/Bar.php", "/nope", "/app/Nope.php", "/top.zy", "/app/"} {
		st, err := os.Stat(root + p)
		if err != nil {
			symx.Observe("stat", p, "ERR", os.IsNotExist(err))
			continue
		}
		symx.Observe("stat", p, st.Name(), st.IsDir(), st.IsDir() || st.Size() > 0)
	}
	for _, p := range []string{"/app/Foo.php", "/app/sub/Bar.php", "/missing"} {
		b, err := os.ReadFile(root + p)
		symx.Observe("read", p, len(b), err == nil)
	}
	for _, p := range []string{"", "/app", "/app/sub", "/void"} {
		es, err := os.ReadDir(root + p)
		if err != nil {
			symx.Observe("dir", p, "ERR")
			continue
		}
		line := ""
		for _, e := range es {
			line += e.Name()
			if e.IsDir() {
				line += "/"
			}
			line += " "
		}
		symx.Observe("dir", p, line)
	}
}
