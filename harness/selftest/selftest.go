// Package selftest: engine conformance probes (symbolic result must equal the native result).
package selftest

import (
	"unicode/utf8"

	"verif/symx"
)

func H_decode() {
	w := symx.String("w", 1)
	symx.Assume(w[0] == byte(symx.Param("b0", 0)))
	r, n := utf8.DecodeRuneInString(w)
	symx.Observe("decoded", int(r), n)
	r2, n2 := utf8.DecodeRuneInString(string([]byte{byte(symx.Param("b0", 0))}))
	symx.Assert(r == r2 && n == n2, "decode-matches-concrete")
}
