// Package selftest: engine conformance probes. Every function here is executed
// both natively and under the engine on CONCRETE inputs; the observation logs
// must be identical (vcheck selftest, part of setup_cmd). H_pinned_* additionally
// run the symbolic machinery on inputs pinned by an assumption and compare with the
// concrete run inside the same path.
package selftest

import (
	"unicode/utf8"

	"github.com/php-any/origami/data"
	"github.com/php-any/origami/lexer"
	opw "github.com/php-any/origami/std/protowire"
	"verif/harness/sx"
	"verif/symx"
)

// the repository's own lexer test inputs plus boundary cases
var lexVectors = []string{
	"$a = 1 + 2; echo $a;",
	"<?php\nclass A { function f($x) { return $x; } }\n",
	"$s = \"a{$x}b\" . 'c';",
	"$a = <<<EOT\nline $x\nEOT;\n",
	"// c\r\n$b = 0x1F + 1e3 - 0b11;",
	"\\App\\Foo::bar(1, [2 => 3]);",
	"$x->y?->z ?? 1 <=> 2 ** -3;",
	"中文 = \"多字节\"; \xe3\x80\x80 $y",
	"\x80\xfe $ \\\xf1",
	"#!/usr/bin/env x\n$a",
	"/* unterminated",
	"\"unterminated {$",
}

func H_lex_vectors() {
	l := lexer.NewLexer()
	for k, src := range lexVectors {
		for _, t := range l.Tokenize(src) {
			symx.Observe("tok", k, int(t.Type()), t.Start(), t.End(), t.Line(), t.Pos(), []byte(t.Literal()))
		}
		for _, t := range l.TokenizeTemplate(src) {
			symx.Observe("ttok", k, int(t.Type()), t.Start(), t.End(), t.Line(), []byte(t.Literal()))
		}
	}
}

// protowire vectors in the style of std/protowire/parser_test.go
var pwVectors = [][]byte{
	{}, {0x08, 0x96, 0x01}, {0x12, 0x03, 'a', 'b', 'c'}, {0x0d, 1, 2, 3, 4}, {0x09, 1, 2, 3, 4, 5, 6, 7, 8},
	{0x0b, 0x08, 0x01, 0x0c}, {0x0b, 0x08, 0x01, 0x14}, {0x0c}, {0x08}, {0x12, 0x05, 'a'}, {0x0a, 0x02, 0x08, 0x01},
	{0x12, 0x03, 0x01, 0x02, 0x03}, {0x12, 0x04, 1, 0, 0, 0}, {0xff, 0xff, 0xff, 0xff, 0xff, 0xff, 0xff, 0xff, 0xff, 0x7f},
}

func H_protowire_vectors() {
	for k, d := range pwVectors {
		for _, et := range []int32{0, 1, 5} {
			opts := &opw.ParseOptions{MessageFields: map[int32]bool{1: true}, PackedFields: map[int32]bool{2: true}, PackedElementType: map[int32]int32{2: et}, MaxDepth: 3}
			fs, err := opw.ParseRawFields(d, opts)
			msg := ""
			if err != nil {
				msg = err.Error()
			}
			symx.Observe("pw", k, int(et), len(fs), msg)
			for _, f := range fs {
				symx.Observe("field", int(f.Number), int(f.WireType))
			}
		}
	}
}

// a script exercising functions, loops, classes, arrays, exceptions, closures, string methods
const script = `
function fib($n) { if ($n < 2) { return $n; } return fib($n - 1) + fib($n - 2); }
class P { public $v = 1; function add($x) { $this->v = $this->v + $x; return $this; } }
$o = new P(); $o->add(2)->add(3); emit($o->v);
$a = [3, 1, 2]; $a[] = 9; $b = $a; $b[0] = 7; emit($a[0]); emit($b[0]);
for ($i = 0; $i < 4; $i++) { if ($i == 2) { continue; } emit($i * 10); }
try { throw new Exception("x"); } catch (Exception $e) { mark(1); } finally { mark(2); }
emit(fib(10));
$f = function($x) use ($o) { return $x + $o->v; }; emit($f(1));
emit("abc"->toUpperCase()); emit([1, 2, 3]->slice(1)); dump([1, [2, 3]]->concat([4]));
emit(7 / 2); emit(7 % 3); emit(2 ** 10); emit(1 <=> 2); emit("a" . 1 . "b"); emit(-5 >> 1); emit(5 & 3 | 8 ^ 1);
$m = ["x" => 1, "y" => 2]; foreach ($m as $k => $v) { emit($k); emit($v); }
switch (2) { case 1: emit(1); break; case 2: emit(2); break; default: emit(3); }
emit(match(3) { 1 => 10, 3 => 30, default => 0 });
$i = 0; while (true) { $i++; if ($i > 3) { break; } } emit($i);
`

func H_script_vector() {
	s := sx.Compile(script)
	if s.Err != nil {
		symx.Observe("parse-error", s.Err.AsString())
		return
	}
	_, ctl := s.Run()
	if ctl != nil {
		symx.Observe("control", ctl.AsString())
	}
	for _, o := range sx.Log {
		symx.Observe("obs", int(o.Kind), o.I, o.F, o.S, o.B)
	}
}

// symbolic machinery pinned to a concrete byte must agree with the concrete run (all 256 bytes)
func H_pinned_decode() {
	b := symx.Byte("b")
	c := symx.Choose("c", 256)
	symx.Assume(b == byte(c))
	for _, pre := range []string{"", "\xe4\xb8", "a", "\xf0\x9f"} {
		r, n := utf8.DecodeRuneInString(pre + string([]byte{b}))
		r2, n2 := utf8.DecodeRuneInString(pre + string([]byte{byte(c)}))
		symx.Assert(r == r2 && n == n2, "DecodeRuneInString(symbolic pinned) == concrete")
		s1, s2 := string(rune(b)), string(rune(byte(c)))
		symx.Assert(s1 == s2, "string(rune(byte)) pinned == concrete")
	}
}

func H_pinned_lex() {
	b := symx.Byte("b")
	c := symx.Choose("c", 256)
	symx.Assume(b == byte(c))
	l := lexer.NewLexer()
	for _, pre := range []string{"", "$a ", "\"", "\\", "1", "<"} {
		t1 := l.Tokenize(pre + string([]byte{b}) + " x")
		t2 := l.Tokenize(pre + string([]byte{byte(c)}) + " x")
		symx.Assert(len(t1) == len(t2), "token count pinned == concrete")
		if len(t1) != len(t2) {
			return
		}
		for k := range t1 {
			symx.Assert(t1[k].Type() == t2[k].Type() && t1[k].Start() == t2[k].Start() && t1[k].End() == t2[k].End() && t1[k].Line() == t2[k].Line() && t1[k].Literal() == t2[k].Literal(), "token pinned == concrete")
		}
	}
}

func H_pinned_arith() {
	x, y := symx.Int("x"), symx.Int("y")
	vals := []int{0, 1, -1, 7, -9223372036854775808, 9223372036854775807, 1 << 53, -(1 << 31)}
	cx, cy := vals[symx.Choose("cx", len(vals))], vals[symx.Choose("cy", len(vals))]
	symx.Assume(x == cx && y == cy)
	symx.Assert(x+y == cx+cy && x-y == cx-cy && x*y == cx*cy && x&y == cx&cy && x|y == cx|cy && x^y == cx^cy, "int ops")
	symx.Assert((x < y) == (cx < cy) && (x <= y) == (cx <= cy) && (x == y) == (cx == cy), "int comparisons")
	if cy != 0 {
		symx.Assert(x/y == cx/cy && x%y == cx%cy, "int div/rem")
	}
	s := uint(symx.Choose("sh", 70))
	symx.Assert(x<<s == cx<<s && x>>s == cx>>s && uint64(x)>>s == uint64(cx)>>s, "shifts incl. counts >= 64")
	symx.Assert(float64(x) == float64(cx) && int32(x) == int32(cx) && uint8(x) == uint8(cx) && int64(float64(x)/3) == int64(float64(cx)/3), "conversions")
	v := data.NewIntValue(x)
	iv, _ := v.(*data.IntValue)
	symx.Assert(iv.Value == cx, "boxed value")
}
