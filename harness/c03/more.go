package c03

import (
	"math"
	"math/bits"

	"github.com/php-any/origami/data"
	"verif/harness/sx"
	"verif/symx"
)

// H_eq_laws: the coherence laws of ==, !=, ===, !== on EVERY pair of scalar kinds
// (int, float, bool, string, null), not only same-kind and int/float pairs:
// == symmetric, != complements ==, !== complements ===, === implies ==, === symmetric.
// Recorded finding C03-eq-asymmetric-mixed-kinds: == / != are decided by the kind of the LEFT
// operand, so pairs of different kinds other than int/float can disagree with their mirror.
func H_eq_laws() {
	ka, kb := symx.Choose("ka", 5), symx.Choose("kb", 5)
	conc := ka == 3 || kb == 3 || ka == 1 || kb == 1 // string comparisons format numbers; float formatting is not encoded
	_, a := operand("a", ka, conc)
	_, b := operand("b", kb, conc)
	// outcome per expression: 0 false, 1 true, 2 catchable error
	res := map[string]int{}
	mixed := ka != kb && !((ka == 0 && kb == 1) || (ka == 1 && kb == 0))
	for _, e := range []string{"$a == $b", "$b == $a", "$a != $b", "$b != $a", "$a === $b", "$b === $a", "$a !== $b"} {
		o, threw, ok := eval(e, a, b)
		symx.Assert(ok, "eq-laws: outcome is a value or a catchable error")
		if !ok {
			return
		}
		switch {
		case threw:
			// e.g. 0.5 == "abc": the float-led comparison fails to convert the string (mirror: false)
			symx.AssertKnown(false, "eq-laws: comparison of scalars yields a bool", mixed, "C03-eq-asymmetric-mixed-kinds")
			res[e] = 2
		case o.Kind == 'b' && o.B:
			res[e] = 1
		case o.Kind == 'b':
			res[e] = 0
		default:
			symx.Assert(false, "eq-laws: comparison yields a bool")
			return
		}
	}
	symx.AssertKnown(res["$a == $b"] == res["$b == $a"], "eq-laws: == is symmetric", mixed, "C03-eq-asymmetric-mixed-kinds")
	symx.AssertKnown(res["$a != $b"] == res["$b != $a"], "eq-laws: != is symmetric", mixed, "C03-eq-asymmetric-mixed-kinds")
	symx.Assert(res["$a != $b"] == 2 || res["$a == $b"] == 2 || res["$a != $b"] == 1-res["$a == $b"], "eq-laws: != complements ==")
	symx.Assert(res["$a !== $b"] == 1-res["$a === $b"], "eq-laws: !== complements ===")
	symx.Assert(res["$a === $b"] == res["$b === $a"], "eq-laws: === is symmetric")
	symx.Assert(res["$a === $b"] != 1 || res["$a == $b"] == 1, "eq-laws: === implies ==")
	if ka != kb {
		symx.Assert(res["$a === $b"] == 0, "eq-laws: values of different kinds are never identical")
	}
	symx.Reach("end")
}

// exact integer power with overflow detection (reference)
func refIntPow(base int64, exp int) (int64, bool) {
	neg := base < 0 && exp%2 == 1
	mag := uint64(base)
	if base < 0 {
		mag = uint64(-base) // MinInt64 maps to 2^63, as intended
	}
	acc := uint64(1)
	for i := 0; i < exp; i++ {
		hi, lo := bits.Mul64(acc, mag)
		if hi != 0 {
			return 0, false
		}
		acc = lo
		if acc == 0 || acc == 1 && mag == 1 {
			break
		}
	}
	if neg {
		if acc > 1<<63 {
			return 0, false
		}
		return -int64(acc), true
	}
	if acc > math.MaxInt64 {
		return 0, false
	}
	return int64(acc), true
}

// H_int_pow: int ** non-negative int is the exact integer when it fits in 64 bits and a float
// otherwise (boundary pools: squaring-chain overflow, multiply-step overflow, 2^53 precision).
func H_int_pow() {
	bases := []int{0, 1, -1, 2, -2, 3, -3, 7, 10, -10, 3037000499, 3037000500, -3037000500, 2097152, 9223372036854775807, -9223372036854775808}
	exps := []int{0, 1, 2, 3, 4, 21, 31, 32, 39, 40, 41, 62, 63, 64, 65, 100}
	b := bases[symx.Choose("base", len(bases))]
	e := exps[symx.Choose("exp", len(exps))]
	o, threw, ok := eval("$a ** $b", sx.Int(b), sx.Int(e))
	symx.Assert(ok && !threw, "int-pow: yields a value")
	if !ok || threw {
		return
	}
	want, fits := refIntPow(int64(b), e)
	if fits {
		symx.Assert(o.Kind == 'i', "int-pow: a result that fits in 64 bits is an int")
		if o.Kind == 'i' {
			symx.Assert(o.I == int(want), "int-pow: exact integer result")
		}
	} else {
		symx.Assert(o.Kind == 'f', "int-pow: a result that does not fit is a float")
		if o.Kind == 'f' {
			symx.Assert(symx.SameFloat(o.F, math.Pow(float64(b), float64(e))), "int-pow: float result")
		}
	}
	symx.Reach("end")
}

var _ data.Value

// H_cmp_numeric_strings: pairs of strings that LOOK numeric. What order the language gives them is
// outside the documented domain (no reference value is asserted), but the coherence laws hold for
// them as for every pair: ==/!= and ===/!== are complements, == is symmetric, and <=> agrees with
// < and > (one comparison rule, whichever operator is used).
func H_cmp_numeric_strings() {
	pool := []string{"10", "9", "-1", "-2", "1e3", "1000", "0", "00", "1.0", "1", " 1", "0x10", "abc", ""}
	a, b := pool[symx.Choose("a", len(pool))], pool[symx.Choose("b", len(pool))]
	cmpAll(sx.Str(a), sx.Str(b), false, a == b, false, false, "numeric-string-")
	symx.Reach("end")
}

// H_cmp_literal (L4/L5, seed C03h): one operand is an integer LITERAL in the source, the
// other a variable holding a symbolic int or float. The parser fuses `$var <op> IntLiteral`
// into dedicated nodes (node/fused_assign.go), a different evaluation path from `$a op $b`;
// every comparison operator in both operand orders must agree with the numeric reference.
func H_cmp_literal() {
	lits := []int{0, 3, -2}
	L := lits[symx.Choose("lit", len(lits))]
	ls := "3"
	if L == 0 {
		ls = "0"
	} else if L == -2 {
		ls = "-2"
	}
	var a data.Value
	var lt, eq, gt bool
	if symx.Choose("kind", 2) == 0 {
		x := symx.Int("a")
		a, lt, eq, gt = sx.Int(x), x < L, x == L, x > L
	} else {
		x := symx.Float64("f")
		symx.Assume(x == x)
		fl := float64(L)
		a, lt, eq, gt = sx.Float(x), x < fl, x == fl, x > fl
	}
	want := map[string]bool{"==": eq, "!=": !eq, "<": lt, "<=": lt || eq, ">": gt, ">=": gt || eq}
	flip := map[string]string{"==": "==", "!=": "!=", "<": ">", "<=": ">=", ">": "<", ">=": "<="}
	for _, op := range []string{"==", "!=", "<", "<=", ">", ">="} {
		for side := 0; side < 2; side++ {
			expr := "$a " + op + " " + ls
			if side == 1 {
				expr = ls + " " + flip[op] + " $a"
			}
			o, threw, ok := eval(expr, a, sx.Int(0))
			symx.Assert(ok && !threw && o.Kind == 'b', "literal-cmp-yields-bool")
			if !ok || threw || o.Kind != 'b' {
				return
			}
			symx.Assert(o.B == want[op], "literal-cmp-reference "+expr)
		}
	}
	s, threw, ok := eval("$a <=> "+ls, a, sx.Int(0))
	symx.Assert(ok && !threw && s.Kind == 'i', "literal-spaceship-yields-int")
	if ok && !threw && s.Kind == 'i' {
		symx.Assert((s.I == -1) == lt && (s.I == 1) == gt, "literal-spaceship-reference")
	}
	symx.Reach("end")
}
