// Package c03: scalar operators and truthiness (DESIGN.md §4 C03, laws B.2).
package c03

import (
	"github.com/php-any/origami/data"
	"github.com/php-any/origami/std"
	"verif/harness/sx"
	"verif/symx"
)

// eval runs `emit(<expr>);` with $a,$b bound; returns the observation, or
// threw=true when the script ended with a catchable Throwable.
func eval(expr string, a, b data.Value) (o sx.Obs, threw bool, ok bool) {
	s := sx.Compile("emit(" + expr + ");")
	if s.Err != nil {
		return sx.Obs{}, false, false
	}
	_, ctl := s.Run(sx.Bind{Name: "a", V: a}, sx.Bind{Name: "b", V: b})
	if ctl != nil {
		return sx.Obs{}, sx.IsThrow(ctl), sx.IsThrow(ctl)
	}
	if len(sx.Log) == 0 {
		return sx.Obs{}, false, false
	}
	return sx.Log[0], false, true
}

var intOps = []string{"+", "-", "*", "&", "|", "^"}

// H_int_arith (L1): int op int is the wrapping 64-bit result, type int.
func H_int_arith() {
	a, b := symx.Int("a"), symx.Int("b")
	k := symx.Choose("op", len(intOps))
	o, threw, ok := eval("$a "+intOps[k]+" $b", sx.Int(a), sx.Int(b))
	symx.Assert(ok && !threw, "int-op-yields-value")
	if !ok || threw {
		return
	}
	var want int
	switch k {
	case 0:
		want = a + b
	case 1:
		want = a - b
	case 2:
		want = a * b
	case 3:
		want = a & b
	case 4:
		want = a | b
	case 5:
		want = a ^ b
	}
	symx.Assert(o.Kind == 'i', "int-op-type-int")
	symx.Assert(o.I == want, "int-op-wrapping-64bit")
	symx.Reach("end")
}

// H_int_unary: -x, ~x
func H_int_unary() {
	a := symx.Int("a")
	k := symx.Choose("op", 2)
	expr := []string{"-$a", "~$a"}[k]
	o, threw, ok := eval(expr, sx.Int(a), sx.Null())
	symx.Assert(ok && !threw, "unary-yields-value")
	if !ok || threw {
		return
	}
	want := -a
	if k == 1 {
		want = ^a
	}
	symx.Assert(o.Kind == 'i' && o.I == want, "unary-int-result")
	symx.Reach("end")
}

// H_int_div (L2): '/' is always float, by zero a catchable error; '%' by zero a catchable error.
func H_int_div() {
	a, b := symx.Int("a"), symx.Int("b")
	k := symx.Choose("op", 2)
	o, threw, ok := eval([]string{"$a / $b", "$a % $b"}[k], sx.Int(a), sx.Int(b))
	symx.Assert(ok, "div-value-or-catchable")
	if !ok {
		return
	}
	if b == 0 {
		symx.Assert(threw, "div-by-zero-throws")
		symx.Reach("zero")
		return
	}
	symx.Assert(!threw, "div-nonzero-no-throw")
	if threw {
		return
	}
	if k == 0 {
		symx.Assert(o.Kind == 'f', "slash-always-float")
		if o.Kind == 'f' {
			symx.Assert(symx.SameFloat(o.F, float64(a)/float64(b)), "slash-value")
		}
	} else {
		symx.Assert(o.Kind == 'i' && o.I == a%b, "rem-value")
	}
	symx.Reach("end")
}

// H_float_arith: float op float is IEEE double.
func H_float_arith() {
	a, b := symx.Float64("a"), symx.Float64("b")
	k := symx.Choose("op", 4)
	o, threw, ok := eval([]string{"$a + $b", "$a - $b", "$a * $b", "$a / $b"}[k], sx.Float(a), sx.Float(b))
	symx.Assert(ok, "float-op-value-or-catchable")
	if !ok {
		return
	}
	if k == 3 && b == 0 {
		symx.Assert(threw, "float-div-by-zero-throws")
		return
	}
	symx.Assert(!threw, "float-op-no-throw")
	if threw {
		return
	}
	var want float64
	switch k {
	case 0:
		want = a + b
	case 1:
		want = a - b
	case 2:
		want = a * b
	case 3:
		want = a / b
	}
	symx.Assert(o.Kind == 'f', "float-op-type-float")
	if o.Kind == 'f' {
		symx.Assert(symx.SameFloat(o.F, want), "float-op-ieee")
	}
	symx.Reach("end")
}

// H_float_rem: float % float — by zero (after int conversion) catchable, never a crash.
func H_float_rem() {
	a, b := symx.Float64("a"), symx.Float64("b")
	_, _, ok := eval("$a % $b", sx.Float(a), sx.Float(b))
	symx.Assert(ok, "float-rem-value-or-catchable")
	symx.Reach("end")
}

// H_mixed_arith: int op float promotes to float.
func H_mixed_arith() {
	a, b := symx.Int("a"), symx.Float64("b")
	k := symx.Choose("op", 3)
	swap := symx.Choose("swap", 2)
	var o sx.Obs
	var threw, ok bool
	ops := []string{"+", "-", "*"}
	if swap == 0 {
		o, threw, ok = eval("$a "+ops[k]+" $b", sx.Int(a), sx.Float(b))
	} else {
		o, threw, ok = eval("$b "+ops[k]+" $a", sx.Int(a), sx.Float(b))
	}
	symx.Assert(ok && !threw, "mixed-op-yields-value")
	if !ok || threw {
		return
	}
	x, y := float64(a), b
	if swap == 1 {
		x, y = b, float64(a)
	}
	var want float64
	switch k {
	case 0:
		want = x + y
	case 1:
		want = x - y
	case 2:
		want = x * y
	}
	symx.Assert(o.Kind == 'f', "mixed-op-type-float")
	if o.Kind == 'f' {
		symx.Assert(symx.SameFloat(o.F, want), "mixed-op-ieee")
	}
	symx.Reach("end")
}

// H_shift (L3): count in [0,63] is the Go shift; any other count is a value or a catchable error.
func H_shift() {
	a, n := symx.Int("a"), symx.Int("n")
	k := symx.Choose("op", 2)
	o, threw, ok := eval([]string{"$a << $b", "$a >> $b"}[k], sx.Int(a), sx.Int(n))
	symx.Assert(ok, "shift-value-or-catchable")
	if !ok {
		return
	}
	if n >= 0 && n <= 63 {
		symx.Assert(!threw, "shift-in-range-no-throw")
		if threw {
			return
		}
		want := a << uint(n)
		if k == 1 {
			want = a >> uint(n)
		}
		symx.Assert(o.Kind == 'i' && o.I == want, "shift-in-range-value")
	}
	symx.Reach("end")
}

func truthObs(o sx.Obs) (bool, bool) {
	switch o.Kind {
	case 'b':
		return o.B, true
	case 'i':
		return o.I != 0, true
	}
	return false, false
}

// cmpAll evaluates all comparison operators on (a,b) and (b,a) and checks L4/L5.
func cmpAll(a, b data.Value, lt, eq, gt bool, haveOrder bool, tag string) {
	haveEq := true
	res := map[string]bool{}
	for _, op := range []string{"==", "!=", "===", "!==", "<", "<=", ">", ">="} {
		o, threw, ok := eval("$a "+op+" $b", a, b)
		symx.Assert(ok && !threw && o.Kind == 'b', tag+"cmp-yields-bool")
		if !ok || threw || o.Kind != 'b' {
			return
		}
		res[op] = o.B
	}
	o, threw, ok := eval("$b == $a", a, b)
	symx.Assert(ok && !threw && o.Kind == 'b', tag+"cmp-yields-bool")
	if !ok || threw || o.Kind != 'b' {
		return
	}
	symx.Assert(res["=="] == o.B, tag+"eq-symmetric")
	symx.Assert(res["!="] == !res["=="], tag+"ne-complements-eq")
	symx.Assert(res["!=="] == !res["==="], tag+"strict-ne-complements-strict-eq")
	symx.Assert(!res["==="] || res["=="], tag+"strict-eq-implies-eq")
	s, threw, ok := eval("$a <=> $b", a, b)
	symx.Assert(ok && !threw && s.Kind == 'i', tag+"spaceship-yields-int")
	if !ok || threw || s.Kind != 'i' {
		return
	}
	symx.Assert(s.I == -1 || s.I == 0 || s.I == 1, tag+"spaceship-range")
	if haveEq {
		symx.Assert(res["=="] == eq, tag+"eq-reference")
	}
	symx.Assert((s.I == -1) == res["<"], tag+"spaceship-agrees-lt-operator")
	symx.Assert((s.I == 1) == res[">"], tag+"spaceship-agrees-gt-operator")
	if haveOrder {
		symx.Assert(res["<"] == lt, tag+"lt-reference")
		symx.Assert(res[">"] == gt, tag+"gt-reference")
		symx.Assert(res["<="] == (lt || eq), tag+"le-reference")
		symx.Assert(res[">="] == (gt || eq), tag+"ge-reference")
		symx.Assert((s.I == -1) == lt, tag+"spaceship-agrees-lt")
		symx.Assert((s.I == 1) == gt, tag+"spaceship-agrees-gt")
	}
}

func H_cmp_int() {
	a, b := symx.Int("a"), symx.Int("b")
	cmpAll(sx.Int(a), sx.Int(b), a < b, a == b, a > b, true, "int-")
	symx.Reach("end")
}

func H_cmp_float() {
	a, b := symx.Float64("a"), symx.Float64("b")
	symx.Assume(a == a && b == b) // NaN ordering is outside the documented domain
	cmpAll(sx.Float(a), sx.Float(b), a < b, a == b, a > b, true, "float-")
	symx.Reach("end")
}

func H_cmp_mixed() {
	a, b := symx.Int("a"), symx.Float64("b")
	symx.Assume(b == b)
	fa := float64(a)
	cmpAll(sx.Int(a), sx.Float(b), fa < b, fa == b, fa > b, true, "mixed-")
	symx.Reach("end")
}

func H_cmp_bool() {
	a, b := symx.Bool("a"), symx.Bool("b")
	cmpAll(sx.Bool(a), sx.Bool(b), !a && b, a == b, a && !b, false, "bool-") // ordering of bools is not documented: coherence laws + equality only
	symx.Reach("end")
}

func H_cmp_string() {
	n := symx.Param("n", 1)
	m := symx.Param("m", 1)
	a, b := symx.String("a", n), symx.String("b", m)
	// strings that look numeric compare numerically in PHP: outside the documented
	// string/string domain here; restrict to non-digit leading bytes
	for i := 0; i < len(a); i++ {
		symx.Assume(a[i] >= 'A')
	}
	for i := 0; i < len(b); i++ {
		symx.Assume(b[i] >= 'A')
	}
	cmpAll(sx.Str(a), sx.Str(b), a < b, a == b, a > b, true, "string-")
	symx.Reach("end")
}

// truthiness contexts (L6)
var truthCtx = []string{
	"if ($a) { emit(1); } else { emit(0); }",
	"$r = 0; while ($a) { $r = 1; break; } emit($r);",
	"$r = 0; for (;$a;) { $r = 1; break; } emit($r);",
	"emit($a ? 1 : 0);",
	"emit(!$a ? 0 : 1);",
	"emit(($a && true) ? 1 : 0);",
	"emit(($a || false) ? 1 : 0);",
	"emit(!!$a);",
	"emit((bool)$a);",
}

// the cast syntax resolves `(bool)$x` to a call of the function `bool` that package std registers
var stdCasts = []func() data.FuncStmt{func() data.FuncStmt { return std.NewBoolFunction() }}

func truthIn(ctxIdx int, v data.Value) (bool, bool) {
	sx.Builtins = stdCasts
	s := sx.Compile(truthCtx[ctxIdx])
	if s.Err != nil {
		return false, false
	}
	_, ctl := s.Run(sx.Bind{Name: "a", V: v})
	if ctl != nil || len(sx.Log) == 0 {
		return false, false
	}
	return truthObs(sx.Log[0])
}

// checkTruth: every context agrees with the ternary (context independence);
// when haveTable the common value is also compared with the documented table.
func checkTruth(v data.Value, want bool, haveTable bool, tag string) {
	ref, ok := truthIn(3, v)
	symx.Assert(ok, tag+"truthiness-context-evaluates")
	if !ok {
		return
	}
	if haveTable {
		symx.Assert(ref == want, tag+"truthiness-table")
	}
	for k := range truthCtx {
		got, ok := truthIn(k, v)
		symx.Assert(ok, tag+"truthiness-context-evaluates")
		if !ok {
			return
		}
		symx.Assert(got == ref, tag+"truthiness-same-as-ternary-ctx"+string(rune('0'+k)))
	}
}

func H_truth_int() {
	x := symx.Int("x")
	checkTruth(sx.Int(x), x != 0, true, "int-")
	symx.Reach("end")
}

func H_truth_float() {
	f := symx.Float64("f")
	symx.Assume(f == f)
	checkTruth(sx.Float(f), f != 0, true, "float-")
	symx.Reach("end")
}

func H_truth_bool() {
	b := symx.Bool("b")
	checkTruth(sx.Bool(b), b, true, "bool-")
	symx.Reach("end")
}

func H_truth_string() {
	n := symx.Param("n", 1)
	s := symx.String("s", n)
	checkTruth(sx.Str(s), s != "", len(s) != 1, "string-") // "0": PHP says falsy, origami docs are silent: only context independence
	symx.Reach("end")
}

func H_truth_null() {
	checkTruth(sx.Null(), false, true, "null-")
	symx.Reach("end")
}

// ---- L7: no operand combination crashes the interpreter

var allOps = []string{"+", "-", "*", "/", "%", "**", "&", "|", "^", "<<", ">>", "==", "!=", "===", "!==", "<", "<=", ">", ">=", "<=>", "&&", "||", ".", "??"}

// operand builds an operand of the given kind. concrete=true draws numeric
// payloads from a boundary pool instead of a symbolic value (used where the
// evaluator formats the number into a string or calls math.Pow, which the
// engine does not encode).
func operand(name string, kind int, concrete bool) (string, data.Value) {
	switch kind {
	case 0:
		if concrete {
			return "", sx.Int([]int{0, 1, -1, 2, 63, 64, -9223372036854775808, 9223372036854775807}[symx.Choose(name+"ic", 8)])
		}
		return "", sx.Int(symx.Int(name + "i"))
	case 1:
		if concrete {
			return "", sx.Float([]float64{0, -0.0, 0.5, -1.5, 1e308, -1e308, 2}[symx.Choose(name+"fc", 7)])
		}
		return "", sx.Float(symx.Float64(name + "f"))
	case 2:
		return "", sx.Bool(symx.Bool(name + "b"))
	case 3:
		return "", sx.Str([]string{"", "0", "a", "12"}[symx.Choose(name+"s", 4)])
	case 4:
		return "", sx.Null()
	case 5:
		return "$" + name + " = [1, 2];", nil
	default:
		return "class K" + name + " { public $p = 1; } $" + name + " = new K" + name + "();", nil
	}
}

// H_nocrash: every binary operator on every kind pair yields a value or a
// catchable error; a Go panic escaping the evaluator is the violation.
func H_nocrash() {
	k := symx.Choose("op", len(allOps))
	ka, kb := symx.Choose("ka", 7), symx.Choose("kb", 7)
	conc := allOps[k] == "**" || allOps[k] == "." || ka == 3 || kb == 3
	pa, va := operand("a", ka, conc)
	pb, vb := operand("b", kb, conc)
	s := sx.Compile(pa + pb + "emit($a " + allOps[k] + " $b);")
	symx.Assert(s.Err == nil, "template-parses")
	if s.Err != nil {
		return
	}
	var binds []sx.Bind
	if va != nil {
		binds = append(binds, sx.Bind{Name: "a", V: va})
	}
	if vb != nil {
		binds = append(binds, sx.Bind{Name: "b", V: vb})
	}
	_, ctl := s.Run(binds...)
	symx.Assert(ctl == nil || sx.IsThrow(ctl), "outcome-is-value-or-catchable")
	symx.Reach("end")
}

// H_nocrash_unary: ! - ~ and casts on every kind.
func H_nocrash_unary() {
	ops := []string{"!$a", "-$a", "~$a", "!!$a", "-(-$a)"}
	k := symx.Choose("op", len(ops))
	ka := symx.Choose("ka", 7)
	pa, va := operand("a", ka, false)
	s := sx.Compile(pa + "emit(" + ops[k] + ");")
	symx.Assert(s.Err == nil, "template-parses")
	if s.Err != nil {
		return
	}
	var binds []sx.Bind
	if va != nil {
		binds = append(binds, sx.Bind{Name: "a", V: va})
	}
	_, ctl := s.Run(binds...)
	symx.Assert(ctl == nil || sx.IsThrow(ctl), "outcome-is-value-or-catchable")
	symx.Reach("end")
}
