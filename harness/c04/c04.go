// Package c04: expressions parse by the fixed precedence/associativity table
// (DESIGN.md §4 C04). Every operator pair/triple is printed with minimal
// parentheses and fully parenthesised per the table; both are evaluated on
// symbolic operands by the real parser + evaluators and must agree.
package c04

import (
	"github.com/php-any/origami/data"
	"github.com/php-any/origami/node"
	"verif/harness/sx"
	"verif/symx"
)

type op struct {
	sym   string
	level int  // higher binds tighter
	right bool // right associative
	nona  bool // non-associative class (not chained)
	conc  bool // needs concrete operands (evaluator formats numbers / calls math.Pow)
}

// the table of the property statement
var ops = []op{
	{"??", 0, true, false, false},
	{"||", 1, false, false, false}, {"&&", 2, false, false, false},
	{"|", 3, false, false, false}, {"^", 4, false, false, false}, {"&", 5, false, false, false},
	{"==", 6, false, true, false}, {"!=", 6, false, true, false}, {"===", 6, false, true, false}, {"!==", 6, false, true, false},
	{"<", 7, false, true, false}, {"<=", 7, false, true, false}, {">", 7, false, true, false}, {">=", 7, false, true, false}, {"<=>", 7, false, true, false},
	{"<<", 8, false, false, false}, {">>", 8, false, false, false},
	{"+", 9, false, false, false}, {"-", 9, false, false, false},
	{"*", 10, false, false, false}, {"/", 10, false, false, false}, {"%", 10, false, false, false},
	{"**", 12, true, false, true},
}

// firstBindsTighter: in `x A y B z`, does A take y?
func firstBindsTighter(a, b op) bool {
	if a.level != b.level {
		return a.level > b.level
	}
	return !a.right
}

// evalObs runs emit(<expr>) and returns the observation (errKind 'E' for a catchable error).
func evalObs(expr string, binds []sx.Bind) (sx.Obs, bool) {
	s := sx.Compile("emit(" + expr + ");")
	if s.Err != nil {
		return sx.Obs{}, false
	}
	_, ctl := s.Run(binds...)
	if ctl != nil {
		if sx.IsThrow(ctl) {
			return sx.Obs{Kind: 'E'}, true
		}
		return sx.Obs{}, false
	}
	if len(sx.Log) == 0 {
		return sx.Obs{}, false
	}
	return sx.Log[0], true
}

func sameObs(x, y sx.Obs) bool {
	if x.Kind != y.Kind {
		return false
	}
	switch x.Kind {
	case 'i':
		return x.I == y.I
	case 'f':
		return symx.SameFloat(x.F, y.F)
	case 'b':
		return x.B == y.B
	case 's':
		return x.S == y.S
	}
	return true
}

func operands(names []string, concrete bool) []sx.Bind {
	var bs []sx.Bind
	for _, n := range names {
		var v data.Value
		if concrete {
			v = sx.Int([]int{0, 1, 2, 3, -1}[symx.Choose(n+"c", 5)])
		} else {
			v = sx.Int(symx.Int(n))
		}
		bs = append(bs, sx.Bind{Name: n, V: v})
	}
	return bs
}

func check(min, full string, binds []sx.Bind, tag string) {
	known := dotFinding[min]
	om, okm := evalObs(min, binds)
	of, okf := evalObs(full, binds)
	symx.Assert(okm && okf, tag+": both forms parse and evaluate")
	if !okm || !okf {
		return
	}
	symx.AssertKnown(sameObs(om, of), tag+": `"+min+"` == `"+full+"`", known, "C04-dot-after-variable")
	symx.Reach("end")
}

// H_pairs: all ordered pairs of binary operators.
func H_pairs() {
	i, j := symx.Choose("op1", len(ops)), symx.Choose("op2", len(ops))
	a, b := ops[i], ops[j]
	if a.level == b.level && a.nona {
		return // non-associative class: chaining is not defined by the table
	}
	// symbolic x symbolic multiply feeding a divide/remainder is beyond every solver's 60 s cap:
	// pairs drawn from {*, /, %} on both sides use the concrete boundary pool
	heavy := a.level == 10 && b.level == 10
	// a float quotient converted back to an int (shift count, bitwise/remainder operand): FP->BV queries time out
	intOnly := func(o op) bool { return o.level == 3 || o.level == 4 || o.level == 5 || o.level == 8 || o.sym == "%" }
	if (a.sym == "/" && intOnly(b)) || (b.sym == "/" && intOnly(a)) {
		heavy = true
	}
	binds := operands([]string{"a", "b", "c"}, a.conc || b.conc || heavy)
	min := "$a " + a.sym + " $b " + b.sym + " $c"
	var full string
	if firstBindsTighter(a, b) {
		full = "($a " + a.sym + " $b) " + b.sym + " $c"
	} else {
		full = "$a " + a.sym + " ($b " + b.sym + " $c)"
	}
	check(min, full, binds, "pair")
}

// H_triples: all ordered triples (thorough).
func H_triples() {
	// outer positions: one representative operator per precedence level (rep=1, 12 levels) or every
	// operator (rep=0); the middle position always ranges over all 23
	outer := make([]int, 0, len(ops))
	if symx.Param("rep", 1) == 1 {
		seen := map[int]bool{}
		for x, o := range ops {
			if !seen[o.level] {
				seen[o.level] = true
				outer = append(outer, x)
			}
		}
	} else {
		for x := range ops {
			outer = append(outer, x)
		}
	}
	i, j, k := outer[symx.Choose("op1", len(outer))], symx.Choose("op2", len(ops)), outer[symx.Choose("op3", len(outer))]
	a, b, c := ops[i], ops[j], ops[k]
	if (a.level == b.level && a.nona) || (b.level == c.level && b.nona) || (a.level == c.level && a.nona) {
		return
	}
	nmul := 0
	for _, o := range []op{a, b, c} {
		if o.level == 10 {
			nmul++
		}
	}
	hasQuo, hasIntOnly := false, false
	for _, o := range []op{a, b, c} {
		if o.sym == "/" {
			hasQuo = true
		}
		if o.level == 3 || o.level == 4 || o.level == 5 || o.level == 8 || o.sym == "%" {
			hasIntOnly = true
		}
	}
	// `/` yields a float: chains of a symbolic division with comparisons / logic give FP queries the
	// solvers do not settle within their cap; triples with `/` use the concrete operand pool
	binds := operands([]string{"a", "b", "c", "d"}, a.conc || b.conc || c.conc || nmul >= 2 || hasQuo || (hasQuo && hasIntOnly))
	min := "$a " + a.sym + " $b " + b.sym + " $c " + c.sym + " $d"
	// full parenthesisation by precedence climbing over the table
	type tok struct {
		s  string
		op *op
	}
	leaves := []string{"$a", "$b", "$c", "$d"}
	os := []op{a, b, c}
	// reduce: repeatedly combine the operator that binds tightest (leftmost for left-assoc, rightmost for right-assoc)
	for len(os) > 0 {
		best := 0
		for x := 1; x < len(os); x++ {
			if os[x].level > os[best].level || (os[x].level == os[best].level && os[x].right) {
				best = x
			}
		}
		merged := "(" + leaves[best] + " " + os[best].sym + " " + leaves[best+1] + ")"
		leaves = append(append(append([]string{}, leaves[:best]...), merged), leaves[best+2:]...)
		os = append(append([]op{}, os[:best]...), os[best+1:]...)
	}
	check(min, leaves[0], binds, "triple")
}

// H_unary_ternary: unary operators, ternary, ??, assignment against the table.
var special = [][2]string{
	{"-$a ** $b", "-($a ** $b)"},
	{"-$a * $b", "(-$a) * $b"},
	{"-$a + $b", "(-$a) + $b"},
	{"~$a + $b", "(~$a) + $b"},
	{"~$a & $b", "(~$a) & $b"},
	{"!$a == $b", "(!$a) == $b"},
	{"!$a && $b", "(!$a) && $b"},
	{"$a - -$b", "$a - (-$b)"},
	{"$a -1", "$a - 1"},
	{"$a - -1", "$a - (-1)"},
	{"2 ** -1", "2 ** (-1)"},
	{"$a * -$b", "$a * (-$b)"},
	{"$a || $b ? $c : $d", "($a || $b) ? $c : $d"},
	{"$a ? $b : $c + $d", "$a ? $b : ($c + $d)"},
	{"$a + $b ? $c : $d", "($a + $b) ? $c : $d"},
	{"$a ?? $b ? $c : $d", "($a ?? $b) ? $c : $d"},
	{"$a ?? $b ?? $c", "$a ?? ($b ?? $c)"},
	{"$a ?? $b || $c", "$a ?? ($b || $c)"},
	{"$a ?? $b + $c", "$a ?? ($b + $c)"},
	{"$x = $a + $b", "$x = ($a + $b)"},
	{"$x = $y = $a", "$x = ($y = $a)"},
	{"$x = $a ?? $b", "$x = ($a ?? $b)"},
	{"$x = $a ? $b : $c", "$x = ($a ? $b : $c)"},
	{"$x = $a || $b", "$x = ($a || $b)"},
	{"$a . $b + $c", "$a . ($b + $c)"},
	{"$a + $b . $c", "($a + $b) . $c"},
	{"$a . $b * $c", "$a . ($b * $c)"},
	{"$a ?? $b . $c", "$a ?? ($b . $c)"},
	{"$a . $b ?? $c", "($a . $b) ?? $c"},
	{"$a ** $b ** $c", "$a ** ($b ** $c)"},
	{"$a - $b - $c", "($a - $b) - $c"},
	{"$a / $b / $c", "($a / $b) / $c"},
	{"$a % $b % $c", "($a % $b) % $c"},
	{"$a << $b << $c", "($a << $b) << $c"},
	{"$a * $b . $c", "($a * $b) . $c"},
	{"$a - $b . $c", "($a - $b) . $c"},
	{"-$a . $b", "(-$a) . $b"},
	{"$a % $b . $c", "($a % $b) . $c"},
	// chains of ?: group to the right, as they do on the pinned tree and in every C-family
	// language (the table names only the level of ?:; stated as an assumption of the check)
	{"$a ? $b : $c ? $d : 7", "$a ? $b : ($c ? $d : 7)"},
	{"$a ? $b : $c ?: $d", "$a ? $b : ($c ?: $d)"},
	{"$a ?: $b ? $c : $d", "$a ?: ($b ? $c : $d)"},
	{"$a ? $b ? $c : $d : 7", "$a ? ($b ? $c : $d) : 7"},
}

// forms of the recorded finding C04-dot-after-variable: '.' directly after a variable
// operand of a tighter arithmetic operator is taken by the variable (postfix access)
var dotFinding = map[string]bool{"-$a . $b": true, "$a + $b . $c": true, "$a * $b . $c": true, "$a - $b . $c": true, "$a % $b . $c": true}

func H_special() {
	k := symx.Choose("form", len(special))
	f := special[k]
	conc := false
	for i := 0; i+1 < len(f[0]); i++ {
		if (f[0][i] == '*' && f[0][i+1] == '*') || f[0][i] == '.' {
			conc = true
		}
	}
	var names []string
	for _, nm := range []string{"a", "b", "c", "d"} {
		for i := 0; i+1 < len(f[0]); i++ {
			if f[0][i] == '$' && f[0][i+1] == nm[0] {
				names = append(names, nm)
				break
			}
		}
	}
	binds := operands(names, conc)
	check(f[0], f[1], binds, "special")
}

// H_signed_literals: numeric literals written directly after a sign. The lexer fuses
// `-3` / `+3` into one signed-number token; the parser must still give the operators
// around it their table precedence (`$a -3 * $c` is `$a - (3 * $c)`, `-2 ** $b` is
// `-(2 ** $b)`). Shapes: 0 `$a S3 B $c`, 1 `$aS3 B $c` (no blanks), 2 `S2 B $c` (prefix),
// 3 `$a B S2 ** $c` (signed base of a power on the right of B).
func H_signed_literals() {
	shape := symx.Choose("shape", 6)
	sign := []string{"-", "+"}[symx.Choose("sign", 2)]
	j := symx.Choose("op", len(ops))
	b := ops[j]
	heavy := b.level == 10 || b.level == 3 || b.level == 4 || b.level == 5 || b.level == 8
	if shape >= 2 && sign == "+" {
		return // unary plus is not an operator of the table (and not supported by the parser: C01 nil-operand family)
	}
	var min, full string
	names := []string{"a", "c"}
	add := op{sym: sign, level: 9}
	switch shape {
	case 0, 1:
		sp := " "
		if shape == 1 {
			sp = ""
		}
		min = "$a" + sp + sign + "3 " + b.sym + " $c"
		if b.level == 9 && shape == 1 {
			min = "$a" + sign + "3" + b.sym + " $c"
		}
		if firstBindsTighter(add, b) {
			full = "($a " + sign + " 3) " + b.sym + " $c"
		} else {
			full = "$a " + sign + " (3 " + b.sym + " $c)"
		}
	case 2:
		names = []string{"c"}
		min = sign + "2 " + b.sym + " $c"
		if b.sym == "**" && sign == "-" {
			full = "-(2 ** $c)"
		} else if b.sym == "**" {
			full = "(2 ** $c)" // unary plus is not an operator of the table: `+2` is only a literal spelling
		} else {
			full = "(" + sign + "2) " + b.sym + " $c"
		}
	case 4:
		// the sign and the literal separated by a blank / a comment (two tokens, not a fused literal)
		names = []string{"c"}
		min = sign + " 2 " + b.sym + " $c"
		if b.sym == "**" {
			full = "-(2 ** $c)"
		} else {
			full = "(-2) " + b.sym + " $c"
		}
	case 5:
		if b.sym == "**" {
			return
		}
		heavy = true
		min = "$a " + b.sym + " " + sign + " /* c */ 2 ** $c"
		full = "$a " + b.sym + " (-(2 ** $c))"
	case 3:
		if b.sym == "**" {
			return
		}
		heavy = true
		min = "$a " + b.sym + " " + sign + "2 ** $c"
		if sign == "-" {
			full = "$a " + b.sym + " (-(2 ** $c))"
		} else {
			full = "$a " + b.sym + " (2 ** $c)"
		}
	}
	binds := operands(names, b.conc || heavy || shape == 3 || shape == 5 || ((shape == 2 || shape == 4) && b.sym == "**"))
	check(min, full, binds, "signed-literal")
}

// castFn: cast functions as registered by package std under the names the cast syntax
// resolves at parse time ((bool)$x is a call of `bool`). Package std itself is not imported
// (it drags the database drivers into the SSA program); what the property constrains is the
// parse tree, which comes from the real parser.
type castFn struct{ name string }

func (f *castFn) Call(ctx data.Context) (data.GetValue, data.Control) {
	v, _ := ctx.GetIndexValue(0)
	switch f.name {
	case "bool":
		if b, ok := v.(data.AsBool); ok {
			r, _ := b.AsBool()
			return data.NewBoolValue(r), nil
		}
	case "int":
		if b, ok := v.(data.AsInt); ok {
			r, _ := b.AsInt()
			return data.NewIntValue(r), nil
		}
	}
	return v, nil
}
func (f *castFn) GetName() string { return f.name }
func (f *castFn) GetParams() []data.GetValue {
	return []data.GetValue{node.NewParameter(nil, "value", 0, nil, nil)}
}
func (f *castFn) GetVariables() []data.Variable {
	return []data.Variable{node.NewVariable(nil, "value", 0, nil)}
}

// H_casts: a cast binds like a unary operator: `(T)$a B $c` is `((T)$a) B $c` for every
// binary operator B (also `$a B (T)$c`, `-(T)$a`, `!(T)$a`, `(T)-$a`, `(T)!$a B $c`).
func H_casts() {
	sx.Builtins = []func() data.FuncStmt{
		func() data.FuncStmt { return &castFn{"bool"} },
		func() data.FuncStmt { return &castFn{"int"} },
	}
	cast := []string{"(bool)", "(int)"}[symx.Choose("cast", 2)]
	shape := symx.Choose("shape", 5)
	j := symx.Choose("op", len(ops))
	b := ops[j]
	heavy := b.level == 10 || b.level == 3 || b.level == 4 || b.level == 5 || b.level == 8
	var min, full string
	switch shape {
	case 0:
		min = cast + "$a " + b.sym + " $c"
		full = "(" + cast + "$a) " + b.sym + " $c"
		if b.sym == "**" { // ** is above the casts
			full = cast + "($a ** $c)"
		}
	case 1:
		min = "$a " + b.sym + " " + cast + "$c"
		full = "$a " + b.sym + " (" + cast + "$c)"
	case 2:
		min = "-" + cast + "$a " + b.sym + " $c"
		full = "(-(" + cast + "$a)) " + b.sym + " $c"
		if b.sym == "**" {
			full = "-(" + cast + "($a ** $c))"
		}
	case 3:
		min = cast + "-$a " + b.sym + " $c"
		full = "(" + cast + "(-$a)) " + b.sym + " $c"
		if b.sym == "**" {
			full = cast + "(-($a ** $c))"
		}
	case 4:
		min = "!" + cast + "$a " + b.sym + " $c"
		full = "(!(" + cast + "$a)) " + b.sym + " $c"
		if b.sym == "**" {
			full = "!(" + cast + "($a ** $c))"
		}
	}
	// int + bool is a string concatenation in this language ("10true"): formatted symbolic numbers are opaque
	concat := shape == 1 && b.sym == "+"
	binds := operands([]string{"a", "c"}, b.conc || heavy || concat)
	check(min, full, binds, "cast")
}

// H_prefix_chains: runs of prefix operators apply innermost-first from the operand outwards
// (`-~$a` is `-(~$a)`), alone, in front of every binary operator and as its right operand.
func H_prefix_chains() {
	pre := []string{"-", "!", "~"}
	p1, p2 := pre[symx.Choose("p1", 3)], pre[symx.Choose("p2", 3)]
	shape := symx.Choose("shape", 4)
	var min, full string
	names := []string{"a"}
	heavy := false
	chain := p1 + p2 + "$a"
	if p1 == "-" && p2 == "-" {
		chain = "- -$a" // `--$a` is the decrement operator
	}
	paren := p1 + "(" + p2 + "$a)"
	switch shape {
	case 0:
		min, full = chain, paren
	case 1:
		p3 := pre[symx.Choose("p3", 3)]
		min, full = p3+" "+chain, p3+"("+paren+")"
	case 2:
		b := ops[symx.Choose("op", len(ops))]
		if b.sym == "**" {
			return // `-~$a ** $c`: ** binds tighter than the prefixes, covered by H_special / H_casts
		}
		heavy = b.level == 10 || b.level == 3 || b.level == 4 || b.level == 5 || b.level == 8
		names = []string{"a", "c"}
		min, full = chain+" "+b.sym+" $c", "("+paren+") "+b.sym+" $c"
	case 3:
		b := ops[symx.Choose("op", len(ops))]
		if b.sym == "**" || b.sym == "-" && p1 == "-" {
			return
		}
		heavy = b.level == 10 || b.level == 3 || b.level == 4 || b.level == 5 || b.level == 8
		if b.sym == "+" && p1 == "!" {
			heavy = true // int + bool concatenates ("10true"): formatted symbolic numbers are opaque
		}
		names = []string{"a", "c"}
		min, full = "$c "+b.sym+" "+chain, "$c "+b.sym+" ("+paren+")"
	}
	binds := operands(names, heavy)
	check(min, full, binds, "prefix-chain")
}
