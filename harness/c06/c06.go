// Package c06: arrays are values — a write through one name never shows
// through another unless a reference was taken (DESIGN.md §4 C06).
package c06

import (
	"github.com/php-any/origami/data"
	"github.com/php-any/origami/std"
	"github.com/php-any/origami/std/php/core"
	"verif/harness/sx"
	"verif/symx"
)

// shapes: literal, expression of element 0 for nested store
var shapes = []struct{ lit, key0, nested string }{
	{"[$e0, $e1, 3]", "0", ""},
	{"[\"a\" => $e0, \"b\" => $e1]", "\"a\"", ""},
	{"[[$e0, 2], [$e1]]", "0", "[0]"},
	{"[[], $e0, [$e1]]", "0", "[0]"},       // an EMPTY inner list (writes into it must not be shared either)
	{"listWithKey($e0, $e1)", "\"k\"", ""}, // a list that received a string key after construction
	// associative arrays holding a list and another associative array / a list holding an associative array
	{"[\"k\" => [$e0, 2], \"m\" => [\"p\" => $e1]]", "\"k\"", "[0]"},
	{"[[\"p\" => $e0, \"q\" => 4], $e1]", "0", "[\"p\"]"},
}

// path to a leaf inside a NESTED associative array of the shape ("" = the shape has none)
var assocLeaf = []string{"", "", "", "", "", "[\"m\"][\"p\"]", "[0][\"q\"]"}

// prelude shared by all templates
const prelude = "function listWithKey($x, $y) { $t = [$x, $y, 3]; $t[\"k\"] = 5; return $t; }\n"

// snapshot statements for expression X (emits every leaf + count)
func snap(x string, shape int) string {
	if shape == 2 {
		return "foreach (" + x + " as $row) { foreach ($row as $v) { emit($v); } mark(77); } mark(88);"
	}
	if shape == 5 {
		return "foreach (" + x + "[\"k\"] as $v) { emit($v); } mark(77); emit(" + x + "[\"m\"][\"p\"]); mark(88);"
	}
	if shape == 6 {
		return "emit(" + x + "[0][\"p\"]); emit(" + x + "[0][\"q\"]); mark(77); emit(" + x + "[1]); mark(88);"
	}
	if shape == 3 {
		return "foreach (" + x + "[0] as $v) { emit($v); } mark(77); emit(" + x + "[1]); foreach (" + x + "[2] as $v) { emit($v); } mark(88);"
	}
	return "foreach (" + x + " as $k => $v) { emit($v); } mark(88);"
}

// routes: setup code creating the alias pair; A = original expression, B = copy expression
var routes = []struct{ name, setup, a, b string }{
	{"assign", "$b = $a;", "$a", "$b"},
	{"by-value-param", "function idv($p) { return $p; } $b = idv($a);", "$a", "$b"},
	{"return", "function mk($x0, $x1) { $t = SHAPE; return $t; } $b = mk($e0, $e1); $a2 = $b;", "$a2", "$b"},
	{"into-property", "class K { public $p = null; } $o = new K(); $o->p = $a;", "$a", "$o->p"},
	{"out-of-property", "class K { public $p = null; } $o = new K(); $o->p = $a; $b = $o->p;", "$o->p", "$b"},
	{"into-element", "$c = [$a, 5];", "$a", "$c[0]"},
	{"out-of-element", "$c = [$a, 5]; $b = $c[0];", "$c[0]", "$b"},
	// a getter hands out a stored array: the receiver of `$b = $g->get()` / `$b = getp($g)` is a copy
	{"method-returns-property", "class G { public $items = null; function get() { return $this->items; } } $g = new G(); $g->items = $a; $b = $g->get();", "$g->items", "$b"},
	{"function-returns-property", "class G2 { public $items = null; } function getp($o) { return $o->items; } $g2 = new G2(); $g2->items = $a; $b = getp($g2);", "$g2->items", "$b"},
	{"static-method-returns-static", "class G3 { public static $s = null; static function get() { return G3::$s; } } G3::$s = $a; $b = G3::get();", "G3::$s", "$b"},
	// static properties and static locals hold values too
	{"into-static-property", "class KS { public static $p = null; } KS::$p = $a;", "$a", "KS::$p"},
	{"out-of-static-property", "class KS { public static $p = null; } KS::$p = $a; $b = KS::$p;", "KS::$p", "$b"},
	{"through-static-local", "function sl($x) { static $s = null; if ($x !== null) { $s = $x; } return $s; } sl($a); $b = sl(null); $a2 = sl(null);", "$a2", "$b"},
	// stores into another array by append and by string key
	{"appended-into-array", "$c = []; $c[] = $a;", "$a", "$c[0]"},
	{"string-key-into-array", "$c = [0]; $c[\"x\"] = $a;", "$a", "$c[\"x\"]"},
	{"int-key-into-array", "$c = [0, 1]; $c[1] = $a;", "$a", "$c[1]"},
}

// mutations of expression X
func mutation(m int, x string, key0, nested string, shape int) (string, bool) {
	switch m {
	case 12: // a leaf inside a nested associative array
		if assocLeaf[shape] == "" {
			return "", false
		}
		return x + assocLeaf[shape] + " = $w;", true
	case 13: // a reference taken on a slot of X, then written through
		if nested != "" && shape != 6 {
			return "", false
		}
		k := key0
		if shape == 6 {
			k = "1"
		}
		return "$rf = &" + x + "[" + k + "]; $rf = $w;", true
	case 14: // removing the last / a string-keyed element
		if shape == 0 {
			return "unset(" + x + "[2]);", true
		}
		if shape == 5 {
			return "unset(" + x + "[\"m\"][\"p\"]);", true
		}
		return "", false
	case 0:
		return x + "[" + key0 + "] = $w;", true
	case 1:
		return x + "[] = $w;", true
	case 2:
		if nested == "" {
			return "", false
		}
		return x + "[" + key0 + "]" + nested + " = $w;", true
	case 3:
		return "unset(" + x + "[" + key0 + "]);", true
	case 4:
		return x + "->push($w);", true
	case 5:
		return x + "->pop();", true
	case 6:
		return x + "->sort();", true
	case 7:
		if nested != "" {
			return "", false
		}
		return x + "[" + key0 + "]++;", true
	case 8:
		return x + "->reverse();", true
	case 9:
		return x + "->shift();", true
	case 10:
		if nested == "" {
			return "", false
		}
		return x + "[" + key0 + "][] = $w;", true
	case 11:
		if nested == "" {
			return "", false
		}
		return x + "[" + key0 + "]->push($w);", true
	}
	return "", false
}

const nMut = 15

func logInts() ([]int, bool) {
	var out []int
	for _, o := range sx.Log {
		switch o.Kind {
		case 'i':
			out = append(out, o.I)
		case 'M':
			out = append(out, 100000+o.I)
		case 'n':
			out = append(out, -777777)
		default:
			return nil, false
		}
	}
	return out, true
}

// H_alias: for every (shape, route, mutation, direction): the other name's snapshot is unchanged.
func H_alias() {
	sh := symx.Choose("shape", len(shapes))
	r := symx.Choose("route", len(routes))
	m := symx.Choose("mut", nMut)
	dir := symx.Choose("dir", 2) // 0: mutate the copy, observe the original; 1: the reverse
	var e0, e1, w int
	if m == 6 {
		// sort() compares elements through their string form (number formatting is not encoded): concrete pool
		pool := []int{1, 5, 3, -2}
		e0, e1, w = pool[symx.Choose("e0c", 4)], pool[symx.Choose("e1c", 4)], 7
	} else {
		e0, e1, w = symx.Int("e0"), symx.Int("e1"), symx.Int("w")
	}
	S, R := shapes[sh], routes[r]
	mutated, observed := R.b, R.a
	if dir == 1 {
		mutated, observed = R.a, R.b
	}
	mut, ok := mutation(m, mutated, S.key0, S.nested, sh)
	if !ok {
		return
	}
	setup := R.setup
	if r == 2 {
		// the literal is built inside the function from its own parameters
		lit := S.lit
		setup = "function mk($e0, $e1) { $t = " + lit + "; return $t; } $b = mk($e0, $e1); $a2 = $b;"
	}
	src := prelude + "$a = " + S.lit + ";\n" + setup + "\n" + snap(observed, sh) + "\nmark(1);\n" + mut + "\nmark(2);\n" + snap(observed, sh)
	s := sx.Compile(src)
	symx.Assert(s.Err == nil, "template parses")
	if s.Err != nil {
		return
	}
	_, ctl := s.Run(sx.Bind{Name: "e0", V: sx.Int(e0)}, sx.Bind{Name: "e1", V: sx.Int(e1)}, sx.Bind{Name: "w", V: sx.Int(w)})
	if ctl != nil {
		// the mutation itself may be a catchable error (e.g. sort of a string-keyed map); then nothing was written
		symx.Reach("mutation-rejected")
		return
	}
	tr, ok := logInts()
	symx.Assert(ok, "snapshot is ints")
	if !ok {
		return
	}
	// split at mark(1) / mark(2) (markers are identified by kind, never by value:
	// element values are symbolic and could equal any marker encoding)
	i1, i2 := -1, -1
	for i, o := range sx.Log {
		if o.Kind == 'M' && o.I == 1 {
			i1 = i
		}
		if o.Kind == 'M' && o.I == 2 {
			i2 = i
		}
	}
	symx.Assert(i1 >= 0 && i2 > i1, "both snapshots taken")
	if !(i1 >= 0 && i2 > i1) {
		return
	}
	before, after := tr[:i1], tr[i2+1:]
	kb, ka := sx.Log[:i1], sx.Log[i2+1:]
	label := "alias shape" + string(rune('0'+sh)) + " " + R.name + " / " + mut + " leaves " + observed + " unchanged"
	symx.Assert(len(before) == len(after), label)
	if len(before) != len(after) {
		return
	}
	for i := range before {
		symx.Assert(kb[i].Kind == ka[i].Kind && before[i] == after[i], label)
	}
	symx.Reach("end")
}

// H_reference: with an explicit & the write IS visible; objects are handles; clone is independent.
func H_reference() {
	w := symx.Int("w")
	k := symx.Choose("case", 9)
	// `(object)` resolves to the function `object` of package std; stdClass is the class std registers
	sx.Builtins = []func() data.FuncStmt{func() data.FuncStmt { return std.NewObjectFunction() }}
	sx.Classes = []func() data.ClassStmt{func() data.ClassStmt { return &core.StdClass{} }}
	srcs := []string{
		"class K { public $n = [\"k\" => [1, 2], \"m\" => [\"p\" => 1]]; } $o = new K(); $q = clone $o; $q->n[\"k\"][0] = $w; $q->n[\"m\"][\"p\"] = $w; emit($o->n[\"k\"][0]); emit($o->n[\"m\"][\"p\"]);",
		"$a = [1, 2]; $b = &$a; $b[0] = $w; emit($a[0]);",
		"class K { public $p = 1; } $o = new K(); $q = $o; $q->p = $w; emit($o->p);",
		"class K { public $p = 1; public $arr = [1, 2]; } $o = new K(); $q = clone $o; $q->p = $w; $q->arr[0] = $w; emit($o->p); emit($o->arr[0]);",
		"$o = new stdClass(); $o->p = 1; $q = $o; $q->p = $w; emit($o->p);",
		"class K { public $p = 1; } function wr($x, $w) { $x->p = $w; return 1; } $o = new K(); wr($o, $w); emit($o->p);",
		"class K { public $p = 1; } class H2 { public $h = null; public static $sh = null; } $o = new K(); $k = new H2(); $k->h = $o; H2::$sh = $o; $arr = [$o, \"x\" => $o]; $k->h->p = $w; emit($o->p); emit($arr[0]->p); emit($arr[\"x\"]->p); emit(H2::$sh->p);",
		"class K { public $p = 1; } $o = new K(); $f = function($x) { return $x; }; $q = $f($o); $rows = [$o]; foreach ($rows as $r) { $r->p = $w; } emit($o->p); emit($q->p);",
		"$o = (object)[\"p\" => 1]; $q = $o; $q->p = $w; emit($o->p);",
	}
	s := sx.Compile(srcs[k])
	symx.Assert(s.Err == nil, "template parses")
	if s.Err != nil {
		return
	}
	_, ctl := s.Run(sx.Bind{Name: "w", V: sx.Int(w)})
	symx.Assert(ctl == nil, "runs")
	if ctl != nil {
		return
	}
	tr, ok := logInts()
	symx.Assert(ok, "ints")
	if !ok {
		return
	}
	switch k {
	case 0:
		symx.Assert(len(tr) == 2 && tr[0] == 1 && tr[1] == 1, "clone is independent (nested associative arrays of its properties too)")
	case 1:
		symx.Assert(len(tr) == 1 && tr[0] == w, "write through & reference is visible")
	case 2:
		symx.Assert(len(tr) == 1 && tr[0] == w, "objects are shared by handle")
	case 3:
		symx.Assert(len(tr) == 2 && tr[0] == 1 && tr[1] == 1, "clone is independent (own properties incl. arrays)")
	case 4, 5:
		symx.Assert(len(tr) == 1 && tr[0] == w, "objects are shared by handle (stdClass / by-value parameter)")
	case 6:
		symx.Assert(len(tr) == 4 && tr[0] == w && tr[1] == w && tr[2] == w && tr[3] == w, "objects are shared by handle (stored in a property, a static property, a list, a string key)")
	case 7:
		symx.Assert(len(tr) == 2 && tr[0] == w && tr[1] == w, "objects are shared by handle (closure result, foreach value)")
	case 8:
		// (object)[...] and json_decode objects are data.ObjectValue, the representation of associative arrays: copied on assignment
		symx.AssertKnown(len(tr) == 1 && tr[0] == w, "objects are shared by handle ((object) cast)", true, "C06-cast-object-is-a-value")
	}
	symx.Reach("end")
}

// calleeForms: ways an array reaches code that writes to it: the CALLER's array must be unchanged
// afterwards. P is the expression naming the received array inside the callee.
var calleeForms = []struct{ name, decl, call, p, pre, target string }{
	{"parameter", "function cw($p, $w) { MUT return 1; }", "cw($a, $w);", "$p", "", ""},
	{"variadic", "function cw($w, ...$r) { MUT return 1; }", "cw($w, $a);", "$r[0]", "", ""},
	{"variadic-second", "function cw($w, ...$r) { MUT return 1; }", "cw($w, 5, $a);", "$r[1]", "", ""},
	{"spread-call", "function cw($w, ...$r) { MUT return 1; }", "cw($w, ...[$a]);", "$r[0]", "", ""},
	{"default-then-parameter", "function cw($w, $p, $q = [1]) { MUT return 1; }", "cw($w, $a);", "$p", "", ""},
	{"method-parameter", "class CW { function m($p, $w) { MUT return 1; } } $k = new CW();", "$k->m($a, $w);", "$p", "", ""},
	{"static-method-parameter", "class CW { static function m($p, $w) { MUT return 1; } }", "CW::m($a, $w);", "$p", "", ""},
	{"constructor-parameter", "class CW { function __construct($p, $w) { MUT } }", "$k = new CW($a, $w);", "$p", "", ""},
	{"closure-parameter", "$f = function($p, $w) { MUT return 1; };", "$f($a, $w);", "$p", "", ""},
	{"closure-capture", "", "$f = function($w) use ($a) { MUT return 1; }; $f($w);", "$a", "", ""},
	{"arrow-parameter-then-call", "function cw($p, $w) { MUT return 1; } $g = fn($p, $w) => cw($p, $w);", "$g($a, $w);", "$p", "", ""},
	// the loop variable of a by-value foreach over rows holding the array
	// (the array observed is the row inside $rows, which the loop variable must not alias)
	{"foreach-value", "", "foreach ($rows as $row) { MUT }", "$row", "$rows = [$a, $a];", "$rows[1]"},
	{"foreach-value-first", "", "foreach ($rows as $row) { MUT }", "$row", "$rows = [$a, 5];", "$rows[0]"},
	{"foreach-key-value", "", "foreach ($rows as $k => $row) { MUT }", "$row", "$rows = [\"r\" => $a];", "$rows[\"r\"]"},
	{"foreach-mixed", "", "foreach ($rows as $k => $row) { MUT }", "$row", "$rows = [$a, \"t\" => 1];", "$rows[0]"},
}

// H_callee_writes: (shape) x (how the array reaches the callee) x (what the callee does to it).
func H_callee_writes() {
	sh := symx.Choose("shape", len(shapes))
	f := symx.Choose("form", len(calleeForms))
	m := symx.Choose("mut", nMut)
	if m == 6 {
		return // sort() compares through strings: covered with a concrete pool in H_alias
	}
	e0, e1, w := symx.Int("e0"), symx.Int("e1"), symx.Int("w")
	S, F := shapes[sh], calleeForms[f]
	mut, ok := mutation(m, F.p, S.key0, S.nested, sh)
	if !ok {
		return
	}
	decl := replace(F.decl, "MUT", mut)
	call := replace(F.call, "MUT", mut)
	target := F.target
	if target == "" {
		target = "$a"
	}
	src := prelude + decl + "\n$a = " + S.lit + ";\n" + F.pre + "\n" + snap(target, sh) + "\nmark(1);\n" + call + "\nmark(2);\n" + snap(target, sh)
	s := sx.Compile(src)
	symx.Assert(s.Err == nil, "template parses")
	if s.Err != nil {
		return
	}
	_, ctl := s.Run(sx.Bind{Name: "e0", V: sx.Int(e0)}, sx.Bind{Name: "e1", V: sx.Int(e1)}, sx.Bind{Name: "w", V: sx.Int(w)})
	if ctl != nil {
		symx.Reach("mutation-rejected")
		return
	}
	tr, ok := logInts()
	symx.Assert(ok, "snapshot is ints")
	if !ok {
		return
	}
	i1, i2 := -1, -1
	for i, o := range sx.Log {
		if o.Kind == 'M' && o.I == 1 {
			i1 = i
		}
		if o.Kind == 'M' && o.I == 2 {
			i2 = i
		}
	}
	symx.Assert(i1 >= 0 && i2 > i1, "both snapshots taken")
	if !(i1 >= 0 && i2 > i1) {
		return
	}
	before, after := tr[:i1], tr[i2+1:]
	kb, ka := sx.Log[:i1], sx.Log[i2+1:]
	label := "callee shape" + string(rune('0'+sh)) + " " + F.name + " / " + mut + " leaves the caller's $a unchanged"
	symx.Assert(len(before) == len(after), label)
	if len(before) != len(after) {
		return
	}
	for i := range before {
		symx.Assert(kb[i].Kind == ka[i].Kind && before[i] == after[i], label)
	}
	symx.Reach("end")
}

func replace(s, old, new string) string {
	for i := 0; i+len(old) <= len(s); i++ {
		if s[i:i+len(old)] == old {
			return s[:i] + new + s[i+len(old):]
		}
	}
	return s
}
