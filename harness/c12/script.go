package c12

// Script-level definitions on a temporary VM: whatever a request's script does to define classes,
// interfaces or functions (declarations, include of a file, eval of code), the base VM and every
// other temporary VM resolve exactly what they resolved before.

import (
	"github.com/php-any/origami/data"
	"github.com/php-any/origami/parser"
	"github.com/php-any/origami/runtime"
	"github.com/php-any/origami/std/php"
	"verif/symx"
)

var scriptNames = []string{"InA", "inf", "InI", "LibC", "libf", "EvA", "evf"}

type sview struct {
	cls, fun, itf [7]bool
}

func ssnapshot(vm data.VM) (v sview) {
	for i, n := range scriptNames {
		_, v.cls[i] = vm.GetClass(n)
		_, v.fun[i] = vm.GetFunc(n)
		_, v.itf[i] = vm.GetInterface(n)
	}
	return
}

// H_script: one script on temporary VM 1 (with or without an earlier script on temporary VM 2).
func H_script() {
	what := symx.Choose("script", 7)
	twice := symx.Choose("other_first", 2) // the same script ran on the other temporary VM before
	defer symx.VCleanup()
	symx.VReset()
	root := symx.VRoot()
	symx.VFile(root+"/lib.php", "<?php\nfunction libf() { return 5; }\nclass LibC { public $v = 3; }\nreturn 7;\n")
	scripts := []string{
		"class InA { public $v = 1; } $o = new InA(); $r = $o->v;",
		"function inf() { return 2; } $r = inf();",
		"interface InI { } class InA implements InI { } $o = new InA(); $r = $o instanceof InI;",
		"$r = include \"" + root + "/lib.php\"; $o = new LibC(); $r = $r + libf() + $o->v;",
		"$r = require_once \"" + root + "/lib.php\"; $r = libf();",
		"eval('class EvA { public $v = 4; }'); $o = new EvA(); $r = $o->v;",
		"eval('function evf() { return 6; }'); $r = evf();",
	}
	bp := parser.NewParser()
	base := runtime.NewVM(bp)
	base.SetThrowControl(func(acl data.Control) {})
	base.AddFunc(php.NewEvalFunction())
	data.WriteOutput = func(string) {}
	t1 := runtime.NewTempVM(base).(*runtime.TempVM)
	t2 := runtime.NewTempVM(base).(*runtime.TempVM)
	run := func(t *runtime.TempVM) bool {
		p := t.PrepareParse(bp)
		prog, ctl := p.ParseString(scripts[what], "req.zy")
		if ctl != nil || prog == nil {
			return false
		}
		_, rctl := prog.GetValue(t.CreateContext(p.GetVariables()))
		return rctl == nil
	}
	firstOK := true
	if twice == 1 {
		firstOK = run(t2)
	}
	b0, b1 := ssnapshot(base), ssnapshot(t1)
	ok := run(t1)
	// a request may be refused a facility (eval is not available on every VM kind), but it is refused
	// the same way whether or not another request used it before
	if twice == 1 {
		symx.Assert(ok == firstOK, "a script succeeds on one temporary VM iff the same script succeeded on another before")
	}
	symx.Assert(ssnapshot(base) == b0, "script on a temporary VM defines nothing on the base VM")
	_ = b1
	// a third temporary VM created afterwards sees the base only
	t3 := runtime.NewTempVM(base)
	symx.Assert(ssnapshot(t3) == b0, "a temporary VM created later resolves exactly what the base resolves")
	if twice == 0 {
		symx.Assert(ssnapshot(t2) == b0, "script on one temporary VM defines nothing on another temporary VM")
	}
	if what < 5 {
		symx.Assert(ok, "declarations and includes work on a temporary VM")
	}
	symx.Reach("end")
}

// H_base_code: code that belongs to the base VM (functions defined at start-up) and names a class
// or function that only the requests define: each request must get ITS definition, not the one a
// previous request's temporary VM supplied.
func H_base_code() {
	what := symx.Choose("kind", 4)
	w1, w2 := 1, 2 // the definitions of each request carry its own constant
	bp := parser.NewParser()
	base := runtime.NewVM(bp)
	base.SetThrowControl(func(acl data.Control) {})
	data.WriteOutput = func(string) {}
	boot := []string{
		"function mk() { return new InA(); }",
		"function callf($x) { return inf($x); }",
		"function st() { return InA::make(); }",
		"function chk($o) { return $o instanceof InA; }",
	}[what]
	prog, ctl := bp.ParseString(boot, "boot.zy")
	symx.Assert(ctl == nil && prog != nil, "boot script parses")
	if ctl != nil || prog == nil {
		return
	}
	if _, c := prog.GetValue(base.CreateContext(bp.GetVariables())); c != nil {
		symx.Assert(false, "boot script runs")
		return
	}
	req := func(t *runtime.TempVM, w int) (int, bool) {
		p := t.PrepareParse(bp)
		src := []string{
			"class InA { public $v = " + string(rune('0'+w)) + "; } $o = mk(); $r = $o->v;",
			"function inf($x) { return $x + " + string(rune('0'+w)) + "; } $r = callf(0);",
			"class InA { static function make() { return " + string(rune('0'+w)) + "; } } $r = st();",
			"class InA { } class InB { } $r = 0; if (chk(new InA())) { $r = $r + 1; } if (chk(new InB())) { $r = $r + 2; }",
		}[what]
		prog, ctl := p.ParseString(src, "req.zy")
		if ctl != nil || prog == nil {
			return 0, false
		}
		vars := p.GetVariables()
		ctx := t.CreateContext(vars)
		if _, rctl := prog.GetValue(ctx); rctl != nil {
			return 0, false
		}
		for _, v := range vars {
			if v.GetName() == "r" {
				val, _ := v.GetValue(ctx)
				if iv, ok := val.(*data.IntValue); ok {
					return iv.Value, true
				}
			}
		}
		return 0, false
	}
	t1 := runtime.NewTempVM(base).(*runtime.TempVM)
	r1, ok1 := req(t1, w1)
	t2 := runtime.NewTempVM(base).(*runtime.TempVM)
	r2, ok2 := req(t2, w2)
	symx.Assert(ok1 && ok2, "both requests run")
	if !ok1 || !ok2 {
		return
	}
	if what == 3 {
		symx.Assert(r1 == 1 && r2 == 1, "base code tests each request's object against that request's class")
	} else {
		symx.Assert(r1 == w1, "first request gets its own definition through base code")
		symx.Assert(r2 == w2, "second request gets ITS definition through base code, not the first request's")
	}
	symx.Reach("end")
}

// H_base_after: a request runs on a temporary VM, THEN code runs on the base VM (a later boot
// step, a background job): what that code defines belongs to the base (resolvable through the
// base and through every temporary VM), and what it can see is the base's own definitions only.
func H_base_after() {
	what := symx.Choose("script", 5)
	bp := parser.NewParser()
	base := runtime.NewVM(bp)
	base.SetThrowControl(func(acl data.Control) {})
	data.WriteOutput = func(string) {}
	scripts := []string{
		"class InA { public $v = 1; } $o = new InA(); $r = $o->v;",
		"function inf() { return 2; } $r = inf();",
		"interface InI { } class InA implements InI { const K = 3; public static $s = 4; }",
		"class InA { }",
		"$r = 1;",
	}
	t1 := runtime.NewTempVM(base).(*runtime.TempVM)
	p := t1.PrepareParse(bp)
	prog, ctl := p.ParseString(scripts[what], "req.zy")
	symx.Assert(ctl == nil && prog != nil, "request script parses")
	if ctl != nil || prog == nil {
		return
	}
	if _, rctl := prog.GetValue(t1.CreateContext(p.GetVariables())); rctl != nil {
		symx.Assert(false, "request script runs")
		return
	}
	// now the base VM runs a script of its own
	bp2 := parser.NewParser()
	bp2.SetVM(base)
	bprog, bctl := bp2.ParseString("function basefn() { return 7; }\nclass BaseC { public $v = 8; }\n$seen = 0; try { $o = new InA(); $seen = 1; } catch (Throwable $e) { $seen = 0; }", "job.zy")
	symx.Assert(bctl == nil && bprog != nil, "base script parses")
	if bctl != nil || bprog == nil {
		return
	}
	bvars := bp2.GetVariables()
	bctx := base.CreateContext(bvars)
	_, rctl := bprog.GetValue(bctx)
	symx.Assert(rctl == nil, "base script runs")
	if rctl != nil {
		return
	}
	_, okF := base.GetFunc("basefn")
	_, okC := base.GetClass("BaseC")
	symx.Assert(okF && okC, "what code on the base VM defines is registered on the base VM")
	t2 := runtime.NewTempVM(base)
	_, okF2 := t2.GetFunc("basefn")
	_, okC2 := t2.GetClass("BaseC")
	symx.Assert(okF2 && okC2, "everything defined on the base VM is resolvable through a later temporary VM")
	for _, v := range bvars {
		if v.GetName() == "seen" {
			val, _ := v.GetValue(bctx)
			iv, isInt := val.(*data.IntValue)
			symx.Assert(isInt && iv.Value == 0, "code on the base VM cannot instantiate a class only a request defined")
		}
	}
	symx.Reach("end")
}

// H_base_autoload: code of the base VM names a class that only exists as a FILE below a registered
// namespace; each request autoloads it into its own temporary VM. Between the two requests the
// file changes (hot reload): the second request runs the new class, not the first request's.
func H_base_autoload() {
	form := symx.Choose("form", 3)
	defer symx.VCleanup()
	symx.VReset()
	root := symx.VRoot()
	bp := parser.NewParser()
	base := runtime.NewVM(bp)
	base.SetThrowControl(func(acl data.Control) {})
	symx.VFile(root+"/app/Foo.php", "<?php\nnamespace App;\nclass Foo { }\n")
	base.AddNamespace("App", root+"/app")
	data.WriteOutput = func(string) {}
	boot := []string{
		"function mk() { $o = new \\App\\Foo(); return $o->v; }",
		"function mk() { return \\App\\Foo::make(); }",
		"function mk() { return \\App\\Foo::$s; }",
	}[form]
	prog, ctl := bp.ParseString(boot, "boot.zy")
	symx.Assert(ctl == nil && prog != nil, "boot script parses")
	if ctl != nil || prog == nil {
		return
	}
	prog.GetValue(base.CreateContext(bp.GetVariables()))
	req := func(version string) (int, bool) {
		symx.VFile(root+"/app/Foo.php", "<?php\nnamespace App;\nclass Foo { public $v = "+version+"; public static $s = "+version+"; static function make() { return "+version+"; } }\n")
		t := runtime.NewTempVM(base).(*runtime.TempVM)
		p := t.PrepareParse(bp)
		prog, ctl := p.ParseString("$r = mk();", "req.zy")
		if ctl != nil || prog == nil {
			return 0, false
		}
		vars := p.GetVariables()
		ctx := t.CreateContext(vars)
		if _, rctl := prog.GetValue(ctx); rctl != nil {
			return 0, false
		}
		for _, v := range vars {
			if v.GetName() == "r" {
				val, _ := v.GetValue(ctx)
				if iv, ok := val.(*data.IntValue); ok {
					return iv.Value, true
				}
			}
		}
		return 0, false
	}
	r1, ok1 := req("1")
	r2, ok2 := req("2")
	symx.Assert(ok1 && ok2, "both requests run")
	if !ok1 || !ok2 {
		return
	}
	symx.Assert(r1 == 1, "first request runs the class as it is on disk")
	symx.Assert(r2 == 2, "second request autoloads the class again into its own VM and runs the edited file")
	_, leaked := base.GetClass("App\\Foo")
	symx.Assert(!leaked, "the autoloaded class is not registered on the base VM")
	symx.Reach("end")
}

// H_base_closure: a closure CREATED at boot on the base VM (a route handler, a middleware) is
// invoked the way the hot-reload HTTP handler does it: with a context derived from the boot
// context whose VM is a fresh temporary VM. What the closure body defines (a function, a class)
// lands on that temporary VM only: the request sees it, the base VM and the next request do not,
// and the next request can run the same handler again.
func H_base_closure() {
	kind := symx.Choose("kind", 6) // what the body defines / how the closure was made
	defer symx.VCleanup()
	symx.VReset()
	root := symx.VRoot()
	symx.VFile(root+"/inc.php", "<?php\nfunction rq_helper() { return 41; }\n")
	bp := parser.NewParser()
	base := runtime.NewVM(bp)
	base.SetThrowControl(func(acl data.Control) {})
	data.WriteOutput = func(string) {}
	boot := []string{
		"$handler = function () { function rq_helper() { return 41; } return 1; };",
		"$handler = function () { include \"" + root + "/inc.php\"; return 1; };",
		"function mkHandler() { return function () { function rq_helper() { return 41; } return 1; }; } $handler = mkHandler();",
		"$inner = function () { function rq_helper() { return 41; } return 1; }; $handler = function () use ($inner) { return $inner(); };",
		// a service object made at boot, kept in a static property, whose method defines something when a request calls it
		"class Svc { function boot() { function rq_helper() { return 41; } return 1; } } class Reg { public static $svc = null; } Reg::$svc = new Svc(); $handler = function () { return Reg::$svc->boot(); };",
		// a closure made by a method of a boot-time object
		"class Mk { function handler() { return function () { function rq_helper() { return 41; } return 1; }; } } $m = new Mk(); $handler = $m->handler();",
	}[kind]
	prog, ctl := bp.ParseString(boot, "boot.zy")
	symx.Assert(ctl == nil && prog != nil, "boot script parses")
	if ctl != nil || prog == nil {
		return
	}
	vars := bp.GetVariables()
	baseCtx := base.CreateContext(vars)
	if _, c := prog.GetValue(baseCtx); c != nil {
		symx.Assert(false, "boot script runs")
		return
	}
	var handler *data.FuncValue
	for _, v := range vars {
		if v.GetName() == "handler" {
			val, _ := baseCtx.GetIndexValue(v.GetIndex())
			handler, _ = val.(*data.FuncValue)
		}
	}
	symx.Assert(handler != nil, "handler closure created")
	if handler == nil {
		return
	}
	defined := func(vm data.VM) bool {
		_, ok := vm.GetFunc("rq_helper")
		return ok
	}
	serve := func(t data.VM) bool {
		ctx := baseCtx.CreateContext(handler.Value.GetVariables())
		ctx.SetVM(t)
		_, c := handler.Value.Call(ctx)
		return c == nil
	}
	// recorded finding: an OBJECT made at boot keeps its creation context, so its methods (and the
	// closures they make) run on the base VM whichever VM the caller is on
	known, id := kind >= 4, "C12-boot-object-method-runs-on-base-vm"
	t1 := runtime.NewTempVM(base)
	symx.Assert(serve(t1), "first request runs the handler")
	symx.AssertKnown(defined(t1) || kind >= 4, "the request sees what its handler defined", known, id)
	symx.AssertKnown(!defined(base), "what a request's handler defined is not registered on the base VM", known, id)
	t2 := runtime.NewTempVM(base)
	symx.AssertKnown(!defined(t2), "what a request's handler defined is not visible to the next request", known, id)
	symx.AssertKnown(serve(t2), "the next request runs the same handler (the first request's definitions are not in its way)", known, id)
	symx.Reach("end")
}
