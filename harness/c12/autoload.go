package c12

// Autoloading through temporary VMs (virtual file system, verif/symx/vfs.go): classes and
// interfaces that a temporary VM loads from files belong to that VM. Non-interference form of the
// property: what a VM resolves after a history equals what it resolves after the same history
// with the steps of the OTHER temporary VMs removed.

import (
	"github.com/php-any/origami/data"
	"github.com/php-any/origami/parser"
	"github.com/php-any/origami/runtime"
	"verif/symx"
)

var loadNames = []string{"App\\Foo", "App\\Shape", "App\\Nope"}

type world struct {
	vms []data.VM
}

func newWorld(fresh bool) *world {
	root := symx.VRoot()
	symx.VFile(root+"/app/Foo.php", "<?php\nnamespace App;\nclass Foo { public $v = 1; }\n")
	symx.VFile(root+"/app/Shape.php", "<?php\nnamespace App;\ninterface Shape { }\n")
	bp := parser.NewParser()
	base := runtime.NewVM(bp)
	base.SetThrowControl(func(acl data.Control) {})
	base.AddNamespace("App", root+"/app")
	w := &world{vms: []data.VM{base}}
	for t := 0; t < 2; t++ {
		tv := runtime.NewTempVM(base).(*runtime.TempVM)
		// the second temporary VM may be FRESH: nothing parsed through it yet, no parser of its own
		// (the state in which the hot-reload handler hands it to a request)
		if t == 0 || !fresh {
			tv.PrepareParse(bp)
		}
		w.vms = append(w.vms, tv)
	}
	return w
}

// step performs load operation op with name n on vm and reports 1 found / 0 not found.
func loadStep(vm data.VM, op int, n string) int {
	switch op {
	case 0:
		c, ctl := vm.GetOrLoadClass(n)
		if ctl == nil && c != nil {
			return 1
		}
	case 1:
		v, ctl := vm.LoadPkg(n)
		if ctl == nil && v != nil {
			return 1
		}
	case 2:
		it, ctl := vm.GetOrLoadInterface(n)
		if ctl == nil && it != nil {
			return 1
		}
	case 3:
		if _, ok := vm.GetClass(n); ok {
			return 1
		}
	case 4:
		if _, ok := vm.GetInterface(n); ok {
			return 1
		}
	}
	return 0
}

// H_autoload: k load steps on arbitrary VMs, then one probe on a temporary VM.
func H_autoload() {
	k := symx.Param("k", 2)
	idx := []string{"0", "1", "2"}
	type st struct{ op, vm, name int }
	var steps []st
	for s := 0; s < k; s++ {
		steps = append(steps, st{symx.Choose("op"+idx[s], 5), symx.Choose("vm"+idx[s], 3), symx.Choose("name"+idx[s], 3)})
	}
	probe := st{symx.Choose("pop", 5), 1 + symx.Choose("pvm", 2), symx.Choose("pname", 3)}
	fresh := symx.Choose("second_vm_fresh", 2) == 1
	defer symx.VCleanup()

	run := func(keepOthers bool) int {
		symx.VReset()
		w := newWorld(fresh)
		for _, s := range steps {
			if !keepOthers && s.vm != 0 && s.vm != probe.vm {
				continue // a step of the other temporary VM
			}
			loadStep(w.vms[s.vm], s.op, loadNames[s.name])
		}
		return loadStep(w.vms[probe.vm], probe.op, loadNames[probe.name])
	}
	with := run(true)
	without := run(false)
	symx.Assert(with == without, "what a temporary VM resolves (with autoloading) does not depend on what other temporary VMs loaded before")
	// everything that exists as a file below a registered namespace is loadable through every VM
	if probe.op == 0 && probe.name == 0 || probe.op == 2 && probe.name == 1 || probe.op == 1 && probe.name < 2 {
		symx.Assert(with == 1, "a class/interface file below a registered namespace is loadable through a temporary VM")
	}
	symx.Reach("end")
}
