// Package c12: request-scoped (temporary) VMs are isolated: definitions made
// through one never leak into the base VM or another temporary VM; everything
// defined on the base stays resolvable through every temporary VM. DESIGN §4 C12.
package c12

import (
	"github.com/php-any/origami/data"
	"github.com/php-any/origami/node"
	"github.com/php-any/origami/parser"
	"github.com/php-any/origami/runtime"
	"verif/symx"
)

var pool = []string{"a", "A", "b"}

type fn struct{ name string }

func (f *fn) Call(ctx data.Context) (data.GetValue, data.Control) { return data.NewNullValue(), nil }
func (f *fn) GetName() string                                     { return f.name }
func (f *fn) GetParams() []data.GetValue                          { return nil }
func (f *fn) GetVariables() []data.Variable                       { return nil }

// view of one VM: what each pool name resolves to, per registry
type view struct {
	cls [3]data.ClassStmt
	fun [3]data.FuncStmt
	itf [3]data.InterfaceStmt
}

func snapshot(vm data.VM) (v view) {
	for i, n := range pool {
		if c, ok := vm.GetClass(n); ok {
			v.cls[i] = c
		}
		if f, ok := vm.GetFunc(n); ok {
			v.fun[i] = f
		}
		if it, ok := vm.GetInterface(n); ok {
			v.itf[i] = it
		}
	}
	return
}

func sameView(a, b view) bool {
	for i := range pool {
		if a.cls[i] != b.cls[i] || a.fun[i] != b.fun[i] || a.itf[i] != b.itf[i] {
			return false
		}
	}
	return true
}

// H_history: k operations, each (op, vm, name).
func H_history() {
	k := symx.Param("k", 2)
	base := runtime.NewVM(parser.NewParser())
	vms := []data.VM{base, runtime.NewTempVM(base), runtime.NewTempVM(base)}
	// NewTempVM of a *VM yields distinct TempVMs
	names := []string{"0", "1", "2", "3"}
	for s := 0; s < k; s++ {
		op := symx.Choose("op"+names[s], 6)
		vi := symx.Choose("vm"+names[s], 3)
		ni := symx.Choose("name"+names[s], 3)
		vm, name := vms[vi], pool[ni]
		before := [3]view{snapshot(vms[0]), snapshot(vms[1]), snapshot(vms[2])}
		switch op {
		case 0:
			vm.AddClass(node.NewClassStatement(nil, name, "", nil, nil, map[string]data.Method{}))
		case 1:
			vm.AddFunc(&fn{name: name})
		case 2:
			vm.AddInterface(node.NewInterfaceStatement(nil, name, nil, nil))
		case 3:
			vm.GetClass(name)
		case 4:
			vm.GetFunc(name)
		case 5:
			vm.GetInterface(name)
		}
		after := [3]view{snapshot(vms[0]), snapshot(vms[1]), snapshot(vms[2])}
		for o := 0; o < 3; o++ {
			if o == vi {
				continue
			}
			if vi != 0 {
				// a step on a temporary VM changes nothing any other VM resolves
				symx.Assert(sameView(before[o], after[o]), "step on a temporary VM is invisible to the base and to other temporary VMs")
			} else if op >= 3 {
				symx.Assert(sameView(before[o], after[o]), "a lookup on the base changes nothing")
			}
		}
		if op >= 3 {
			symx.Assert(sameView(before[vi], after[vi]), "a lookup changes nothing on its own VM")
		}
		// everything the base resolves is resolvable through every temporary VM
		for t := 1; t < 3; t++ {
			for i := range pool {
				if after[0].cls[i] != nil {
					symx.Assert(after[t].cls[i] != nil, "base class resolvable through temporary VM")
				}
				if after[0].fun[i] != nil {
					symx.Assert(after[t].fun[i] != nil, "base function resolvable through temporary VM")
				}
				if after[0].itf[i] != nil {
					symx.Assert(after[t].itf[i] != nil, "base interface resolvable through temporary VM")
				}
			}
		}
	}
	symx.Reach("end")
}

// H_parse_define: classes/functions defined by parsing script text on a parser bound to a
// temporary VM (PrepareParse) stay in that temporary VM.
func H_parse_define() {
	which := symx.Choose("what", 3)
	ni := symx.Choose("name", 3)
	baseParser := parser.NewParser()
	base := runtime.NewVM(baseParser)
	t1 := runtime.NewTempVM(base).(*runtime.TempVM)
	t2 := runtime.NewTempVM(base)
	p := t1.PrepareParse(baseParser)
	src := []string{"class " + pool[ni] + " {}", "function " + pool[ni] + "() { return 1; }", "interface " + pool[ni] + " {}"}[which]
	b0, b2 := snapshot(base), snapshot(t2)
	_, ctl := p.ParseString(src, "t.zy")
	symx.Assert(ctl == nil, "definition parses on the temporary VM's parser")
	if ctl != nil {
		return
	}
	symx.Assert(sameView(b0, snapshot(base)), "definition parsed for a temporary VM does not reach the base VM")
	symx.Assert(sameView(b2, snapshot(t2)), "definition parsed for a temporary VM does not reach another temporary VM")
	a1 := snapshot(t1)
	if which != 1 { // functions are registered when the declaration is executed, not when it is parsed
		symx.Assert(a1.cls[ni] != nil || a1.itf[ni] != nil, "the defining temporary VM resolves its own definition")
	}
	symx.Reach("end")
}
