package c08

import (
	"verif/harness/sx"
	"verif/symx"
)

// H_parent_chain: a single-inheritance chain of 4 classes (K0 <- K1 <- K2 <- K3) where every class
// independently defines m() or inherits it, and every definition independently continues with
// parent::m() or not; static helpers use self:: / static::. For every object class the trace of
// $o->m() must visit the nearest definition at or above the object's class, then — through each
// parent:: — the nearest definition strictly above the class that DEFINES the running method
// (not above the object's class, and not above the class where the lookup started).
func H_parent_chain() {
	const n = 4
	var def, chain [n]bool
	def[0] = true
	for i := 1; i < n; i++ {
		def[i] = symx.Choose("def"+itoa(i), 2) == 1
	}
	for i := 1; i < n; i++ {
		if def[i] {
			chain[i] = symx.Choose("chain"+itoa(i), 2) == 1
		}
	}
	src := ""
	for i := 0; i < n; i++ {
		src += "class K" + itoa(i)
		if i > 0 {
			src += " extends K" + itoa(i-1)
		}
		src += " {\n"
		if def[i] {
			// a $this-> call inside every definition: it runs the most-derived step() of the OBJECT's
			// class, also when this definition was entered through parent::
			src += "  public function m() { emit(" + itoa(i) + "); emit($this->step());"
			if chain[i] {
				src += " parent::m();"
			}
			src += " }\n"
			// the same chain in STATIC context: static:: names the class the call was made on at every
			// level the call is forwarded through with parent::
			src += "  public static function sm() { emit(" + itoa(i) + "); emit(static::tag());"
			if chain[i] {
				src += " parent::sm();"
			}
			src += " }\n"
		}
		if i == 0 || i == 2 {
			src += "  public function step() { return " + itoa(2+i) + "0; }\n"
		}
		// who(): which class does self:: name here; every class overrides tag()
		src += "  public static function tag() { return " + itoa(5+i) + "; }\n"
		if i == 1 {
			src += "  public static function viaStatic() { return static::tag(); }\n  public static function viaSelf() { return self::tag(); }\n"
			// forwarding: a self:: call keeps the runtime class for a static:: further down
			src += "  public static function fwd() { return static::tag(); }\n  public static function viaSelfFwd() { return self::fwd(); }\n  public function instFwd() { return self::fwd(); }\n"
		}
		src += "}\n"
	}
	for j := 0; j < n; j++ {
		src += "mark(" + itoa(j) + "); $o = new K" + itoa(j) + "(); $o->m();\n"
	}
	for j := 0; j < n; j++ {
		src += "mark(1" + itoa(j) + "); K" + itoa(j) + "::sm();\n"
	}
	for j := 1; j < n; j++ {
		src += "emit(K" + itoa(j) + "::viaStatic()); emit(K" + itoa(j) + "::viaSelf());\n"
	}
	for j := 1; j < n; j++ {
		src += "emit(K" + itoa(j) + "::viaSelfFwd()); $o = new K" + itoa(j) + "(); emit($o->instFwd());\n"
	}
	s := sx.Compile(src)
	symx.Assert(s.Err == nil, "chain declarations parse")
	if s.Err != nil {
		return
	}
	_, ctl := s.Run()
	symx.Assert(ctl == nil, "chain script runs")
	if ctl != nil {
		return
	}
	var want []sx.Obs
	nearest := func(from int) int { // nearest definition at or above class index from
		for i := from; i >= 0; i-- {
			if def[i] {
				return i
			}
		}
		return -1
	}
	for j := 0; j < n; j++ {
		want = append(want, sx.Obs{Kind: 'M', I: j})
		cur := nearest(j)
		stepOf := 20 // K0::step
		if j >= 2 {
			stepOf = 40 // K2::step, inherited by K3
		}
		for cur >= 0 {
			want = append(want, sx.Obs{Kind: 'i', I: cur}, sx.Obs{Kind: 'i', I: stepOf})
			if !chain[cur] {
				break
			}
			cur = nearest(cur - 1)
		}
	}
	for j := 0; j < n; j++ {
		want = append(want, sx.Obs{Kind: 'M', I: 10 + j})
		cur := nearest(j)
		for cur >= 0 {
			want = append(want, sx.Obs{Kind: 'i', I: cur}, sx.Obs{Kind: 'i', I: 5 + j})
			if !chain[cur] {
				break
			}
			cur = nearest(cur - 1)
		}
	}
	for j := 1; j < n; j++ {
		want = append(want, sx.Obs{Kind: 'i', I: 5 + j}, sx.Obs{Kind: 'i', I: 6})
	}
	for j := 1; j < n; j++ {
		want = append(want, sx.Obs{Kind: 'i', I: 5 + j}, sx.Obs{Kind: 'i', I: 5 + j})
	}
	symx.Assert(len(sx.Log) == len(want), "parent-chain: trace length")
	if len(sx.Log) != len(want) {
		return
	}
	for i := range want {
		symx.Assert(sx.Log[i].Kind == want[i].Kind && sx.Log[i].I == want[i].I, "parent-chain: parent:: runs the nearest ancestor's definition; static:: is late bound, self:: is not")
	}
	symx.Reach("end")
}

// H_self_inherited: self:: names the class the code is WRITTEN in even when that class does not
// declare the member itself (it inherits it) and a class further down overrides it; static:: names
// the class the call was made on. Chain K0 <- K1 <- K2 <- K3; lab() is declared by K0 and by any
// subset of the others; K1 and K2 host the callers.
func H_self_inherited() {
	const n = 4
	var def [n]bool
	def[0] = true
	for i := 1; i < n; i++ {
		def[i] = symx.Choose("def"+itoa(i), 2) == 1
	}
	src := ""
	for i := 0; i < n; i++ {
		src += "class K" + itoa(i)
		if i > 0 {
			src += " extends K" + itoa(i-1)
		}
		src += " {\n"
		if def[i] {
			src += "  public static function lab() { return " + itoa(i) + "; }\n"
		}
		if i == 1 || i == 2 {
			src += "  public static function vs" + itoa(i) + "() { return self::lab(); }\n  public static function vt" + itoa(i) + "() { return static::lab(); }\n"
			src += "  public function is" + itoa(i) + "() { return self::lab(); }\n  public function it" + itoa(i) + "() { return static::lab(); }\n"
		}
		src += "}\n"
	}
	nearest := func(from int) int {
		for i := from; i >= 0; i-- {
			if def[i] {
				return i
			}
		}
		return -1
	}
	var want []int
	for i := 1; i <= 2; i++ {
		for j := i; j < n; j++ {
			src += "emit(K" + itoa(j) + "::vs" + itoa(i) + "()); emit(K" + itoa(j) + "::vt" + itoa(i) + "()); $o = new K" + itoa(j) + "(); emit($o->is" + itoa(i) + "()); emit($o->it" + itoa(i) + "());\n"
			want = append(want, nearest(i), nearest(j), nearest(i), nearest(j))
		}
	}
	s := sx.Compile(src)
	symx.Assert(s.Err == nil, "declarations parse")
	if s.Err != nil {
		return
	}
	_, ctl := s.Run()
	symx.Assert(ctl == nil, "script runs")
	if ctl != nil {
		return
	}
	symx.Assert(len(sx.Log) == len(want), "self-inherited: one value per call")
	if len(sx.Log) != len(want) {
		return
	}
	for i := range want {
		symx.Assert(sx.Log[i].Kind == 'i' && sx.Log[i].I == want[i], "self:: binds to the class the call is written in (also when it inherits the member); static:: to the class the call was made on")
	}
	symx.Reach("end")
}

// H_scope_instance_method: self::m() / static::m() written inside an instance method, where m is an
// INSTANCE method: the call runs m on the current object, self:: choosing the definition of the class
// the call is written in and static:: that of the object's class (parent::m() is covered by H_parent_chain).
func H_scope_instance_method() {
	kw := symx.Choose("kw", 2)
	src := "class A { function who() { return 1; } function t() { return " + []string{"self", "static"}[kw] + "::who(); } }\nclass B extends A { function who() { return 2; } }\n$b = new B(); emit($b->t()); $a = new A(); emit($a->t());"
	s := sx.Compile(src)
	symx.Assert(s.Err == nil, "declarations parse")
	if s.Err != nil {
		return
	}
	_, ctl := s.Run()
	// recorded finding: self:: / static:: only look among STATIC methods; naming an instance method raises an error
	const id = "C08-scope-call-of-instance-method"
	symx.AssertKnown(ctl == nil, "self:: / static:: call of an instance method runs", true, id)
	if ctl != nil {
		return
	}
	want := []int{1, 1}
	if kw == 1 {
		want = []int{2, 1}
	}
	symx.AssertKnown(len(sx.Log) == 2 && sx.Log[0].Kind == 'i' && sx.Log[0].I == want[0] && sx.Log[1].Kind == 'i' && sx.Log[1].I == want[1], "self:: binds to the defining class, static:: to the runtime class (instance method)", true, id)
	symx.Reach("end")
}
