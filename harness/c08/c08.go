// Package c08: instanceof, type hints, catch and dispatch follow the declared
// class hierarchy (DESIGN.md §4 C08). The hierarchy itself is the quantified
// dimension: every shape with 3 classes (single inheritance) and 2 interfaces
// is assembled as script text and registered by the real class/interface parsers.
package c08

import (
	"verif/harness/sx"
	"verif/symx"
)

func itoa(i int) string { return string(rune('0' + i)) }

// H_hierarchy: one path per hierarchy shape; all (object, type) pairs and dispatch checked on it.
func H_hierarchy() {
	// structure holes
	p1 := symx.Choose("parent1", 2) - 1 // -1 none, 0 = C0
	p2 := symx.Choose("parent2", 3) - 1 // -1 none, 0, 1
	iext := symx.Choose("i1_extends_i0", 2)
	// bit (c*2+i): class c implements interface i. quick: C0 implements nothing (16 patterns), thorough: all 64
	impl := symx.Choose("implements", symx.Param("implbits", 64))
	if symx.Param("implbits", 64) == 16 {
		impl <<= 2
	}
	over := symx.Choose("override", 4) // bit (c-1): class c overrides m()
	parent := []int{-1, p1, p2}
	var overrides func(c int) bool
	implements := func(c, i int) bool { return impl>>(uint(c*2+i))&1 == 1 }
	// a class without a parent always defines m(); a derived class overrides it iff its bit is set
	overrides = func(c int) bool { return parent[c] < 0 || over>>(uint(c-1))&1 == 1 }

	// ---- script text
	src := "interface I0 { }\n"
	if iext == 1 {
		src += "interface I1 extends I0 { }\n"
	} else {
		src += "interface I1 { }\n"
	}
	src += "interface L0 { function m(); }\ninterface L1 { function m($x); }\ninterface L2 { function zz(); }\n"
	for c := 0; c < 3; c++ {
		src += "class C" + itoa(c) + " extends "
		if parent[c] >= 0 {
			src += "C" + itoa(parent[c])
		} else {
			src += "Exception"
		}
		first := true
		for i := 0; i < 2; i++ {
			if implements(c, i) {
				if first {
					src += " implements "
					first = false
				} else {
					src += ", "
				}
				src += "I" + itoa(i)
			}
		}
		src += " {\n"
		if overrides(c) {
			src += "  function m() { return " + itoa(c) + "; }\n"
		}
		src += "  static function id() { return " + itoa(c) + "; }\n"
		src += "  function me" + itoa(c) + "() { return self::id(); }\n"
		src += "  function who" + itoa(c) + "() { return static::id(); }\n"
		if parent[c] >= 0 {
			src += "  function up" + itoa(c) + "() { return parent::m(); }\n"
		}
		src += "}\n"
	}
	typeNames := []string{"C0", "C1", "C2", "I0", "I1"}
	for t, tn := range typeNames {
		src += "function accept" + itoa(t) + "(" + tn + " $v) { return 1; }\n"
	}
	for c := 0; c < 3; c++ {
		src += "$o = new C" + itoa(c) + "(\"x\");\n"
		for t, tn := range typeNames {
			src += "emit($o instanceof " + tn + ");\n"
			src += "try { accept" + itoa(t) + "($o); emit(true); } catch (Throwable $e) { emit(false); }\n"
			src += "try { throw $o; } catch (" + tn + " $e) { emit(true); } catch (Throwable $e) { emit(false); }\n"
		}
		src += "emit($o->m());\n"
		src += "emit($o->me" + itoa(c) + "()); emit($o->who" + itoa(c) + "());\n"
		// inherited self::/static:: : call the ancestor's me/who on the descendant object
		for a := parent[c]; a >= 0; a = parent[a] {
			src += "emit($o->me" + itoa(a) + "()); emit($o->who" + itoa(a) + "());\n"
		}
		if parent[c] >= 0 {
			src += "emit($o->up" + itoa(c) + "());\n"
		}
		src += "emit($o like L0); emit($o like L1); emit($o like L2);\n"
	}
	s := sx.Compile(src)
	symx.Assert(s.Err == nil, "hierarchy declarations parse")
	if s.Err != nil {
		return
	}
	_, ctl := s.Run()
	if ctl != nil {
		symx.Observe("control", ctl.AsString(), "observations so far", len(sx.Log))
	}
	symx.Assert(ctl == nil, "script runs")
	if ctl != nil {
		return
	}

	// ---- reference: reachability computed independently
	isA := func(c, t int) bool { // t: 0..2 classes, 3..4 interfaces
		for x := c; x >= 0; x = parent[x] {
			if t < 3 {
				if x == t {
					return true
				}
			} else {
				i := t - 3
				if implements(x, i) {
					return true
				}
				if i == 0 && iext == 1 && implements(x, 1) { // I1 extends I0
					return true
				}
			}
		}
		return false
	}
	definer := func(c int) int { // most-derived definition of m()
		for x := c; x >= 0; x = parent[x] {
			if overrides(x) {
				return x
			}
		}
		return -1
	}
	k := 0
	nextB := func(want bool, label string) {
		if k >= len(sx.Log) {
			symx.Assert(false, label+" (missing observation)")
			return
		}
		o := sx.Log[k]
		k++
		symx.Assert(o.Kind == 'b' && o.B == want, label)
	}
	nextI := func(want int, label string, known bool, id string) {
		if k >= len(sx.Log) {
			symx.Assert(false, label+" (missing observation)")
			return
		}
		o := sx.Log[k]
		k++
		symx.AssertKnown(o.Kind == 'i' && o.I == want, label, known, id)
	}
	for c := 0; c < 3; c++ {
		for t := range typeNames {
			w := isA(c, t)
			nextB(w, "instanceof follows the hierarchy")
			nextB(w, "typed parameter follows the hierarchy")
			nextB(w, "catch (T) follows the hierarchy")
		}
		nextI(definer(c), "method call runs the most-derived definition", false, "")
		nextI(c, "self:: binds to the defining class", false, "")
		nextI(c, "static:: binds to the runtime class", false, "")
		for a := parent[c]; a >= 0; a = parent[a] {
			nextI(a, "inherited method: self:: binds to the defining class", false, "")
			nextI(c, "inherited method: static:: binds to the runtime class", false, "")
		}
		if parent[c] >= 0 {
			nextI(definer(parent[c]), "parent:: runs the nearest ancestor's definition", false, "")
		}
		hasM := definer(c) >= 0
		nextB(hasM, "like: every method of T with the same parameter count (L0)")
		nextB(false, "like: parameter count differs (L1)")
		nextB(false, "like: method missing (L2)")
	}
	symx.Assert(k == len(sx.Log), "no extra observations")
	symx.Reach("end")
}

// H_iface_chain: interface chains up to three deep (I2 extends I1 extends I0 and every other
// extends shape over three interfaces); one class implementing one of them; instanceof, typed
// parameter and catch must agree with reachability for every target interface.
func H_iface_chain() {
	e1 := symx.Choose("i1_extends", 2)       // 0 none, 1 I0
	e2 := symx.Choose("i2_extends", 4)       // 0 none, 1 I0, 2 I1, 3 I0 and I1
	impl := symx.Choose("implements", 3)     // the class implements I<impl>
	viaParent := symx.Choose("inherited", 2) // implemented by the class itself or by its parent
	src := "interface I0 { }\n"
	if e1 == 1 {
		src += "interface I1 extends I0 { }\n"
	} else {
		src += "interface I1 { }\n"
	}
	src += "interface I2" + []string{"", " extends I0", " extends I1", " extends I0, I1"}[e2] + " { }\n"
	if viaParent == 1 {
		src += "class P extends Exception implements I" + itoa(impl) + " { }\nclass C extends P { }\n"
	} else {
		src += "class C extends Exception implements I" + itoa(impl) + " { }\n"
	}
	for t := 0; t < 3; t++ {
		src += "function accept" + itoa(t) + "(I" + itoa(t) + " $v) { return 1; }\n"
	}
	src += "$o = new C(\"x\");\n"
	for t := 0; t < 3; t++ {
		src += "emit($o instanceof I" + itoa(t) + ");\n"
		src += "try { accept" + itoa(t) + "($o); emit(true); } catch (Throwable $e) { emit(false); }\n"
		src += "try { throw $o; } catch (I" + itoa(t) + " $e) { emit(true); } catch (Throwable $e) { emit(false); }\n"
	}
	s := sx.Compile(src)
	symx.Assert(s.Err == nil, "interface declarations parse")
	if s.Err != nil {
		return
	}
	_, ctl := s.Run()
	symx.Assert(ctl == nil && len(sx.Log) == 9, "script runs")
	if ctl != nil || len(sx.Log) != 9 {
		return
	}
	// reachability over the extends edges
	ext := [3][3]bool{}
	if e1 == 1 {
		ext[1][0] = true
	}
	if e2 == 1 || e2 == 3 {
		ext[2][0] = true
	}
	if e2 == 2 || e2 == 3 {
		ext[2][1] = true
	}
	var reach func(a, b int) bool
	reach = func(a, b int) bool {
		if a == b {
			return true
		}
		for m := 0; m < 3; m++ {
			if ext[a][m] && reach(m, b) {
				return true
			}
		}
		return false
	}
	for t := 0; t < 3; t++ {
		w := reach(impl, t)
		symx.Assert(sx.Log[3*t].Kind == 'b' && sx.Log[3*t].B == w, "instanceof follows the interface extends chain")
		symx.Assert(sx.Log[3*t+1].Kind == 'b' && sx.Log[3*t+1].B == w, "typed parameter follows the interface extends chain")
		symx.Assert(sx.Log[3*t+2].Kind == 'b' && sx.Log[3*t+2].B == w, "catch (T) follows the interface extends chain")
	}
	symx.Reach("end")
}
