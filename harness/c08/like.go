package c08

// `$o like T` holds exactly when the object provides, itself or by inheritance, every method T
// declares with the same number of parameters. The quantified dimension is the hierarchy: three
// classes (every single-inheritance shape), each declaring or not a method m with 0, 1 or 2
// parameters (an override may change the count), and a second method n declared by one class
// level only; targets are every class and three interfaces.

import (
	"verif/harness/sx"
	"verif/symx"
)

var likeParams = []string{"", "$x", "$x, $y = 0"}

func H_like() {
	p1 := symx.Choose("parent1", 2) - 1 // -1 none, 0 = C0
	p2 := symx.Choose("parent2", 3) - 1 // -1 none, 0, 1
	parent := []int{-1, p1, p2}
	// arity of m declared by class c: 0 = not declared, 1..3 = declared with 0..2 parameters
	ar := []int{symx.Choose("m0", 4), symx.Choose("m1", 4), symx.Choose("m2", 4)}
	// quick (small=1): n() declared by C1 or nobody, LM nominally implemented by C2 or nobody
	small := symx.Param("small", 0) == 1
	nAt := symx.Choose("n_at", map[bool]int{true: 2, false: 4}[small])         // class declaring n() (3 = none)
	tm := symx.Choose("target_m", 3)                                           // parameter count of m in the interfaces
	implC := symx.Choose("implements", map[bool]int{true: 2, false: 4}[small]) // class that nominally implements LM (3 = none): nominal relation must not matter
	if small {
		nAt, implC = []int{1, 3}[nAt], []int{2, 3}[implC]
	}
	src := "interface LM { function m(" + likeParams[tm] + "); }\n"
	src += "interface LMN { function m(" + likeParams[tm] + "); function n(); }\ninterface LE { }\n"
	for c := 0; c < 3; c++ {
		src += "class C" + itoa(c)
		if parent[c] >= 0 {
			src += " extends C" + itoa(parent[c])
		}
		if implC == c && ar[c] == tm+1 {
			src += " implements LM"
		}
		src += " {\n"
		if ar[c] > 0 {
			src += "  function m(" + likeParams[ar[c]-1] + ") { return 1; }\n"
		}
		if nAt == c {
			src += "  function n() { return 2; }\n"
		}
		src += "}\n"
	}
	targets := []string{"C0", "C1", "C2", "LM", "LMN", "LE"}
	for c := 0; c < 3; c++ {
		src += "$o = new C" + itoa(c) + "();\n"
		for _, t := range targets {
			src += "emit($o like " + t + ");\n"
		}
	}
	s := sx.Compile(src)
	symx.Assert(s.Err == nil, "hierarchy declarations parse")
	if s.Err != nil {
		return
	}
	_, ctl := s.Run()
	symx.Assert(ctl == nil && len(sx.Log) == 18, "script runs")
	if ctl != nil || len(sx.Log) != 18 {
		return
	}
	// reference: parameter count of the m / n the object provides (-1 none)
	providesM := func(c int) int {
		for x := c; x >= 0; x = parent[x] {
			if ar[x] > 0 {
				return ar[x] - 1
			}
		}
		return -1
	}
	providesN := func(c int) bool {
		for x := c; x >= 0; x = parent[x] {
			if nAt == x {
				return true
			}
		}
		return false
	}
	k := 0
	for c := 0; c < 3; c++ {
		for t := range targets {
			want := true
			switch {
			case t < 3: // class target: the methods that class itself declares
				if ar[t] > 0 && providesM(c) != ar[t]-1 {
					want = false
				}
				if nAt == t && !providesN(c) {
					want = false
				}
			case t == 3:
				want = providesM(c) == tm
			case t == 4:
				want = providesM(c) == tm && providesN(c)
			}
			symx.Assert(sx.Log[k].Kind == 'b' && sx.Log[k].B == want, "like: object C"+itoa(c)+" like "+targets[t]+" iff it provides every method the target declares with the same parameter count")
			k++
		}
	}
	symx.Reach("end")
}
