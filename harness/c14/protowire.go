// Package c14: harnesses for C14 (encoders faithful, decoders total).
package c14

import (
	pw "google.golang.org/protobuf/encoding/protowire"

	opw "github.com/php-any/origami/std/protowire"
	"verif/symx"
)

// ---- reference recogniser: well-formedness + maximal nesting level, built on
// the reference library's ConsumeTag / ConsumeFieldValue.

type refOpts struct {
	msg    map[int32]bool
	packed map[int32]int32 // field -> element wire type
}

// refFields walks a field sequence. inGroup != 0: stop at the matching end-group.
// Returns ok, bytes consumed, max nesting level reached (level of deepest field).
func refFields(d []byte, o *refOpts, level int, inGroup pw.Number) (ok bool, used int, maxLevel int) {
	maxLevel = level
	start := len(d)
	for len(d) > 0 {
		num, typ, n := pw.ConsumeTag(d)
		if n < 0 {
			return false, 0, 0
		}
		d = d[n:]
		switch typ {
		case pw.EndGroupType:
			if inGroup == 0 || num != inGroup {
				return false, 0, 0
			}
			return true, start - len(d), maxLevel
		case pw.StartGroupType:
			ok, u, ml := refFields(d, o, level+1, num)
			if !ok {
				return false, 0, 0
			}
			if ml > maxLevel {
				maxLevel = ml
			}
			d = d[u:]
		case pw.BytesType:
			p, m := pw.ConsumeBytes(d)
			if m < 0 {
				return false, 0, 0
			}
			d = d[m:]
			if et, isPacked := o.packed[int32(num)]; isPacked {
				if !refPacked(p, et) {
					return false, 0, 0
				}
			} else if o.msg[int32(num)] {
				ok, _, ml := refFields(p, o, level+1, 0)
				if !ok {
					return false, 0, 0
				}
				if ml > maxLevel {
					maxLevel = ml
				}
			}
		case pw.VarintType, pw.Fixed32Type, pw.Fixed64Type:
			m := pw.ConsumeFieldValue(num, typ, d)
			if m < 0 {
				return false, 0, 0
			}
			d = d[m:]
		default:
			return false, 0, 0
		}
	}
	if inGroup != 0 {
		return false, 0, 0 // group not closed
	}
	return true, start, maxLevel
}

func refPacked(p []byte, et int32) bool {
	for len(p) > 0 {
		m := pw.ConsumeFieldValue(1, pw.Type(et), p)
		if m < 0 {
			return false
		}
		p = p[m:]
	}
	return true
}

// H_parse: ParseRawFields on n arbitrary bytes, message field 1, packed field 2
// (element type symbolic among varint/fixed64/fixed32), MaxDepth symbolic in 1..3.
func H_parse() {
	n := symx.Param("n", 2)
	data := symx.Bytes("d", n)
	et := []int32{0, 1, 5}[symx.Choose("elem", 3)]
	maxDepth := symx.Choose("maxdepth", 3) + 1
	opts := &opw.ParseOptions{
		MessageFields:     map[int32]bool{1: true},
		PackedFields:      map[int32]bool{2: true},
		PackedElementType: map[int32]int32{2: et},
		MaxDepth:          maxDepth,
	}
	ro := &refOpts{msg: map[int32]bool{1: true}, packed: map[int32]int32{2: et}}
	fields, err := opw.ParseRawFields(data, opts)
	symx.Reach("parsed")
	wf, _, lvl := refFields(data, ro, 0, 0)
	if err == nil {
		symx.Reach("accepted")
		// accepted ⇒ well-formed (every byte accounted for) and within the limit
		symx.Assert(wf, "accept-implies-wellformed")
		if wf {
			symx.Assert(lvl <= maxDepth, "depth-limit-honoured")
		}
		_ = fields
	} else {
		symx.Reach("rejected")
		// rejected ⇒ malformed, or nesting at/over the limit
		symx.Assert(!wf || lvl+1 >= maxDepth, "reject-implies-malformed-or-deep")
	}
}

// H_parse_nil: default options (nil): no nested parsing, MaxDepth 64.
func H_parse_nil() {
	n := symx.Param("n", 2)
	data := symx.Bytes("d", n)
	_, err := opw.ParseRawFields(data, nil)
	wf, _, _ := refFields(data, &refOpts{}, 0, 0)
	symx.Reach("parsed")
	symx.Assert((err == nil) == wf, "accept-iff-wellformed")
}
