// Package c07: visibility and declared types are enforced at every access path
// and boundary (DESIGN.md §4 C07). The matrix is finite; the solver contributes
// payload independence (a denied write is denied for every value).
package c07

import (
	"verif/harness/sx"
	"verif/symx"
)

var mods = []string{"public", "protected", "private"}

// fixture with one member of each kind per modifier m (index 0..2)
const fixture = `
class Base {
  public $pu = 1; protected $pr = 2; private $pv = 3;
  public static $spu = 21; protected static $spr = 22; private static $spv = 23;
  public function mpu() { return 11; } protected function mpr() { return 12; } private function mpv() { return 13; }
  public static function smpu() { return 31; } protected static function smpr() { return 32; } private static function smpv() { return 33; }
  public function peek($k) { if ($k == 0) { return $this->pu; } if ($k == 1) { return $this->pr; } return $this->pv; }
  public function same($w) { SAME }
  public function same2($o, $w) { SAMEB }
  public function me() { return $this; }
}
class Child extends Base {
  public function sub($w) { SUB }
}
class Sib {
  public function sib($o, $w) { SIB }
}
class Bro extends Base {
  public function bro($o, $w) { BRO }
}
`

var propNames = []string{"pu", "pr", "pv"}
var methNames = []string{"mpu", "mpr", "mpv"}
var sPropNames = []string{"spu", "spr", "spv"}
var sMethNames = []string{"smpu", "smpr", "smpv"}

// access expression for member kind k, modifier m, through receiver expression recv ("$this" or "$o")
func access(kind, m int, recv string) string {
	switch kind {
	case 0: // instance property read
		return "emit(" + recv + "->" + propNames[m] + ");"
	case 1: // instance property write
		return recv + "->" + propNames[m] + " = $w; mark(70);"
	case 2: // instance method call
		return "emit(" + recv + "->" + methNames[m] + "());"
	case 3: // static property read
		return "emit(Base::$" + sPropNames[m] + ");"
	case 4: // static method call
		return "emit(Base::" + sMethNames[m] + "());"
	case 5: // dynamic property name
		return "$nm = \"" + propNames[m] + "\"; emit(" + recv + "->$nm);"
	case 6: // dynamic method name
		return "$nm = \"" + methNames[m] + "\"; emit(" + recv + "->$nm());"
	case 7: // array-style read of a property
		return "emit(" + recv + "[\"" + propNames[m] + "\"]);"
	}
	return ""
}

func guarded(stmt string) string {
	return "try { " + stmt + " } catch (Throwable $e) { mark(66); }"
}

var initial = []int{1, 2, 3}
var readVals = [][]int{{1, 2, 3}, nil, {11, 12, 13}, {21, 22, 23}, {31, 32, 33}, {1, 2, 3}, {11, 12, 13}, {1, 2, 3}}

// H_visibility: (member kind x modifier) x access site.
func H_visibility() {
	kind, m := symx.Choose("kind", 8), symx.Choose("mod", 3)
	// 0 outside, 1 same class, 2 subclass, 3 unrelated class, 4 closure in global code, 5 another subclass of the
	// same parent acting on a Child instance, 6 code of the declaring class acting on an instance of a
	// SUBCLASS passed in a variable, 7 the same code inherited by and running on a subclass object, acting on
	// an instance of the declaring class
	// 8 global code acting on what a method handed out with `return $this`
	site := symx.Choose("site", 9)
	w := symx.Int("w")
	if kind == 7 && site != 0 && site != 3 && site != 4 {
		// the array-style read is an outside-access path (inside a class it is stricter than `->`,
		// which the property does not forbid): checked from global code, an unrelated class, a closure
		return
	}
	src := fixture
	same, sub, sib, bro, sameB := "return 0;", "return 0;", "return 0;", "return 0;", "return 0;"
	main := ""
	switch site {
	case 0:
		main = "$o = new Base(); " + guarded(access(kind, m, "$o")) + " emit($o->peek(" + string(rune('0'+m)) + "));"
	case 1:
		same = guarded(access(kind, m, "$this")) + " return 0;"
		main = "$o = new Base(); $o->same($w); emit($o->peek(" + string(rune('0'+m)) + "));"
	case 2:
		sub = guarded(access(kind, m, "$this")) + " return 0;"
		main = "$o = new Child(); $o->sub($w); emit($o->peek(" + string(rune('0'+m)) + "));"
	case 3:
		sib = guarded(access(kind, m, "$o")) + " return 0;"
		main = "$o = new Base(); $s = new Sib(); $s->sib($o, $w); emit($o->peek(" + string(rune('0'+m)) + "));"
	case 5:
		bro = guarded(access(kind, m, "$o")) + " return 0;"
		main = "$o = new Child(); $s = new Bro(); $s->bro($o, $w); emit($o->peek(" + string(rune('0'+m)) + "));"
	case 8:
		main = "$o = new Base(); $t = $o->me(); " + guarded(access(kind, m, "$t")) + " emit($o->peek(" + string(rune('0'+m)) + "));"
	case 6:
		sameB = guarded(access(kind, m, "$o")) + " return 0;"
		main = "$o = new Child(); $s = new Base(); $s->same2($o, $w); emit($o->peek(" + string(rune('0'+m)) + "));"
	case 7:
		sameB = guarded(access(kind, m, "$o")) + " return 0;"
		main = "$o = new Base(); $s = new Child(); $s->same2($o, $w); emit($o->peek(" + string(rune('0'+m)) + "));"
	case 4:
		main = "$o = new Base(); $f = function() use ($o, $w) { " + guarded(access(kind, m, "$o")) + " return 0; }; $f(); emit($o->peek(" + string(rune('0'+m)) + "));"
	}
	src = replace(replace(replace(replace(replace(src, "SAMEB", sameB), "SAME", same), "SUB", sub), "SIB", sib), "BRO", bro) + "\n$w = $pw;\n" + main
	s := sx.Compile(src)
	symx.Assert(s.Err == nil, "fixture parses")
	if s.Err != nil {
		return
	}
	_, ctl := s.Run(sx.Bind{Name: "pw", V: sx.Int(w)})
	allowed := m == 0 || (m == 1 && (site == 1 || site == 2)) || (m == 2 && site == 1) || site == 6 || site == 7
	// a protected member reached from another descendant of its class: the statement only bounds
	// visibility from above ("only from its class and descendants"); either outcome is accepted,
	// but a denied write must still have no effect
	either := m == 1 && site == 5
	tag := "site" + string(rune('0'+site)) + " " + mods[m] + " kind" + string(rune('0'+kind))
	symx.Assert(ctl == nil, tag+": denied access is a catchable error (script continues)")
	if ctl != nil {
		return
	}
	if either {
		if len(sx.Log) == 2 && sx.Log[0].Kind == 'M' && sx.Log[0].I == 66 {
			symx.Assert(sx.Log[1].Kind == 'i' && sx.Log[1].I == initial[m], tag+": denied access leaves the member unchanged")
			symx.Reach("end")
			return
		}
		allowed = true
	}
	// expected log
	var want []sx.Obs
	final := initial[m]
	if allowed {
		if kind == 1 {
			want = append(want, sx.Obs{Kind: 'M', I: 70})
			final = w
		} else {
			want = append(want, sx.Obs{Kind: 'i', I: readVals[kind][m]})
		}
	} else {
		want = append(want, sx.Obs{Kind: 'M', I: 66})
	}
	want = append(want, sx.Obs{Kind: 'i', I: final})
	// recorded findings (each names the exact cells it covers)
	known, id := false, ""
	outsider := site == 0 || site == 3 || site == 4 || site == 8 || (site == 5 && m == 2)
	switch {
	case m != 0 && outsider && (kind == 3 || kind == 4):
		known, id = true, "C07-static-visibility"
	case m != 0 && outsider && kind == 5:
		known, id = true, "C07-dynamic-property-visibility"
	case m == 2 && site == 2:
		known, id = true, "C07-private-in-subclass"
	}
	symx.AssertKnown(len(sx.Log) == len(want), tag+": allowed iff the visibility rule says so", known, id)
	if len(sx.Log) != len(want) {
		return
	}
	for i := range want {
		symx.AssertKnown(sx.Log[i].Kind == want[i].Kind && sx.Log[i].I == want[i].I, tag+": observed value / member unchanged when denied", known, id)
	}
	symx.Reach("end")
}

func replace(s, old, new string) string {
	for i := 0; i+len(old) <= len(s); i++ {
		if s[i:i+len(old)] == old {
			return s[:i] + new + s[i+len(old):]
		}
	}
	return s
}

// ---- declared types at the three boundaries

var types = []string{"int", "string", "array", "Base", "?int", "int|string", "A|int"}

// value expression of runtime kind v
var valueExprs = []string{"$pw", "\"s\"", "[1]", "new Base()", "new Child()", "new Sib()", "null", "1.5", "true"}

// accepts[type][value kind]
var accepts = [][]bool{
	{true, false, false, false, false, false, false, false, false}, // int
	{false, true, false, false, false, false, false, false, false}, // string
	{false, false, true, false, false, false, false, false, false}, // array
	{false, false, false, true, true, false, false, false, false},  // Base (and its subclass)
	{true, false, false, false, false, false, true, false, false},  // ?int
	{true, true, false, false, false, false, false, false, false},  // int|string
	{true, false, false, false, false, false, false, false, false}, // A|int (a union whose first member is a one-letter class name)
}

const typeFixture = `
class A { }
class Base { public $x = 0; }
class Child extends Base {}
class Sib {}
class Holder { public TYPE $t; public static TYPE $st;
  function __construct(TYPE $c = DEFAULT) { }
  function mp(TYPE $v) { return 1; }
  static function smp(TYPE $v) { return 1; }
  function mr($v): TYPE { return $v; }
  static function smr($v): TYPE { return $v; }
  static function viaSelf($v) { self::$st = $v; return 1; }
  static function viaStatic($v) { static::$st = $v; return 1; }
}
class HolderKid extends Holder {}
function takes(TYPE $v) { return 1; }
function gives($v): TYPE { return $v; }
`

// a default value of each declared type (the constructor parameter is optional so that
// `new Holder()` stays possible for the other boundaries)
var typeDefaults = []string{"0", "\"\"", "[]", "null", "null", "0", "0"}

// boundaries: where a declared type meets a value
var boundaries = []struct {
	stmt  string // VALUE is replaced by the value expression
	param bool   // a parameter boundary (the recorded null-into-typed-parameter finding applies)
	mret  bool   // a method return boundary (the recorded null-from-typed-method finding applies)
}{
	{"$h = new Holder(); $h->t = VALUE;", false, false},
	{"takes(VALUE);", true, false},
	{"gives(VALUE);", false, false},
	{"$h = new Holder(); $h->mp(VALUE);", true, false},
	{"Holder::smp(VALUE);", true, false},
	{"$h = new Holder(VALUE);", true, false},
	{"Holder::$st = VALUE;", false, false},
	{"Holder::viaSelf(VALUE);", false, false},
	{"HolderKid::viaStatic(VALUE);", false, false},
	{"$h = new Holder(); $h->mr(VALUE);", false, true},
	{"Holder::smr(VALUE);", false, true},
	{"$f = function(TYPE $v) { return 1; }; $f(VALUE);", true, false},
	{"$f = function($v): TYPE { return $v; }; $f(VALUE);", false, false},
	{"$f = fn(TYPE $v) => 1; $f(VALUE);", true, false},
	{"$f = fn($v): TYPE => $v; $f(VALUE);", false, false},
}

func H_types() {
	t, v := symx.Choose("type", len(types)), symx.Choose("value", len(valueExprs))
	boundary := symx.Choose("boundary", len(boundaries))
	w := symx.Int("w")
	// warm = 1: the same boundary is crossed once with a VALID value first (whatever the boundary
	// remembers from an accepted value must not decide the next one)
	warm := symx.Choose("warm", 2)
	pre := ""
	if warm == 1 {
		valid := []string{"1", "\"v\"", "[2]", "new Child()", "1", "\"v\"", "1"}[t]
		pre = replace(boundaries[boundary].stmt, "VALUE", valid) + "\n"
	}
	src := typeFixture + "\n" + pre + guarded(replace(boundaries[boundary].stmt, "VALUE", valueExprs[v])+" mark(70);") + "\nmark(99);"
	for i := 0; i < 12; i++ {
		src = replace(src, "TYPE", types[t])
	}
	src = replace(src, "DEFAULT", typeDefaults[t])
	s := sx.Compile(src)
	symx.Assert(s.Err == nil, "fixture parses")
	if s.Err != nil {
		return
	}
	_, ctl := s.Run(sx.Bind{Name: "pw", V: sx.Int(w)})
	tag := "`" + boundaries[boundary].stmt + "` " + types[t] + " <- " + valueExprs[v]
	symx.Assert(ctl == nil, tag+": rejection is a catchable error")
	if ctl != nil {
		return
	}
	wantMark := 66
	if accepts[t][v] {
		wantMark = 70
	}
	ok := len(sx.Log) == 2 && sx.Log[0].Kind == 'M' && sx.Log[0].I == wantMark && sx.Log[1].Kind == 'M' && sx.Log[1].I == 99
	known, id := false, ""
	if v == 6 && !accepts[t][v] {
		switch {
		case boundaries[boundary].param:
			known, id = true, "C07-null-into-typed-parameter"
		case boundaries[boundary].mret:
			// a method whose declared return type does not admit null and that returns null hands
			// the caller an empty string instead (deliberate fallback in ClassMethod.Call)
			known, id = true, "C07-null-from-typed-method"
		}
	}
	symx.AssertKnown(ok, tag+": accepted iff the value has the declared type", known, id)
	symx.Reach("end")
}

// ---- abstract classes / interfaces / unimplemented abstract methods

func H_abstract() {
	k := symx.Choose("case", 5)
	// how the object is made: literal class name, dynamic name, late-static / self factory of the class itself
	form := symx.Choose("form", 4)
	if k == 1 && form >= 2 {
		return // an interface has no method bodies to put a factory in
	}
	const fact = " static function make() { return new static(); } static function mk2() { return new self(); } "
	inst := func(cls string) string {
		switch form {
		case 1:
			return "$n = \"" + cls + "\"; $o = new $n(); mark(70);"
		case 2:
			return "$o = " + cls + "::make(); mark(70);"
		case 3:
			return "$o = " + cls + "::mk2(); mark(70);"
		}
		return "$o = new " + cls + "(); mark(70);"
	}
	// every attempt is made several times: a rejection must not wear off (nor an acceptance)
	rep := func(stmt string) string { return guarded(stmt) + " " + guarded(stmt) + " " + guarded(stmt) }
	srcs := []string{
		"abstract class A { abstract function m();" + fact + "} " + rep(inst("A")) + " mark(99);",
		"interface I { function m(); } " + rep(inst("I")) + " mark(99);",
		"abstract class A { abstract function m(); } class C extends A { function m() { return 1; }" + fact + "} " + rep(inst("C")) + " mark(99);",
		"abstract class A { abstract function m(); } class D extends A {" + fact + "} " + rep(inst("D")) + " mark(99);",
		"interface J { function m(); } class E implements J {" + fact + "} " + rep(inst("E")) + " mark(99);",
	}
	s := sx.Compile(srcs[k])
	if k >= 3 && s.Err != nil {
		symx.Reach("end") // rejected at declaration: fine
		return
	}
	symx.Assert(s.Err == nil, "fixture parses")
	if s.Err != nil {
		return
	}
	_, ctl := s.Run()
	if k >= 3 && ctl != nil {
		symx.Reach("end") // rejected when the class is declared
		return
	}
	symx.Assert(ctl == nil, "rejection is a catchable error")
	if ctl != nil {
		return
	}
	want := 66
	if k == 2 {
		want = 70
	}
	ok := len(sx.Log) == 4
	for a := 0; ok && a < 3; a++ {
		ok = sx.Log[a].Kind == 'M' && sx.Log[a].I == want
	}
	symx.Assert(ok, []string{"abstract class cannot be instantiated (every attempt)", "interface cannot be instantiated (every attempt)", "concrete subclass implementing the abstract method can be instantiated", "concrete class must implement every inherited abstract method (every attempt)", "concrete class must implement every interface method (every attempt)"}[k])
	symx.Reach("end")
}
