package c07

// Declared class types and namespaces: a type written as `Base` in global code names the global
// class Base and nothing else; a class of another namespace that merely shares the short name
// (Shop\Base), or extends / implements such a class or interface, is a different type.

import (
	"verif/harness/sx"
	"verif/symx"
)

const nsFixture = `
interface Tag {}
class Base implements Tag { public $x = 0; }
class Child extends Base {}
class Holder { public TYPE $t; }
function takes(TYPE $v) { return 1; }
function gives($v): TYPE { return $v; }
namespace Shop;
interface Tag {}
class Base { public $x = 1; }
class Kid extends Base implements Tag {}
class Holder { public TYPE $t; }
function stakes(TYPE $v) { return 1; }
function sgives($v): TYPE { return $v; }
`

var nsTypes = []string{"Base", "?Base", "Base|int", "Tag", "?Tag"}

// value expressions as written inside namespace Shop, and the namespace their class belongs to
var nsValues = []struct {
	expr   string
	global bool // instance of the GLOBAL Base (and Tag)
	shop   bool // instance of Shop\Base
	tag    bool // instance of Shop\Tag
}{
	{"new \\Base()", true, false, false},
	{"new \\Child()", true, false, false},
	{"new Base()", false, true, false},
	{"new Kid()", false, true, true},
}

func H_types_ns() {
	t, v := symx.Choose("type", len(nsTypes)), symx.Choose("value", len(nsValues))
	boundary := symx.Choose("boundary", 3) // 0 typed property, 1 parameter, 2 return value
	side := symx.Choose("declared_in", 2)  // 0 the global declarations, 1 the declarations of namespace Shop
	src := nsFixture
	for i := 0; i < 6; i++ {
		src = replace(src, "TYPE", nsTypes[t])
	}
	// (functions of the two namespaces carry different names: an unqualified call inside a namespace
	// reaches a global function of the same name first, which is outside this property)
	pre, fpre := "\\", "\\"
	if side == 1 {
		pre, fpre = "", "s"
	}
	var stmt string
	switch boundary {
	case 0:
		stmt = "$h = new " + pre + "Holder(); $h->t = " + nsValues[v].expr + "; \\mark(70);"
	case 1:
		stmt = fpre + "takes(" + nsValues[v].expr + "); \\mark(70);"
	case 2:
		stmt = fpre + "gives(" + nsValues[v].expr + "); \\mark(70);"
	}
	src += "try { " + stmt + " } catch (\\Throwable $e) { \\mark(66); }\n\\mark(99);"
	s := sx.Compile(src)
	symx.Assert(s.Err == nil, "fixture parses")
	if s.Err != nil {
		return
	}
	_, ctl := s.Run()
	tag := "declared in " + []string{"global code", "namespace Shop"}[side] + ", boundary" + string(rune('0'+boundary)) + " " + nsTypes[t] + " <- " + nsValues[v].expr
	symx.Assert(ctl == nil, tag+": rejection is a catchable error")
	if ctl != nil {
		return
	}
	val := nsValues[v]
	var accept bool
	if t < 3 { // Base
		accept = (side == 0 && val.global) || (side == 1 && val.shop)
	} else { // Tag
		accept = (side == 0 && val.global) || (side == 1 && val.tag)
	}
	wantMark := 66
	if accept {
		wantMark = 70
	}
	ok := len(sx.Log) == 2 && sx.Log[0].Kind == 'M' && sx.Log[0].I == wantMark && sx.Log[1].Kind == 'M' && sx.Log[1].I == 99
	symx.Assert(ok, tag+": accepted iff the value is an instance of the class the declaration names in its own namespace")
	symx.Reach("end")
}
