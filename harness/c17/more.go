package c17

import (
	"github.com/php-any/origami/data"
	"github.com/php-any/origami/runtime"
	"verif/harness/sx"
	"verif/symx"
)

var (
	gotI8  int8
	gotI16 int16
	gotU8  uint8
	gotU32 uint32
	gotU64 uint64
	gotM64 int64
	gotMS  string
)

func fI8(x int8) int8       { gotI8 = x; return x }
func fI16(x int16) int16    { gotI16 = x; return x }
func fU8(x uint8) uint8     { gotU8 = x; return x }
func fU32(x uint32) uint32  { gotU32 = x; return x }
func fU64(x uint64) uint64  { gotU64 = x; return x }
func fMaxU() uint64         { return 18446744073709551615 }
func fUintRes(x int) uint64 { return uint64(x) }

var f32Pool = []float32{0.1, 1.0 / 3.0, 3.4028234663852886e38, 1.401298464324817e-45, 0.5, 1.5, -2.25, 16777217}

func fF32r(k int) float32     { return f32Pool[k] }
func fF64r(x float64) float64 { return x }

// parameters and results of DEFINED types whose kind is a basic one (type Level int, time.Month ...)
type Level int
type Name string
type Celsius float64
type Flag bool

var (
	gotLevel Level
	gotName  Name
	gotCel   Celsius
	gotFlag  Flag
)

func fLevel(x Level) Level       { gotLevel = x; return x }
func fName(x Name) Name          { gotName = x; return x }
func fCelsius(x Celsius) Celsius { gotCel = x; return x }
func fFlag(x Flag) Flag          { gotFlag = x; return x }

// Calc is registered as a script class; its methods go through ReflectMethod.
type Calc struct{}

func (c *Calc) Add64(a int64) int64     { gotM64 = a; return a + 1 }
func (c *Calc) Half(f float64) float64  { gotF = f; return f }
func (c *Calc) Name(s string) string    { gotMS = s; return s + "!" }
func (c *Calc) Not(b bool) bool         { gotB = b; return !b }
func (c *Calc) Small(a int8) int8       { gotI8 = a; return a }
func (c *Calc) Two(a int, s string) int { gotI = a; gotMS = s; return a }
func (c *Calc) hidden(a int) int        { return a }

func callMore(src string, binds ...sx.Bind) (sx.Obs, bool, bool) {
	sx.Builtins = []func() data.FuncStmt{
		func() data.FuncStmt { return runtime.NewReflectFunction("go_int", fInt) },
		func() data.FuncStmt { return runtime.NewReflectFunction("go_i8", fI8) },
		func() data.FuncStmt { return runtime.NewReflectFunction("go_i16", fI16) },
		func() data.FuncStmt { return runtime.NewReflectFunction("go_i32", fI32) },
		func() data.FuncStmt { return runtime.NewReflectFunction("go_u8", fU8) },
		func() data.FuncStmt { return runtime.NewReflectFunction("go_u32", fU32) },
		func() data.FuncStmt { return runtime.NewReflectFunction("go_u64", fU64) },
		func() data.FuncStmt { return runtime.NewReflectFunction("go_maxu", fMaxU) },
		func() data.FuncStmt { return runtime.NewReflectFunction("go_ures", fUintRes) },
		func() data.FuncStmt { return runtime.NewReflectFunction("go_f32", fF32r) },
		func() data.FuncStmt { return runtime.NewReflectFunction("go_f64", fF64r) },
		func() data.FuncStmt { return runtime.NewReflectFunction("go_level", fLevel) },
		func() data.FuncStmt { return runtime.NewReflectFunction("go_name", fName) },
		func() data.FuncStmt { return runtime.NewReflectFunction("go_cel", fCelsius) },
		func() data.FuncStmt { return runtime.NewReflectFunction("go_flag", fFlag) },
		func() data.FuncStmt { return runtime.NewReflectFunction("go_f32", fF32r) },
	}
	s := sx.Compile(src)
	if s.Err != nil {
		return sx.Obs{}, false, false
	}
	s.VM.AddClass(runtime.NewReflectClass("Calc", &Calc{}))
	_, ctl := s.Run(binds...)
	if ctl != nil {
		return sx.Obs{}, sx.IsThrow(ctl), sx.IsThrow(ctl)
	}
	if len(sx.Log) == 0 {
		return sx.Obs{}, false, false
	}
	return sx.Log[0], false, true
}

// H_reflect_sized: parameters and results of the sized integer kinds: a representable value arrives
// and comes back exactly; a value outside the kind's range is a catchable error (never a wrapped
// value, never a crash).
func H_reflect_sized() {
	x := symx.Int("x")
	type sig struct {
		fn     string
		lo, hi int
		got    func() int
	}
	sigs := []sig{
		{"go_i8", -128, 127, func() int { return int(gotI8) }},
		{"go_i16", -32768, 32767, func() int { return int(gotI16) }},
		{"go_i32", -2147483648, 2147483647, func() int { return -1 << 62 }}, // fI32 records nothing
		{"go_u8", 0, 255, func() int { return int(gotU8) }},
		{"go_u32", 0, 4294967295, func() int { return int(gotU32) }},
		{"go_u64", 0, 9223372036854775807, func() int { return int(gotU64) }},
	}
	k := symx.Choose("sig", len(sigs))
	sg := sigs[k]
	o, threw, ok := callMore("emit("+sg.fn+"($a));", sx.Bind{Name: "a", V: sx.Int(x)})
	symx.Assert(ok, sg.fn+": value or catchable error")
	if !ok {
		return
	}
	fits := x >= sg.lo && x <= sg.hi
	symx.Assert(threw == !fits, sg.fn+": accepted iff the value is representable in the parameter's kind")
	if !threw && fits {
		if k != 2 {
			symx.Assert(sg.got() == x, sg.fn+": go receives the value passed")
		}
		symx.Assert(o.Kind == 'i' && o.I == x, sg.fn+": script receives the value returned")
	}
	symx.Reach("end")
}

// H_reflect_float_to_int: a float passed to an int parameter arrives only if it IS that integer.
func H_reflect_float_to_int() {
	f := symx.Float64("f")
	o, threw, ok := callMore("emit(go_int($a));", sx.Bind{Name: "a", V: sx.Float(f)})
	symx.Assert(ok, "float to int: value or catchable error")
	if !ok || threw {
		if ok {
			symx.Reach("end")
		}
		return
	}
	// accepted: the int Go received converts back to exactly the float that was passed
	symx.Assert(symx.SameFloat(float64(gotI), f) || (f == 0 && gotI == 0), "float to int: an accepted float is exactly the integer Go receives")
	symx.Assert(o.Kind == 'i' && o.I == gotI^0x5a, "float to int: result")
	symx.Reach("end")
}

// H_reflect_unsigned_result: unsigned results come back as numbers (int when they fit, else float),
// never as text.
func H_reflect_unsigned_result() {
	x := symx.Int("x")
	switch symx.Choose("which", 2) {
	case 0:
		o, threw, ok := callMore("emit(go_maxu());")
		symx.Assert(ok && !threw && o.Kind == 'f' && o.F == 18446744073709551615.0, "uint64 result above MaxInt64 is the float value")
	case 1:
		o, threw, ok := callMore("emit(go_ures($a));", sx.Bind{Name: "a", V: sx.Int(x)})
		symx.Assert(ok && !threw, "uint64 result: call completes")
		if ok && !threw && x >= 0 {
			symx.Assert(o.Kind == 'i' && o.I == x, "uint64 result that fits is the int value")
		}
	}
	symx.Reach("end")
}

// H_reflect_method: the same guarantees through a registered struct's methods (ReflectMethod).
func H_reflect_method() {
	x := symx.Int("x")
	f := symx.Float64("f")
	b := symx.Bool("b")
	s := symx.String("s", symx.Param("n", 1))
	switch symx.Choose("method", 6) {
	case 0:
		o, threw, ok := callMore("$c = new Calc(); emit($c->Add64($a));", sx.Bind{Name: "a", V: sx.Int(x)})
		symx.Assert(ok && !threw, "method int64: call completes")
		if ok && !threw {
			symx.Assert(gotM64 == int64(x) && o.Kind == 'i' && o.I == x+1, "method int64: value in, value out")
		}
	case 1:
		o, threw, ok := callMore("$c = new Calc(); emit($c->Half($a));", sx.Bind{Name: "a", V: sx.Float(f)})
		symx.Assert(ok && !threw, "method float64: call completes")
		if ok && !threw {
			symx.Assert(symx.SameFloat(gotF, f) && o.Kind == 'f' && symx.SameFloat(o.F, f), "method float64: value in, value out")
		}
	case 2:
		o, threw, ok := callMore("$c = new Calc(); emit($c->Name($a));", sx.Bind{Name: "a", V: sx.Str(s)})
		symx.Assert(ok && !threw, "method string: call completes")
		if ok && !threw {
			symx.Assert(gotMS == s && o.Kind == 's' && o.S == s+"!", "method string: value in, value out")
		}
	case 3:
		o, threw, ok := callMore("$c = new Calc(); emit($c->Not($a));", sx.Bind{Name: "a", V: sx.Bool(b)})
		symx.Assert(ok && !threw, "method bool: call completes")
		if ok && !threw {
			symx.Assert(gotB == b && o.Kind == 'b' && o.B == !b, "method bool: value in, value out")
		}
	case 4:
		o, threw, ok := callMore("$c = new Calc(); emit($c->Small($a));", sx.Bind{Name: "a", V: sx.Int(x)})
		symx.Assert(ok, "method int8: value or catchable error")
		if ok {
			fits := x >= -128 && x <= 127
			symx.Assert(threw == !fits, "method int8: accepted iff representable")
			if !threw && fits {
				symx.Assert(int(gotI8) == x && o.Kind == 'i' && o.I == x, "method int8: value in, value out")
			}
		}
	case 5:
		o, threw, ok := callMore("$c = new Calc(); emit($c->Two($a, \"q\"));", sx.Bind{Name: "a", V: sx.Int(x)})
		symx.Assert(ok && !threw, "method arity 2: call completes")
		if ok && !threw {
			symx.Assert(gotI == x && gotMS == "q" && o.Kind == 'i' && o.I == x, "method arity 2: values in, value out")
		}
	}
	symx.Reach("end")
}

// H_reflect_float_result: a float32 / float64 RESULT of a registered Go function reaches the script as
// exactly the value Go returned (float32 widened to float64 without any re-rounding through text).
func H_reflect_float_result() {
	switch symx.Choose("which", 2) {
	case 0:
		k := symx.Choose("value", len(f32Pool))
		o, threw, ok := callMore("emit(go_f32($a));", sx.Bind{Name: "a", V: sx.Int(k)})
		symx.Assert(ok && !threw, "float32 result: call completes")
		if ok && !threw {
			symx.Assert(o.Kind == 'f' && o.F == float64(f32Pool[k]), "float32 result is exactly the value Go returned, widened")
		}
	case 1:
		f := symx.Float64("f")
		o, threw, ok := callMore("emit(go_f64($a));", sx.Bind{Name: "a", V: sx.Float(f)})
		symx.Assert(ok && !threw, "float64 result: call completes")
		if ok && !threw {
			symx.Assert(o.Kind == 'f' && symx.SameFloat(o.F, f), "float64 result is exactly the value Go returned")
		}
	}
	symx.Reach("end")
}

// H_reflect_defined: Go functions whose parameter and result types are DEFINED types of kind int /
// string / float64 / bool: the value arrives as that type unchanged and comes back unchanged; the
// call never crashes the interpreter.
func H_reflect_defined() {
	switch symx.Choose("type", 4) {
	case 0:
		x := symx.Int("x")
		o, threw, ok := callMore("emit(go_level($a));", sx.Bind{Name: "a", V: sx.Int(x)})
		symx.Assert(ok && !threw, "defined int type: call completes")
		if ok && !threw {
			symx.Assert(int(gotLevel) == x && o.Kind == 'i' && o.I == x, "defined int type: value in, value out")
		}
	case 1:
		s := symx.String("s", symx.Param("n", 1))
		o, threw, ok := callMore("emit(go_name($a));", sx.Bind{Name: "a", V: sx.Str(s)})
		symx.Assert(ok && !threw, "defined string type: call completes")
		if ok && !threw {
			symx.Assert(string(gotName) == s && o.Kind == 's' && o.S == s, "defined string type: value in, value out")
		}
	case 2:
		f := symx.Float64("f")
		o, threw, ok := callMore("emit(go_cel($a));", sx.Bind{Name: "a", V: sx.Float(f)})
		symx.Assert(ok && !threw, "defined float type: call completes")
		if ok && !threw {
			symx.Assert(symx.SameFloat(float64(gotCel), f) && o.Kind == 'f' && symx.SameFloat(o.F, f), "defined float type: value in, value out")
		}
	case 3:
		b := symx.Bool("b")
		o, threw, ok := callMore("emit(go_flag($a));", sx.Bind{Name: "a", V: sx.Bool(b)})
		symx.Assert(ok && !threw, "defined bool type: call completes")
		if ok && !threw {
			symx.Assert(bool(gotFlag) == b && o.Kind == 'b' && o.B == b, "defined bool type: value in, value out")
		}
	}
	symx.Reach("end")
}

// H_reflect_float32_param: a script float passed to a float32 parameter of a registered function:
// a value float32 can hold (every float32 value incl. NaN, the infinities, signed zeros) arrives
// as exactly that value; any other value raises a catchable error.
func H_reflect_float32_param() {
	f := symx.Float64("f")
	o, threw, ok := callScript("emit(go_f32($a));", sx.Bind{Name: "a", V: sx.Float(f)})
	symx.Assert(ok, "float32 parameter: value or catchable error")
	if !ok {
		return
	}
	representable := float64(float32(f)) == f || f != f
	if representable {
		symx.Assert(!threw, "float32 parameter: a value float32 can hold is accepted")
		if !threw {
			symx.Assert(o.Kind == 'f' && symx.SameFloat(o.F, f), "float32 parameter: the value arrives (and comes back) exactly")
		}
	} else {
		symx.Assert(threw, "float32 parameter: a value float32 cannot hold is rejected with a catchable error")
	}
	symx.Reach("end")
}
