// Package c17: values cross the Go boundary unchanged (DESIGN.md §4 C17).
package c17

import (
	"github.com/php-any/origami/data"
	"github.com/php-any/origami/node"
	"github.com/php-any/origami/parser"
	"github.com/php-any/origami/runtime"
	"github.com/php-any/origami/utils"
	"verif/harness/sx"
	"verif/symx"
)

// ctxWith builds a real call context whose argument 0 is v.
func ctxWith(v data.Value) data.Context {
	p := parser.NewParser()
	vm := runtime.NewVM(p)
	vars := []data.Variable{node.NewVariable(nil, "x", 0, nil)}
	ctx := vm.CreateContext(vars)
	ctx.SetVariableValue(vars[0], v)
	return ctx
}

// ---- generic converter: int source

func srcInt() (int, data.Context) {
	x := symx.Int("x")
	return x, ctxWith(sx.Int(x))
}

func H_int_to_int() {
	x, ctx := srcInt()
	v, err := utils.ConvertFromIndex[int](ctx, 0)
	symx.Assert(err == nil && v == x, "int->int exact")
	v64, err := utils.ConvertFromIndex[int64](ctx, 0)
	symx.Assert(err == nil && v64 == int64(x), "int->int64 exact")
	symx.Reach("end")
}

func H_int_to_sized() {
	x, ctx := srcInt()
	switch symx.Choose("T", 9) {
	case 0:
		v, err := utils.ConvertFromIndex[int8](ctx, 0)
		if x >= -128 && x <= 127 {
			symx.Assert(err == nil && int(v) == x, "int->int8 representable exact")
		} else {
			symx.Assert(err != nil, "int->int8: a value outside the range is an error, not a wrapped value")
		}
	case 1:
		v, err := utils.ConvertFromIndex[int16](ctx, 0)
		if x >= -32768 && x <= 32767 {
			symx.Assert(err == nil && int(v) == x, "int->int16 representable exact")
		} else {
			symx.Assert(err != nil, "int->int16: a value outside the range is an error, not a wrapped value")
		}
	case 2:
		v, err := utils.ConvertFromIndex[int32](ctx, 0)
		if x >= -2147483648 && x <= 2147483647 {
			symx.Assert(err == nil && int(v) == x, "int->int32 representable exact")
		} else {
			symx.Assert(err != nil, "int->int32: a value outside the range is an error, not a wrapped value")
		}
	case 3:
		v, err := utils.ConvertFromIndex[uint8](ctx, 0)
		if x >= 0 && x <= 255 {
			symx.Assert(err == nil && int(v) == x, "int->uint8 representable exact")
		} else {
			symx.Assert(err != nil, "int->uint8: a value outside the range is an error, not a wrapped value")
		}
	case 4:
		v, err := utils.ConvertFromIndex[uint16](ctx, 0)
		if x >= 0 && x <= 65535 {
			symx.Assert(err == nil && int(v) == x, "int->uint16 representable exact")
		} else {
			symx.Assert(err != nil, "int->uint16: a value outside the range is an error, not a wrapped value")
		}
	case 5:
		v, err := utils.ConvertFromIndex[uint32](ctx, 0)
		if x >= 0 && x <= 4294967295 {
			symx.Assert(err == nil && int(v) == x, "int->uint32 representable exact")
		} else {
			symx.Assert(err != nil, "int->uint32: a value outside the range is an error, not a wrapped value")
		}
	case 6:
		v, err := utils.ConvertFromIndex[uint64](ctx, 0)
		if x >= 0 {
			symx.Assert(err == nil && v == uint64(x), "int->uint64 representable exact")
		} else {
			symx.Assert(err != nil, "int->uint64: a negative value is an error, not a wrapped value")
		}
	case 7:
		v, err := utils.ConvertFromIndex[uint](ctx, 0)
		if x >= 0 {
			symx.Assert(err == nil && v == uint(x), "int->uint representable exact")
		} else {
			symx.Assert(err != nil, "int->uint: a negative value is an error, not a wrapped value")
		}
	case 8:
		v, err := utils.ConvertFromIndex[float64](ctx, 0)
		if x >= -(1<<53) && x <= 1<<53 {
			symx.Assert(err == nil && v == float64(x) && int(v) == x, "int->float64 representable exact")
		}
	}
	symx.Reach("end")
}

func H_int_to_bool() {
	x, ctx := srcInt()
	v, err := utils.ConvertFromIndex[bool](ctx, 0)
	symx.Assert(err == nil && v == (x != 0), "int->bool")
	symx.Reach("end")
}

// ---- float source

func H_float_to() {
	f := symx.Float64("f")
	ctx := ctxWith(sx.Float(f))
	switch symx.Choose("T", 3) {
	case 0:
		v, err := utils.ConvertFromIndex[float64](ctx, 0)
		symx.Assert(err == nil && symx.SameFloat(v, f), "float->float64 identity")
	case 1:
		v, err := utils.ConvertFromIndex[float32](ctx, 0)
		if float64(float32(f)) == f {
			symx.Assert(err == nil && float64(v) == f, "float->float32 representable exact")
		}
	case 2:
		v, err := utils.ConvertFromIndex[int](ctx, 0)
		if f == float64(int(f)) && f > -9e18 && f < 9e18 {
			symx.Assert(err == nil && float64(v) == f, "float->int representable exact")
		}
		_ = err
	}
	symx.Reach("end")
}

// ---- bool / string sources

func H_bool_to() {
	b := symx.Bool("b")
	ctx := ctxWith(sx.Bool(b))
	v, err := utils.ConvertFromIndex[bool](ctx, 0)
	symx.Assert(err == nil && v == b, "bool->bool identity")
	symx.Reach("end")
}

func H_string_to_string() {
	n := symx.Param("n", 2)
	s := symx.String("s", n)
	ctx := ctxWith(sx.Str(s))
	v, err := utils.ConvertFromIndex[string](ctx, 0)
	symx.Assert(err == nil && v == s, "string->string identity (all bytes incl. non-UTF-8)")
	symx.Reach("end")
}

// ---- reflective registration path, through a real script call

var (
	gotI   int
	gotI64 int64
	gotF   float64
	gotS   string
	gotB   bool
)

func fInt(x int) int           { gotI = x; return x ^ 0x5a }
func fInt64(x int64) int64     { gotI64 = x; return x + 1 }
func fFloat(x float64) float64 { gotF = x; return x }
func fStr(x string) string     { gotS = x; return x + "!" }
func fBool(x bool) bool        { gotB = x; return !x }
func fTwo(x int, s string) int { gotI = x; gotS = s; return x }
func fNone() int               { return 42 }
func fI32(x int32) int32       { return x }
func fF32(x float32) float32   { return x }

func regAll() {
	sx.Builtins = []func() data.FuncStmt{
		func() data.FuncStmt { return runtime.NewReflectFunction("go_int", fInt) },
		func() data.FuncStmt { return runtime.NewReflectFunction("go_int64", fInt64) },
		func() data.FuncStmt { return runtime.NewReflectFunction("go_float", fFloat) },
		func() data.FuncStmt { return runtime.NewReflectFunction("go_str", fStr) },
		func() data.FuncStmt { return runtime.NewReflectFunction("go_bool", fBool) },
		func() data.FuncStmt { return runtime.NewReflectFunction("go_two", fTwo) },
		func() data.FuncStmt { return runtime.NewReflectFunction("go_none", fNone) },
		func() data.FuncStmt { return runtime.NewReflectFunction("go_i32", fI32) },
		func() data.FuncStmt { return runtime.NewReflectFunction("go_f32", fF32) },
	}
}

func callScript(src string, binds ...sx.Bind) (sx.Obs, bool, bool) {
	regAll()
	s := sx.Compile(src)
	if s.Err != nil {
		return sx.Obs{}, false, false
	}
	_, ctl := s.Run(binds...)
	if ctl != nil {
		return sx.Obs{}, sx.IsThrow(ctl), sx.IsThrow(ctl)
	}
	if len(sx.Log) == 0 {
		return sx.Obs{}, false, false
	}
	return sx.Log[0], false, true
}

func H_reflect_int() {
	x := symx.Int("x")
	o, threw, ok := callScript("emit(go_int($a));", sx.Bind{Name: "a", V: sx.Int(x)})
	symx.Assert(ok && !threw, "call completes")
	if !ok || threw {
		return
	}
	symx.Assert(gotI == x, "go receives the int passed")
	symx.Assert(o.Kind == 'i' && o.I == x^0x5a, "script receives the int returned")
	symx.Reach("end")
}

func H_reflect_int64() {
	x := symx.Int("x")
	o, threw, ok := callScript("emit(go_int64($a));", sx.Bind{Name: "a", V: sx.Int(x)})
	symx.Assert(ok && !threw, "call completes")
	if !ok || threw {
		return
	}
	symx.Assert(gotI64 == int64(x), "go receives the int64 passed")
	symx.Assert(o.Kind == 'i' && o.I == x+1, "script receives the int64 returned")
	symx.Reach("end")
}

func H_reflect_float() {
	f := symx.Float64("f")
	o, threw, ok := callScript("emit(go_float($a));", sx.Bind{Name: "a", V: sx.Float(f)})
	symx.Assert(ok && !threw, "call completes")
	if !ok || threw {
		return
	}
	symx.Assert(symx.SameFloat(gotF, f), "go receives the float passed")
	symx.Assert(o.Kind == 'f' && symx.SameFloat(o.F, f), "script receives the float returned")
	symx.Reach("end")
}

func H_reflect_str() {
	n := symx.Param("n", 2)
	s := symx.String("s", n)
	o, threw, ok := callScript("emit(go_str($a));", sx.Bind{Name: "a", V: sx.Str(s)})
	symx.Assert(ok && !threw, "call completes")
	if !ok || threw {
		return
	}
	symx.Assert(gotS == s, "go receives the string passed")
	symx.Assert(o.Kind == 's' && o.S == s+"!", "script receives the string returned")
	symx.Reach("end")
}

func H_reflect_bool() {
	b := symx.Bool("b")
	o, threw, ok := callScript("emit(go_bool($a));", sx.Bind{Name: "a", V: sx.Bool(b)})
	symx.Assert(ok && !threw, "call completes")
	if !ok || threw {
		return
	}
	symx.Assert(gotB == b, "go receives the bool passed")
	symx.Assert(o.Kind == 'b' && o.B == !b, "script receives the bool returned")
	symx.Reach("end")
}

func H_reflect_arity() {
	x := symx.Int("x")
	switch symx.Choose("sig", 4) {
	case 0:
		o, threw, ok := callScript("emit(go_none());")
		symx.Assert(ok && !threw && o.Kind == 'i' && o.I == 42, "arity-0 call")
	case 1:
		o, threw, ok := callScript("emit(go_two($a, \"q\"));", sx.Bind{Name: "a", V: sx.Int(x)})
		symx.Assert(ok && !threw && o.Kind == 'i' && o.I == x && gotI == x && gotS == "q", "arity-2 call")
	case 2:
		// unsupported parameter kinds: catchable error, never a crash
		_, _, ok := callScript("emit(go_i32($a));", sx.Bind{Name: "a", V: sx.Int(x)})
		symx.Assert(ok, "int32 signature: value or catchable error")
	case 3:
		_, _, ok := callScript("emit(go_f32($a));", sx.Bind{Name: "a", V: sx.Float(1.5)})
		symx.Assert(ok, "float32 signature: value or catchable error")
	}
	symx.Reach("end")
}

// every registered signature x every argument kind: no crash
func H_reflect_nocrash() {
	fns := []string{"go_int", "go_int64", "go_float", "go_str", "go_bool", "go_i32", "go_f32"}
	f := fns[symx.Choose("fn", len(fns))]
	var v data.Value
	switch symx.Choose("kind", 6) {
	case 0:
		v = sx.Int(symx.Int("x"))
	case 1:
		v = sx.Float(symx.Float64("f"))
	case 2:
		v = sx.Bool(symx.Bool("b"))
	case 3:
		v = sx.Str([]string{"", "12", "a"}[symx.Choose("s", 3)])
	case 4:
		v = sx.Null()
	case 5:
		v = data.NewArrayValue([]data.Value{sx.Int(1)})
	}
	_, _, ok := callScript("emit("+f+"($a));", sx.Bind{Name: "a", V: v})
	symx.Assert(ok, "registered call: value or catchable error")
	symx.Reach("end")
}
