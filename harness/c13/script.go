package c13

// Script-level response API: the same commit-once model, driven through the real
// ResponseWriter*Method wrappers (argument binding, parameter defaults, conversion) by a
// script handler that is parsed by the real parser and served by the real Handler.ServeHTTP.

import (
	"net/http"
	"net/url"

	"github.com/php-any/origami/data"
	"github.com/php-any/origami/node"
	ohttp "github.com/php-any/origami/std/net/http"
	"verif/harness/sx"
	"verif/symx"
)

// code($i): the i-th symbolic status code of the history
var codes [4]int

type codeFn struct{}

func (f *codeFn) Call(ctx data.Context) (data.GetValue, data.Control) {
	v, _ := ctx.GetIndexValue(0)
	i := 0
	if iv, ok := v.(*data.IntValue); ok {
		i = iv.Value
	}
	return data.NewIntValue(codes[i&3]), nil
}
func (f *codeFn) GetName() string { return "code" }
func (f *codeFn) GetParams() []data.GetValue {
	return []data.GetValue{node.NewParameter(nil, "x", 0, nil, nil)}
}
func (f *codeFn) GetVariables() []data.Variable {
	return []data.Variable{node.NewVariable(nil, "x", 0, nil)}
}

// H_script_hist: every sequence of k script-level operations on $w inside a script handler.
func H_script_hist() {
	k := symx.Param("k", 2)
	names := [4]string{"0", "1", "2", "3"}
	vals := [2]string{"1", "2"}
	urls := [2]string{"/a", "/b"}
	body := ""
	m := &model{pending: 200}
	for s := 0; s < k; s++ {
		op := symx.Choose("op"+names[s], 11)
		code := symx.IntRange("code"+names[s], 100, 999)
		codes[s] = code
		hv := 0
		if op == 1 || op == 5 || op == 6 || op == 10 {
			hv = symx.Choose("hv"+names[s], 2)
		}
		cv := "code(" + names[s] + ")"
		switch op {
		case 0:
			body += "  $w->status(" + cv + ");\n"
			if !m.committed {
				m.pending, m.statusSet = code, true
			}
		case 1:
			body += "  $w->header(\"X-A\", \"" + vals[hv] + "\");\n"
			m.live[0] = vals[hv]
		case 2:
			body += "  $w->write(\"a\");\n"
			m.commit(m.pending)
			m.body = append(m.body, 'a')
		case 3, 4:
			if op == 3 {
				body += "  $w->html(\"h\");\n"
			} else {
				body += "  $w->html(\"h\", " + cv + ");\n"
				if !m.committed {
					m.pending, m.statusSet = code, true
				}
			}
			m.live[1] = "text/html; charset=utf-8"
			m.commit(m.pending)
			m.body = append(m.body, 'h')
		case 5, 6:
			c := 302
			if op == 5 {
				body += "  $w->redirect(\"" + urls[hv] + "\");\n"
			} else {
				body += "  $w->redirect(\"" + urls[hv] + "\", " + cv + ");\n"
				c = code
			}
			m.live[2] = urls[hv]
			if !m.committed {
				m.pending, m.statusSet = c, true
			}
			m.commit(m.pending)
		case 7, 8:
			c := 204
			if op == 7 {
				body += "  $w->noContent();\n"
			} else {
				body += "  $w->noContent(" + cv + ");\n"
				c = code
			}
			if !m.committed {
				m.pending, m.statusSet = c, true
			}
			m.commit(m.pending)
		case 9:
			body += "  $w->writeHeader(" + cv + ");\n"
			m.commit(code)
		case 10:
			cn := [2]string{"sid", "csrf"}
			body += "  $w->cookie(\"" + cn[hv] + "\", \"" + vals[hv] + "\");\n"
			if m.live[3] != "" {
				m.live[3] += "|"
			}
			m.live[3] += cn[hv] + "=" + vals[hv]
		}
	}
	if !m.committed && m.statusSet {
		m.commit(m.pending) // end of handler: commitPending
	}
	sx.Builtins = []func() data.FuncStmt{func() data.FuncStmt { return &codeFn{} }}
	sc := sx.Compile("function handler($r, $w) {\n" + body + "}\n")
	symx.Assert(sc.Err == nil, "handler script parses")
	if sc.Err != nil {
		return
	}
	_, ctl := sc.Run()
	symx.Assert(ctl == nil, "handler script defines the function")
	fn, ok := sc.VM.GetFunc("handler")
	symx.Assert(ok, "handler defined")
	if !ok {
		return
	}
	rec := &recorder{hdr: http.Header{}}
	h := ohttp.Handler{Value: fn, Ctx: sc.VM.CreateContext(sc.Vars)}
	h.ServeHTTP(rec, &http.Request{Method: "GET", URL: &url.URL{Path: "/"}, Header: http.Header{}})
	symx.Assert(len(sx.Uncaught) == 0, "script: no throw from the response API")
	symx.Assert(rec.commits <= 1, "script: at most one header commit")
	symx.Assert(rec.commits == m.commits, "script: commit count")
	if m.committed && rec.commits == 1 {
		symx.Assert(rec.code == m.code, "script: client receives the last status set before the commit")
		symx.Assert(rec.sent[0] == m.sent[0] && rec.sent[1] == m.sent[1] && rec.sent[2] == m.sent[2] && rec.sent[3] == m.sent[3], "script: headers set before the commit reach the client")
	}
	symx.Assert(string(rec.body) == string(m.body), "script: body is the concatenation of the writes")
	symx.Reach("end")
}

// H_onerror: a handler performs up to two response operations and then throws; the server's
// onError callback answers with a status and a body. Whatever the handler did before throwing,
// the underlying connection sees at most one header commit, the status on the wire is the one
// pending at the first commit, and the body is the concatenation of all writes.
func H_onerror() {
	k := symx.Param("k", 2)
	names := [4]string{"0", "1", "2", "3"}
	body := ""
	m := &model{pending: 200}
	for s := 0; s < k; s++ {
		op := symx.Choose("op"+names[s], 4)
		code := symx.IntRange("code"+names[s], 100, 999)
		codes[s] = code
		switch op {
		case 0:
			body += "  $w->status(code(" + names[s] + "));\n"
			if !m.committed {
				m.pending, m.statusSet = code, true
			}
		case 1:
			body += "  $w->write(\"a\");\n"
			m.commit(m.pending)
			m.body = append(m.body, 'a')
		case 2:
			body += "  $w->header(\"X-A\", \"1\");\n"
			m.live[0] = "1"
		case 3:
			// nothing
		}
	}
	ecode := symx.IntRange("ecode", 100, 999)
	codes[3] = ecode
	// the error callback: status(ecode); write("E")
	if !m.committed {
		m.pending, m.statusSet = ecode, true
	}
	m.commit(m.pending)
	m.body = append(m.body, 'E')

	sx.Builtins = []func() data.FuncStmt{func() data.FuncStmt { return &codeFn{} }}
	sc := sx.Compile("function handler($r, $w) {\n" + body + "  throw new Exception(\"boom\");\n}\nfunction onerr($r, $w, $e) {\n  $w->status(code(3));\n  $w->write(\"E\");\n}\n")
	symx.Assert(sc.Err == nil, "scripts parse")
	if sc.Err != nil {
		return
	}
	sc.Run()
	hf, ok1 := sc.VM.GetFunc("handler")
	ef, ok2 := sc.VM.GetFunc("onerr")
	symx.Assert(ok1 && ok2, "handler and error callback defined")
	if !ok1 || !ok2 {
		return
	}
	ctx := sc.VM.CreateContext(sc.Vars)
	rec := &recorder{hdr: http.Header{}}
	chain := ohttp.VerifWithErrorHandler(ef, ctx, ohttp.Handler{Value: hf, Ctx: ctx})
	chain.ServeHTTP(rec, &http.Request{Method: "GET", URL: &url.URL{Path: "/"}, Header: http.Header{}})
	symx.Assert(rec.commits <= 1, "onError: the connection sees at most one header commit")
	symx.Assert(rec.commits == 0 || rec.code == m.code, "onError: status on the wire is the one pending at the first commit")
	symx.Assert(string(rec.body) == string(m.body), "onError: body is the concatenation of the handler's and the callback's writes")
	symx.Reach("end")
}

// H_layers: the same commit-once model when the operations are spread over two nested layers — a
// closure middleware (operations before and after $next()) around the route handler. The response
// is one object for the whole request: a status set by the handler without a body is still
// pending when the middleware continues after $next(), and is committed when the outermost layer
// returns.
func H_layers() {
	names := [4]string{"0", "1", "2", "3"}
	m := &model{pending: 200}
	gen := func(slot int) string {
		op := symx.Choose("op"+names[slot], 4)
		code := symx.IntRange("code"+names[slot], 100, 999)
		codes[slot] = code
		switch op {
		case 0:
			if !m.committed {
				m.pending, m.statusSet = code, true
			}
			return "  $w->status(code(" + names[slot] + "));\n"
		case 1:
			m.commit(m.pending)
			m.body = append(m.body, 'a'+byte(slot))
			return "  $w->write(\"" + string(rune('a'+slot)) + "\");\n"
		case 2:
			m.live[0] = names[slot]
			return "  $w->header(\"X-A\", \"" + names[slot] + "\");\n"
		}
		return ""
	}
	pre := gen(0)
	h := gen(1)
	post := gen(2) + gen(3)
	if !m.committed && m.statusSet {
		m.commit(m.pending)
	}
	sx.Builtins = []func() data.FuncStmt{func() data.FuncStmt { return &codeFn{} }}
	sc := sx.Compile("function mw($r, $w, $next) {\n" + pre + "  $next($r, $w);\n" + post + "}\nfunction handler($r, $w) {\n" + h + "}\n")
	symx.Assert(sc.Err == nil, "scripts parse")
	if sc.Err != nil {
		return
	}
	sc.Run()
	hf, ok1 := sc.VM.GetFunc("handler")
	mf, ok2 := sc.VM.GetFunc("mw")
	symx.Assert(ok1 && ok2, "handler and middleware defined")
	if !ok1 || !ok2 {
		return
	}
	ctx := sc.VM.CreateContext(sc.Vars)
	wrap, err := ohttp.VerifNewMiddleware(mf, ctx)
	symx.Assert(err == nil, "middleware accepted")
	if err != nil {
		return
	}
	rec := &recorder{hdr: http.Header{}}
	wrap(ohttp.Handler{Value: hf, Ctx: ctx}).ServeHTTP(rec, &http.Request{Method: "GET", URL: &url.URL{Path: "/"}, Header: http.Header{}})
	symx.Assert(len(sx.Uncaught) == 0, "layers: no throw")
	symx.Assert(rec.commits <= 1, "layers: at most one header commit")
	symx.Assert(rec.commits == m.commits, "layers: commit count")
	if m.committed && rec.commits == 1 {
		symx.Assert(rec.code == m.code, "layers: client receives the last status set before the first body byte, whichever layer set it")
		symx.Assert(rec.sent[0] == m.sent[0], "layers: headers set before the commit reach the client")
	}
	symx.Assert(string(rec.body) == string(m.body), "layers: body is the concatenation of the writes")
	symx.Reach("end")
}
