// Package c13: HTTP response commits once (bufferedWriter state machine) and
// middleware ordering. Reference model: DESIGN.md Appendix B.1.
package c13

import (
	"net/http"
	"strconv"

	ohttp "github.com/php-any/origami/std/net/http"
	"verif/symx"
)

// recorder is the underlying connection: counts header commits, snapshots
// status and headers at commit time (implicit 200 on first Write, like net/http).
type recorder struct {
	hdr     http.Header
	commits int
	code    int
	sent    [4]string // snapshot of X-A, Content-Type, Location, Set-Cookie (all values) at first commit
	body    []byte
	extra   int // headers present at the first commit that no operation of the history set (seed C13h)
	limit   int // declared Content-Length at the first commit + 1 (0 = none): net/http rejects body bytes beyond it
}

var keys = [4]string{"X-A", "Content-Type", "Location", "Set-Cookie"}

// headerValue renders all values of a header (Set-Cookie is multi-valued)
func headerValue(h http.Header, k string) string {
	out := ""
	for i, v := range h.Values(k) {
		if i > 0 {
			out += "|"
		}
		out += v
	}
	return out
}

func (r *recorder) Header() http.Header { return r.hdr }
func (r *recorder) commit(code int) {
	r.commits++
	if r.commits == 1 {
		r.code = code
		for i, k := range keys {
			r.sent[i] = headerValue(r.hdr, k)
		}
		for k, vs := range r.hdr {
			if k != keys[0] && k != keys[1] && k != keys[2] && k != keys[3] && len(vs) > 0 {
				r.extra++
			}
			if k == "Content-Length" && len(vs) > 0 {
				if n, err := strconv.Atoi(vs[0]); err == nil && n >= 0 {
					r.limit = n + 1
				}
			}
		}
	}
}
func (r *recorder) WriteHeader(code int) { r.commit(code) }
func (r *recorder) Write(p []byte) (int, error) {
	if r.commits == 0 {
		r.commit(200)
	}
	if r.limit > 0 && len(r.body)+len(p) > r.limit-1 {
		return 0, http.ErrContentLength // what net/http's response writer does with a declared length
	}
	r.body = append(r.body, p...)
	return len(p), nil
}

// model of commit-once semantics
type model struct {
	pending   int
	statusSet bool
	committed bool
	code      int
	live      [4]string
	sent      [4]string
	body      []byte
	commits   int
}

func (m *model) commit(c int) {
	if m.committed {
		return
	}
	m.committed = true
	m.code = c
	m.sent = m.live
	m.commits++
}

const nOps = 11

// apply performs operation op (with arguments drawn from the given symbols) on
// both the implementation and the model.
func apply(b *ohttp.BufferedWriter, m *model, op int, code int, hk, hv int, payload byte) {
	vals := [2]string{"1", "2"}
	urls := [2]string{"/a", "/b"}
	switch op {
	case 0: // status(code)
		b.SetStatus(code)
		if !m.committed {
			m.pending = code
			m.statusSet = true
		}
	case 1: // header(k,v)
		b.SetHeader(keys[hk], vals[hv])
		m.live[hk] = vals[hv]
	case 2: // write(p)
		b.Write([]byte{payload})
		m.commit(m.pending)
		m.body = append(m.body, payload)
	case 3: // html(p)
		b.WriteHTML([]byte{payload})
		m.live[1] = "text/html; charset=utf-8"
		m.commit(m.pending)
		m.body = append(m.body, payload)
	case 4: // json(p)
		b.WriteJSON([]byte{payload})
		m.live[1] = "application/json; charset=utf-8"
		m.commit(m.pending)
		m.body = append(m.body, payload)
	case 5: // redirect(url) default code 302
		b.Redirect(urls[hv], 302)
		m.live[2] = urls[hv]
		if !m.committed {
			m.pending = 302
			m.statusSet = true
		}
		m.commit(m.pending)
	case 6: // redirect(url, code)
		b.Redirect(urls[hv], code)
		m.live[2] = urls[hv]
		if !m.committed {
			m.pending = code
			m.statusSet = true
		}
		m.commit(m.pending)
	case 7: // noContent() default 204
		b.NoContent(204)
		if !m.committed {
			m.pending = 204
			m.statusSet = true
		}
		m.commit(m.pending)
	case 8: // noContent(code)
		b.NoContent(code)
		if !m.committed {
			m.pending = code
			m.statusSet = true
		}
		m.commit(m.pending)
	case 9: // writeHeader(code)
		b.WriteHeader(code)
		m.commit(code)
	case 10: // cookie(name=value): appended to the Set-Cookie values of the live header map
		names := [2]string{"sid", "csrf"}
		b.SetCookie(&http.Cookie{Name: names[hv], Value: vals[hv]})
		if m.live[3] != "" {
			m.live[3] += "|"
		}
		m.live[3] += names[hv] + "=" + vals[hv]
	}
}

func checkAgainstModel(b *ohttp.BufferedWriter, rec *recorder, m *model, tag string) {
	status, statusSet, headerSent := b.VerifState()
	symx.Assert(rec.commits <= 1, tag+"at-most-one-commit")
	symx.Assert(rec.commits == m.commits, tag+"commit-count")
	symx.Assert(headerSent == m.committed, tag+"committed-flag")
	if m.committed {
		symx.Assert(rec.code == m.code, tag+"client-status")
		symx.Assert(rec.sent == m.sent, tag+"client-headers-at-commit")
	} else {
		symx.Assert(status == m.pending, tag+"pending-status")
		symx.Assert(statusSet == m.statusSet, tag+"status-set-flag")
	}
	for i, k := range keys {
		symx.Assert(headerValue(rec.hdr, k) == m.live[i], tag+"live-headers")
	}
	symx.Assert(rec.extra == 0, tag+"only-headers-the-history-set-are-committed")
	symx.Assert(string(rec.body) == string(m.body), tag+"body")
}

// H_hist: every sequence of k operations from the initial state, symbolic
// status codes and payload bytes; then the end-of-handler commitPending.
func H_hist() {
	k := symx.Param("k", 2)
	rec := &recorder{hdr: http.Header{}}
	b := ohttp.NewBufferedWriterForVerif(rec)
	m := &model{pending: 200}
	names := [4]string{"0", "1", "2", "3"}
	for s := 0; s < k; s++ {
		op := symx.Choose("op"+names[s], nOps)
		code := symx.IntRange("code"+names[s], 100, 999)
		hk, hv := 0, 0
		switch op {
		case 1:
			hk = symx.Choose("hk"+names[s], 3)
			hv = symx.Choose("hv"+names[s], 2)
		case 5, 6, 10:
			hv = symx.Choose("hv"+names[s], 2)
		}
		payload := symx.Byte("p" + names[s])
		codeBefore, sentBefore, wasCommitted := rec.code, rec.sent, m.committed
		apply(b, m, op, code, hk, hv, payload)
		if wasCommitted {
			// calls after the commit cannot alter status or already-sent headers
			symx.Assert(rec.code == codeBefore && rec.sent == sentBefore, "post-commit-immutable")
		}
		checkAgainstModel(b, rec, m, "")
	}
	b.VerifCommitPending()
	if !m.committed && m.statusSet {
		m.commit(m.pending)
	}
	checkAgainstModel(b, rec, m, "end-")
	symx.Reach("end")
	// client-visible result
	code := 200
	if m.committed {
		code = m.code
	}
	got := 200
	if rec.commits > 0 {
		got = rec.code
	}
	symx.Assert(got == code, "client-visible-status")
}

// H_step: inductive step. Arbitrary pre-state satisfying the representation
// invariant R, one arbitrary operation, R and model agreement afterwards.
func H_step() {
	rec := &recorder{hdr: http.Header{}}
	b := ohttp.NewBufferedWriterForVerif(rec)
	m := &model{}
	// arbitrary pre-state
	status := symx.IntRange("status", 100, 999)
	statusSet := symx.Bool("statusSet")
	headerSent := symx.Bool("headerSent")
	hs := 0
	if headerSent { // concretise the flag: heap shape (recorder) depends on it
		hs = 1
	}
	b.VerifSetState(status, statusSet, hs == 1)
	m.pending, m.statusSet = status, statusSet
	vals := [3]string{"", "1", "2"}
	for i, k := range keys {
		if i == 3 {
			continue // Set-Cookie starts empty or with one cookie (below)
		}
		v := vals[symx.Choose("live"+k, 3)]
		if v != "" {
			rec.hdr.Set(k, v)
		}
		m.live[i] = v
	}
	if hs == 1 {
		// R: committed ⇔ exactly one commit recorded with the status held in b
		rec.commits, rec.code = 1, status
		m.committed, m.code, m.commits = true, status, 1
		for i := 0; i < 3; i++ {
			sv := vals[symx.Choose("sent"+keys[i], 3)]
			rec.sent[i], m.sent[i] = sv, sv
		}
		pb := symx.Byte("prebody")
		rec.body, m.body = []byte{pb}, []byte{pb}
	}
	if symx.Choose("precookie", 2) == 1 {
		rec.hdr.Add("Set-Cookie", "old=1")
		m.live[3] = "old=1"
		if hs == 1 {
			rec.sent[3], m.sent[3] = "old=1", "old=1"
		}
	}
	op := symx.Choose("op", nOps)
	code := symx.IntRange("code", 100, 999)
	hk, hv := 0, 0
	switch op {
	case 1:
		hk = symx.Choose("hk", 3)
		hv = symx.Choose("hv", 2)
	case 5, 6, 10:
		hv = symx.Choose("hv", 2)
	}
	payload := symx.Byte("p")
	codeBefore, sentBefore := rec.code, rec.sent
	apply(b, m, op, code, hk, hv, payload)
	if hs == 1 {
		symx.Assert(rec.code == codeBefore && rec.sent == sentBefore, "post-commit-immutable")
	}
	checkAgainstModel(b, rec, m, "")
	// R afterwards
	st, _, sent := b.VerifState()
	symx.Assert(sent == (rec.commits == 1), "R-headerSent-iff-one-commit")
	if sent {
		symx.Assert(st == rec.code, "R-status-is-committed-code")
	}
	symx.Reach("end")
}

// ---- middlewares

type finalH struct{ log *[]int }

func (f finalH) ServeHTTP(w http.ResponseWriter, r *http.Request) { *f.log = append(*f.log, -1) }

// H_mw: n middlewares with symbolic priorities in [-1,5]; call order must be
// ascending priority, ties in registration order, each wrapping all later ones.
func H_mw() {
	n := symx.Param("n", 3)
	names := [5]string{"0", "1", "2", "3", "4"}
	var log []int
	prio := make([]int, n)
	fns := make([]ohttp.MiddlewareFunc, n)
	for i := 0; i < n; i++ {
		prio[i] = symx.IntRange("prio"+names[i], -1, 5)
		id := i
		fns[i] = func(next http.Handler) http.Handler {
			return http.HandlerFunc(func(w http.ResponseWriter, r *http.Request) {
				log = append(log, id) // enter
				next.ServeHTTP(w, r)
				log = append(log, id+100) // leave
			})
		}
	}
	h := ohttp.VerifApplyMiddlewares(finalH{&log}, prio, fns)
	h.ServeHTTP(nil, nil)
	symx.Assert(len(log) == 2*n+1, "every-middleware-runs-once-around-final")
	if len(log) != 2*n+1 {
		return
	}
	// enter order: ascending priority, ties by registration index
	for j := 0; j+1 < n; j++ {
		a, b := log[j], log[j+1]
		symx.Assert(prio[a] < prio[b] || (prio[a] == prio[b] && a < b), "ascending-priority-stable")
	}
	symx.Assert(log[n] == -1, "final-innermost")
	// onion: leave order is the reverse of enter order
	for j := 0; j < n; j++ {
		symx.Assert(log[2*n-j] == log[j]+100, "each-wraps-all-later")
	}
	symx.Reach("end")
}
