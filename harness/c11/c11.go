// Package c11: concurrent HTTP requests do not interfere — a response depends
// only on its own request (DESIGN.md §4 C11). Two requests are served by the
// real Handler.ServeHTTP in two goroutines under the engine's scheduler; the
// package-level superglobal caches are marked shared, so every interleaving of
// their accesses is explored.
package c11

import (
	"net/http"
	"net/url"
	"sync"

	"github.com/php-any/origami/data"
	"github.com/php-any/origami/node"
	"github.com/php-any/origami/parser"
	"github.com/php-any/origami/runtime"
	ohttp "github.com/php-any/origami/std/net/http"
	"verif/symx"
)

type recorder struct {
	hdr  http.Header
	code int
	body []byte
}

func (r *recorder) Header() http.Header { return r.hdr }
func (r *recorder) WriteHeader(c int)   { r.code = c }
func (r *recorder) Write(p []byte) (int, error) {
	r.body = append(r.body, p...)
	return len(p), nil
}

const handlerSrc = `
function handler($r, $w) {
  $a = $_GET["x"];
  $i = 0;
  for ($k = 0; $k < 2; $k++) { $i = $i + $k; }
  $b = $_GET["x"];
  $w->write($a . $b);
}
`

// handler using only per-request state: the request object, locals, a loop, an array, an object
const localsSrc = `
class Box { public $v = ""; }
function handler($r, $w) {
  $q = $r->query(); $a = $q->x;
  $arr = [];
  for ($k = 0; $k < 2; $k++) { $arr[] = $a; }
  $o = new Box();
  $o->v = $a;
  $w->write($arr[0] . $o->v . $arr[1]);
}
`

func newHandler() (ohttp.Handler, bool) { return newHandlerFrom(handlerSrc) }

func newHandlerFrom(handlerSrc string) (ohttp.Handler, bool) {
	p := parser.NewParser()
	vm := runtime.NewVM(p)
	vm.SetThrowControl(func(acl data.Control) {})
	prog, ctl := p.ParseString(handlerSrc, "h.zy")
	if ctl != nil {
		return ohttp.Handler{}, false
	}
	ctx := vm.CreateContext(p.GetVariables())
	if _, c := prog.GetValue(ctx); c != nil {
		return ohttp.Handler{}, false
	}
	fn, ok := vm.GetFunc("handler")
	if !ok {
		return ohttp.Handler{}, false
	}
	return ohttp.Handler{Value: fn, Ctx: ctx}, true
}

func request(q string) *http.Request {
	return &http.Request{Method: "GET", URL: &url.URL{Path: "/", RawQuery: "x=" + q}, Header: http.Header{}}
}

// H_alone: one request at a time (reference behaviour, also a reachability witness).
func H_alone() {
	h, ok := newHandler()
	symx.Assert(ok, "handler script parses and defines handler()")
	if !ok {
		return
	}
	q := []string{"1", "2"}[symx.Choose("q", 2)]
	rec := &recorder{hdr: http.Header{}}
	h.ServeHTTP(rec, request(q))
	symx.Assert(string(rec.body) == q+q, "body is computed from the request's own parameter")
	// a second request served afterwards sees its own data
	rec2 := &recorder{hdr: http.Header{}}
	h.ServeHTTP(rec2, request("7"))
	symx.Assert(string(rec2.body) == "77", "sequential requests do not see each other's data")
	symx.Reach("end")
}

// H_two: two requests in flight at once.
func H_two() {
	h, ok := newHandler()
	symx.Assert(ok, "handler script parses and defines handler()")
	if !ok {
		return
	}
	for _, c := range node.VerifSuperglobalCells() {
		symx.Shared(c, "superglobal cache")
	}
	// recorded finding: the superglobal caches are package-level variables shared by all requests
	symx.KnownPanic("C11-shared-superglobal-cache", "on superglobal cache@", true)
	symx.KnownPanic("C11-shared-superglobal-cache", "heap cell@node.ResetSuperglobals", true)
	// this handler reads $_GET: the object behind it is created by one request and reached by the
	// other through the shared cache, so unordered accesses to that object's own cells are the same finding
	symx.KnownPanic("C11-shared-superglobal-cache", "heap cell@data.ObjectValue).GetProperty,data.ObjectValue).SetProperty,data.OrderedMap).Get,data.OrderedMap).Set", true)
	// same root cause: B resets the cache to nil between A's nil test and A's use of it
	symx.KnownPanic("C11-shared-superglobal-cache", "nil pointer dereference@(*github.com/php-any/origami/data.ObjectValue).GetProperty,(*github.com/php-any/origami/data.ObjectValue).SetProperty", true)
	// a request that completed earlier on the same handler (state it left behind is in place)
	h.ServeHTTP(&recorder{hdr: http.Header{}}, request("9"))
	qs := [2]string{"1", "2"}
	recs := [2]*recorder{{hdr: http.Header{}}, {hdr: http.Header{}}}
	var wg sync.WaitGroup
	wg.Add(2)
	for t := 0; t < 2; t++ {
		t := t
		go func() {
			h.ServeHTTP(recs[t], request(qs[t]))
			wg.Done()
		}()
	}
	wg.Wait()
	for t := 0; t < 2; t++ {
		symx.AssertKnown(string(recs[t].body) == qs[t]+qs[t], "response body equals what the handler yields for this request alone", true, "C11-shared-superglobal-cache")
	}
	symx.Reach("end")
}

// N_reentrant is the native confirmation twin of C11-shared-superglobal-cache: request A's
// handler reads $_GET, then request B is served to completion (here: from inside A's handler
// through a gate builtin, which makes the interleaving deterministic), then A reads $_GET again.
type gateFn struct{ serveB func() }

func (g *gateFn) Call(ctx data.Context) (data.GetValue, data.Control) {
	g.serveB()
	return data.NewNullValue(), nil
}
func (g *gateFn) GetName() string               { return "gate" }
func (g *gateFn) GetParams() []data.GetValue    { return nil }
func (g *gateFn) GetVariables() []data.Variable { return nil }

func N_reentrant() {
	p := parser.NewParser()
	vm := runtime.NewVM(p)
	vm.SetThrowControl(func(acl data.Control) {})
	g := &gateFn{}
	vm.AddFunc(g)
	src := `
function handler($r, $w) { $a = $_GET["x"]; if ($a == "1") { gate(); } $b = $_GET["x"]; $w->write($a . $b); }
`
	prog, ctl := p.ParseString(src, "h.zy")
	if ctl != nil {
		return
	}
	ctx := vm.CreateContext(p.GetVariables())
	prog.GetValue(ctx)
	fn, _ := vm.GetFunc("handler")
	h := ohttp.Handler{Value: fn, Ctx: ctx}
	recB := &recorder{hdr: http.Header{}}
	g.serveB = func() { h.ServeHTTP(recB, request("2")) }
	recA := &recorder{hdr: http.Header{}}
	h.ServeHTTP(recA, request("1"))
	symx.Assert(string(recA.body) == "11", "request A's response depends only on request A (native twin)")
}

// H_two_locals: two requests in flight; the handler uses the request object, locals, a loop, an
// array and an object only. No recorded finding applies: any interference is a violation.
func H_two_locals() {
	h, ok := newHandlerFrom(localsSrc)
	symx.Assert(ok, "handler script parses and defines handler()")
	if !ok {
		return
	}
	for _, c := range node.VerifSuperglobalCells() {
		symx.Shared(c, "superglobal cache")
	}
	// the unsynchronised reset of the package-level caches at the start of every request is part of
	// the recorded finding (a race on those cells only; any other race or any wrong body is a violation)
	symx.KnownPanic("C11-shared-superglobal-cache", "on superglobal cache@", true)
	symx.KnownPanic("C11-shared-superglobal-cache", "heap cell@node.ResetSuperglobals", true)
	// a request that completed earlier on the same handler (state it left behind is in place)
	h.ServeHTTP(&recorder{hdr: http.Header{}}, request("9"))
	qs := [2]string{"1", "2"}
	recs := [2]*recorder{{hdr: http.Header{}}, {hdr: http.Header{}}}
	var wg sync.WaitGroup
	wg.Add(2)
	for t := 0; t < 2; t++ {
		t := t
		go func() {
			h.ServeHTTP(recs[t], request(qs[t]))
			wg.Done()
		}()
	}
	wg.Wait()
	for t := 0; t < 2; t++ {
		symx.Observe("body", t, string(recs[t].body))
		symx.Assert(string(recs[t].body) == qs[t]+qs[t]+qs[t], "response body equals what the handler yields for this request alone")
	}
	symx.Reach("end")
}

// closure middleware around a plain handler: locals of the middleware, its $request/$response and
// everything it does AFTER $next() must belong to the request being served
const mwSrc = `
class Box { public $v = ""; }
function mw($request, $response, $next) {
  $q = $request->query(); $tag = "T" . $q->x;
  $response->write("pre:" . $q->x . ";");
  $next($request, $response);
  $response->write("post:" . $tag . ";");
}
function handler($r, $w) {
  $q = $r->query(); $a = $q->x;
  $w->write("h:" . $a . ";");
}
`

// H_two_middleware: two requests in flight through newMiddleware(mw)(Handler).
func H_two_middleware() {
	p := parser.NewParser()
	vm := runtime.NewVM(p)
	vm.SetThrowControl(func(acl data.Control) {})
	prog, ctl := p.ParseString(mwSrc, "h.zy")
	symx.Assert(ctl == nil, "script parses")
	if ctl != nil {
		return
	}
	ctx := vm.CreateContext(p.GetVariables())
	prog.GetValue(ctx)
	hf, ok1 := vm.GetFunc("handler")
	mf, ok2 := vm.GetFunc("mw")
	symx.Assert(ok1 && ok2, "handler and middleware defined")
	if !ok1 || !ok2 {
		return
	}
	wrap, err := ohttp.VerifNewMiddleware(mf, ctx)
	symx.Assert(err == nil, "middleware accepted")
	if err != nil {
		return
	}
	chain := wrap(ohttp.Handler{Value: hf, Ctx: ctx})
	for _, c := range node.VerifSuperglobalCells() {
		symx.Shared(c, "superglobal cache")
	}
	symx.KnownPanic("C11-shared-superglobal-cache", "on superglobal cache@", true)
	symx.KnownPanic("C11-shared-superglobal-cache", "heap cell@node.ResetSuperglobals", true)
	// a request that completed earlier through the same stack (whatever it left behind — pooled
	// writers, cached contexts — is there when the two concurrent requests arrive)
	if symx.Param("warm", 1) == 1 {
		warm := &recorder{hdr: http.Header{}}
		chain.ServeHTTP(warm, request("9"))
		symx.Assert(string(warm.body) == "pre:9;h:9;post:T9;", "warm-up request alone")
	}
	qs := [2]string{"1", "2"}
	recs := [2]*recorder{{hdr: http.Header{}}, {hdr: http.Header{}}}
	var wg sync.WaitGroup
	wg.Add(2)
	for t := 0; t < 2; t++ {
		t := t
		go func() {
			chain.ServeHTTP(recs[t], request(qs[t]))
			wg.Done()
		}()
	}
	wg.Wait()
	for t := 0; t < 2; t++ {
		want := "pre:" + qs[t] + ";h:" + qs[t] + ";post:T" + qs[t] + ";"
		symx.Assert(string(recs[t].body) == want, "response body equals what middleware + handler yield for this request alone")
	}
	symx.Reach("end")
}

// handler exercising the call-site kinds of the evaluator on per-request state only: instance
// method calls (chained, in a loop), a static call, a named function, a closure with a capture,
// string interpolation, foreach over objects, a ternary
const constructsSrc = `
class Box { public $v = "";
  function get() { return $this->v; }
  function set($x) { $this->v = $x; return $this; }
  static function make($x) { $b = new Box(); $b->v = $x; return $b; } }
class Scaler { public $f = "";
  function run($x) { $g = fn($v) => $v . $this->f; $h = function($v) { return $v . $this->f; }; return $g($x) . $h($x); } }
function helper($x) { return $x . ""; }
function handler($r, $w) {
  $q = $r->query(); $a = $q->x;
  $sc = new Scaler(); $sc->f = $a;
  $o = Box::make($a);
  $p = new Box(); $p->set($a);
  $f = function($z) use ($a) { return $z . $a; };
  $s = "";
  foreach ([$o, $p] as $it) { $s .= $it->get(); }
  $t = helper($a);
  $u = "{$a}";
  $w->write($s . $f("") . $t . $u . $sc->run("") . ($a == "1" ? "y" : "n"));
}
`

// H_two_constructs: two requests in flight through a handler built from many call-site kinds. The
// handler's syntax tree is shared by the two requests: whatever a call site remembers between
// evaluations is shared state, and any unsynchronised write to it is reported as a race.
func H_two_constructs() {
	h, ok := newHandlerFrom(constructsSrc)
	symx.Assert(ok, "handler script parses and defines handler()")
	if !ok {
		return
	}
	for _, c := range node.VerifSuperglobalCells() {
		symx.Shared(c, "superglobal cache")
	}
	symx.KnownPanic("C11-shared-superglobal-cache", "on superglobal cache@", true)
	symx.KnownPanic("C11-shared-superglobal-cache", "heap cell@node.ResetSuperglobals", true)
	h.ServeHTTP(&recorder{hdr: http.Header{}}, request("9"))
	qs := [2]string{"1", "2"}
	tail := [2]string{"y", "n"}
	recs := [2]*recorder{{hdr: http.Header{}}, {hdr: http.Header{}}}
	var wg sync.WaitGroup
	wg.Add(2)
	for t := 0; t < 2; t++ {
		t := t
		go func() {
			h.ServeHTTP(recs[t], request(qs[t]))
			wg.Done()
		}()
	}
	wg.Wait()
	for t := 0; t < 2; t++ {
		symx.Observe("body", t, string(recs[t].body))
		symx.Assert(string(recs[t].body) == qs[t]+qs[t]+qs[t]+qs[t]+qs[t]+qs[t]+qs[t]+tail[t], "response body equals what the handler yields for this request alone")
	}
	symx.Reach("end")
}

// a route CLOSURE that captures top-level values by value (use ($cfg, $n)) and writes to its
// copies: each request's copy is its own (the closure object and the captured originals are
// shared by all requests)
const captureSrc = `
$cfg = ["who" => "none", "hits" => 0];
$list = [1];
$n = 0;
$h = function($r, $w) use ($cfg, $list, $n) {
  $q = $r->query(); $a = $q->x;
  $cfg["who"] = $a;
  $cfg["hits"] = $cfg["hits"] + 1;
  $list[] = 2;
  $n = $n + 1;
  $w->write($cfg["who"] . ":" . $cfg["hits"] . ":" . count($list) . ":" . $n);
};
`

type countFn struct{}

func (f *countFn) Call(ctx data.Context) (data.GetValue, data.Control) {
	v, _ := ctx.GetIndexValue(0)
	if a, ok := v.(*data.ArrayValue); ok {
		return data.NewIntValue(len(a.List)), nil
	}
	if o, ok := v.(*data.ObjectValue); ok {
		n := 0
		o.RangeProperties(func(string, data.Value) bool { n++; return true })
		return data.NewIntValue(n), nil
	}
	return data.NewIntValue(0), nil
}
func (f *countFn) GetName() string { return "count" }
func (f *countFn) GetParams() []data.GetValue {
	return []data.GetValue{node.NewParameter(nil, "v", 0, nil, nil)}
}
func (f *countFn) GetVariables() []data.Variable {
	return []data.Variable{node.NewVariable(nil, "v", 0, nil)}
}

// H_two_capture: a completed request, then two requests in flight, through the capturing closure.
func H_two_capture() {
	p := parser.NewParser()
	vm := runtime.NewVM(p)
	vm.SetThrowControl(func(acl data.Control) {})
	vm.AddFunc(&countFn{})
	prog, ctl := p.ParseString(captureSrc, "h.zy")
	symx.Assert(ctl == nil, "script parses")
	if ctl != nil {
		return
	}
	vars := p.GetVariables()
	ctx := vm.CreateContext(vars)
	prog.GetValue(ctx)
	var fn data.FuncStmt
	for _, v := range vars {
		if v.GetName() == "h" {
			val, _ := v.GetValue(ctx)
			if fv, ok := val.(*data.FuncValue); ok {
				fn = fv.Value
			}
		}
	}
	symx.Assert(fn != nil, "the closure is defined")
	if fn == nil {
		return
	}
	h := ohttp.Handler{Value: fn, Ctx: ctx}
	for _, c := range node.VerifSuperglobalCells() {
		symx.Shared(c, "superglobal cache")
	}
	symx.KnownPanic("C11-shared-superglobal-cache", "on superglobal cache@", true)
	symx.KnownPanic("C11-shared-superglobal-cache", "heap cell@node.ResetSuperglobals", true)
	warm := &recorder{hdr: http.Header{}}
	h.ServeHTTP(warm, request("9"))
	symx.Assert(string(warm.body) == "9:1:2:1", "first request alone")
	qs := [2]string{"1", "2"}
	recs := [2]*recorder{{hdr: http.Header{}}, {hdr: http.Header{}}}
	var wg sync.WaitGroup
	wg.Add(2)
	for t := 0; t < 2; t++ {
		t := t
		go func() {
			h.ServeHTTP(recs[t], request(qs[t]))
			wg.Done()
		}()
	}
	wg.Wait()
	for t := 0; t < 2; t++ {
		symx.Observe("body", t, string(recs[t].body))
		symx.Assert(string(recs[t].body) == qs[t]+":1:2:1", "response body equals what the closure yields for this request alone (captured values are per call)")
	}
	symx.Reach("end")
}

// H_sequential: requests served ONE AFTER ANOTHER (no overlap) through every kind of stack —
// plain handler, closure middleware, onError wrapper, both — each reading $_GET and $_SERVER and
// the request object: every request sees its own data. The recorded superglobal finding is about
// overlapping requests; sequentially the caches are reset per request, so any stale value here is a
// violation.
const seqSrc = `
function mw($request, $response, $next) {
  $response->write("m:" . $_GET["x"] . ";");
  $next($request, $response);
}
function onerr($e, $request, $response) { $response->write("E"); }
function handler($r, $w) {
  $q = $r->query();
  $w->write("g:" . $_GET["x"] . ";q:" . $q->x . ";");
}
`

func H_sequential() {
	stack := symx.Choose("stack", 4) // 0 handler, 1 middleware, 2 onError, 3 onError around middleware
	p := parser.NewParser()
	vm := runtime.NewVM(p)
	vm.SetThrowControl(func(acl data.Control) {})
	prog, ctl := p.ParseString(seqSrc, "h.zy")
	symx.Assert(ctl == nil, "script parses")
	if ctl != nil {
		return
	}
	ctx := vm.CreateContext(p.GetVariables())
	prog.GetValue(ctx)
	hf, ok1 := vm.GetFunc("handler")
	mf, ok2 := vm.GetFunc("mw")
	ef, ok3 := vm.GetFunc("onerr")
	symx.Assert(ok1 && ok2 && ok3, "functions defined")
	if !ok1 || !ok2 || !ok3 {
		return
	}
	var chain http.Handler = ohttp.Handler{Value: hf, Ctx: ctx}
	if stack == 1 || stack == 3 {
		wrap, err := ohttp.VerifNewMiddleware(mf, ctx)
		symx.Assert(err == nil, "middleware accepted")
		if err != nil {
			return
		}
		chain = wrap(chain)
	}
	if stack >= 2 {
		chain = ohttp.VerifWithErrorHandler(ef, ctx, chain)
	}
	for _, q := range []string{"1", "2", "3"} {
		rec := &recorder{hdr: http.Header{}}
		chain.ServeHTTP(rec, request(q))
		want := "g:" + q + ";q:" + q + ";"
		if stack == 1 || stack == 3 {
			want = "m:" + q + ";" + want
		}
		symx.Assert(string(rec.body) == want, "sequential request "+q+": superglobals and the request object belong to this request")
	}
	symx.Reach("end")
}
