package c11

import (
	"net/http"

	"github.com/php-any/origami/data"
	"github.com/php-any/origami/node"
	"github.com/php-any/origami/parser"
	"github.com/php-any/origami/runtime"
	ohttp "github.com/php-any/origami/std/net/http"
	"verif/symx"
)

// holdFn is the builtin hold($id): request "1" parks at the bottom of its recursion until request
// "2" has been served completely (one particular overlap of two in-flight requests; it is produced
// deterministically by serving request 2 from inside the builtin, as N_reentrant does: the two
// requests share exactly what two goroutines of a server share, the handler, its VM and its boot context).
type holdFn struct {
	serveOther func()
}

func (g *holdFn) Call(ctx data.Context) (data.GetValue, data.Control) {
	v, _ := ctx.GetIndexValue(0)
	if s, ok := v.(data.AsString); ok && s.AsString() == "1" {
		g.serveOther()
	}
	return data.NewIntValue(0), nil
}
func (g *holdFn) GetName() string { return "hold" }
func (g *holdFn) GetParams() []data.GetValue {
	return []data.GetValue{node.NewParameter(nil, "id", 0, nil, nil)}
}
func (g *holdFn) GetVariables() []data.Variable {
	return []data.Variable{node.NewVariable(nil, "id", 0, nil)}
}

const deepDepth = 260 // two requests this deep exceed the limit of 500 only when their frames are added up

var deepSrcs = []string{
	// plain function recursion
	`function descend($n, $id) { if ($n == 0) { return hold($id); } return descend($n - 1, $id) + 1; }
function handler($r, $w) { $q = $r->query(); $d = descend(DEPTH, $q->x); $w->write($q->x . ":" . $d); }`,
	// closure recursion
	`function handler($r, $w) { $q = $r->query(); $f = function($n, $id, $self) { if ($n == 0) { return hold($id); } return $self($n - 1, $id, $self) + 1; }; $d = $f(DEPTH, $q->x, $f); $w->write($q->x . ":" . $d); }`,
	// method recursion (the recorded finding: the limit of methods is counted per VM, and plain handlers share the VM)
	`class Walker { function descend($n, $id) { if ($n == 0) { return hold($id); } return $this->descend($n - 1, $id) + 1; } }
function handler($r, $w) { $q = $r->query(); $k = new Walker(); $d = $k->descend(DEPTH, $q->x); $w->write($q->x . ":" . $d); }`,
}

// H_two_deep: two requests in flight, each recursing 260 levels deep (well inside the limit of 500
// that protects the Go stack): request 1 is parked at the bottom of its recursion while request 2
// is served. Each response equals what the request yields alone; in particular no request fails
// because the frames of the OTHER request were counted against its recursion limit.
func H_two_deep() {
	kind := symx.Choose("kind", len(deepSrcs))
	p := parser.NewParser()
	vm := runtime.NewVM(p)
	vm.SetThrowControl(func(acl data.Control) {})
	g := &holdFn{}
	vm.AddFunc(g)
	prog, ctl := p.ParseString(replaceAll(deepSrcs[kind], "DEPTH", itoa3(deepDepth)), "h.zy")
	symx.Assert(ctl == nil, "handler script parses")
	if ctl != nil {
		return
	}
	ctx := vm.CreateContext(p.GetVariables())
	if _, c := prog.GetValue(ctx); c != nil {
		symx.Assert(false, "handler script runs")
		return
	}
	fn, ok := vm.GetFunc("handler")
	symx.Assert(ok, "handler defined")
	if !ok {
		return
	}
	h := ohttp.Handler{Value: fn, Ctx: ctx}
	symx.KnownPanic("C11-shared-superglobal-cache", "on superglobal cache@", true)
	symx.KnownPanic("C11-shared-superglobal-cache", "heap cell@node.ResetSuperglobals", true)
	recs := [2]*recorder{{hdr: http.Header{}}, {hdr: http.Header{}}}
	serve := func(t int, q string) {
		defer func() {
			if r := recover(); r != nil {
				recs[t].body = append(recs[t].body, "|handler failed"...) // net/http recovers a panicking handler per connection
			}
		}()
		h.ServeHTTP(recs[t], request(q))
	}
	g.serveOther = func() { serve(1, "2") }
	serve(0, "1")
	want := [2]string{"1:" + itoa3(deepDepth), "2:" + itoa3(deepDepth)}
	for t := 0; t < 2; t++ {
		symx.AssertKnown(string(recs[t].body) == want[t], "a request recursing 260 deep gets the response it gets alone while another such request is in flight", kind == 2, "C11-call-depth-limit-shared-by-requests")
	}
	symx.Reach("end")
}

func itoa3(n int) string {
	if n == 0 {
		return "0"
	}
	s := ""
	for n > 0 {
		s = string(rune('0'+n%10)) + s
		n /= 10
	}
	return s
}

func replaceAll(s, old, new string) string {
	out := ""
	for i := 0; i < len(s); {
		if i+len(old) <= len(s) && s[i:i+len(old)] == old {
			out += new
			i += len(old)
		} else {
			out += s[i : i+1]
			i++
		}
	}
	return out
}
