package c01

// C18, second clause: the line reported for a parse error or an uncaught runtime error is the
// line of the construct that caused it. A program with one planted fault on its own line is
// preceded by a neutral construct holding a symbolic window (comment, string, heredoc, blanks),
// so the line of the fault is a function of the symbolic bytes; the location carried by the
// diagnostic (the From that Parser.ShowControl prints as file:line:col) must name that line.

import (
	"github.com/php-any/origami/data"
	"github.com/php-any/origami/parser"
	"github.com/php-any/origami/runtime"
	"github.com/php-any/origami/std/exception"
	"verif/symx"
)

// neutral constructs around the window; forbidden = bytes that would end the construct
var carriers = []struct {
	pre, post, forbidden string
	blanksOnly           bool
}{
	{"/*", "*/\n", "*", false},
	{"//", "\n", "", false},
	{"$s = '", "';\n", "'\\", false},
	{"$s = \"", "\";\n", "\"\\${", false},
	{"$s = <<<'EOT'\n", "\nEOT;\n", "", false},
	{"$s = 1;", "\n", "", true},
	{"", "", "", true},
}

// planted faults, each a single-line construct; runtime faults end in an uncaught throwable,
// parse faults are rejected by the parser
var faults = []struct {
	text    string
	parse   bool
	comment string
	offset  int  // line of the faulty construct relative to the first line of text
	atEOF   bool // the fault is the end of the source (nothing follows it)
}{
	{"throw new Exception(\"x\");", false, "uncaught throw", 0, false},
	{"$u = 1 % 0;", false, "modulo by zero", 0, false},
	{"$u = nofn(1);", false, "undefined function", 0, false},
	{"$u = new NoClass();", false, "undefined class", 0, false},
	{"$u = $q->m();", false, "method call on null", 0, false},
	{"$s = \"l1\nl2\nl3 {$q->m()} x\";", false, "method call on null inside an interpolation on the third line of a string", 2, false},
	{"$s = <<<EOT\nl1\nl2 {$q->m()} x\nEOT;", false, "method call on null inside an interpolation on the second body line of a heredoc", 2, false},
	{"$s = \"l1\nl2 @{ nofn(1) } x\";", false, "undefined function inside @{ } on the second line of a string", 1, false},
	{"$u = [1,\n  2,\n  nofn(3)];", false, "undefined function on the third line of a list literal", 2, false},
	{"$u = );", true, "stray closing parenthesis", 0, false},
	{"function f( { }", true, "parameter list", 0, false},
	{"foreach ($k) { }", true, "foreach without as", 0, false},
	{"else { $u = 1; }", true, "else without if", 0, false},
	{"$u = (1 + ;", true, "unterminated parenthesis", 0, false},
	{"if ($k { $u = 1; }", true, "unterminated condition", 0, false},
	{"if ($k", true, "input ends inside a condition", 0, true},
	{"$u = nofn(1,", true, "input ends inside an argument list", 0, true},
	{"$u = [1,\n  2,", true, "input ends inside a list literal on its second line", 1, true},
	{"function f($p) {\n  $u = (1 +", true, "input ends inside an expression on the second line of a function", 1, true},
}

func lineOfControl(ctl data.Control) (int, bool) {
	if tv, ok := ctl.(*data.ThrowValue); ok && tv.Error != nil && tv.Error.From != nil {
		l, _ := tv.Error.From.GetStartPosition()
		return l, true
	}
	return 0, false
}

func H_error_line() {
	n := symx.Param("n", 1)
	c := carriers[symx.Choose("carrier", len(carriers))]
	f := faults[symx.Choose("fault", len(faults))]
	w := symx.String("w", n)
	for i := 0; i < n; i++ {
		if c.blanksOnly {
			symx.Assume(w[i] == ' ' || w[i] == '\n' || w[i] == '\t' || w[i] == '\r')
		}
		for j := 0; j < len(c.forbidden); j++ {
			symx.Assume(w[i] != c.forbidden[j])
		}
		if c.pre == "//" && i < n-1 {
			// a line comment ends at the first line end: whatever followed it inside the window would be
			// program text, not part of the neutral construct. A line end may only close the window
			symx.Assume(w[i] != '\n')
			symx.Assume(w[i] != '\r' || (i == n-2 && w[n-1] == '\n'))
		}
		if c.pre == "$s = <<<'EOT'\n" {
			symx.Assume(w[i] != 'E') // the body must not form the closing label
		}
	}
	head := "$k = 1;\n" + c.pre + w + c.post + "$m = 2;\n"
	src := head + f.text + "\n$z = 3;\n"
	if f.atEOF {
		src = head + f.text
	}
	want := 0
	for i := 0; i < len(head); i++ {
		want += symx.Ite(head[i] == '\n', 1, 0)
	}

	p := parser.NewParser()
	vm := runtime.NewVM(p)
	vm.AddInterface(exception.NewThrowableInterface())
	vm.AddInterface(exception.NewStringableInterface())
	vm.AddClass(exception.NewExceptionClass())
	var uncaught []data.Control
	vm.SetThrowControl(func(acl data.Control) { uncaught = append(uncaught, acl) })
	data.WriteOutput = func(string) {}
	prog, ctl := p.ParseString(src, "t.zy")
	symx.Reach("parsed")
	if f.parse {
		symx.Assert(ctl != nil, "planted parse fault is rejected")
		if ctl == nil {
			return
		}
		l, ok := lineOfControl(ctl)
		symx.Assert(ok, "parse diagnostic carries a location")
		if ok {
			symx.Assert(l == want+f.offset, "parse error is reported on the line of the faulty construct: "+f.comment)
		}
		symx.Reach("end")
		return
	}
	symx.Assert(ctl == nil && prog != nil, "program with a runtime fault parses")
	if ctl != nil || prog == nil {
		return
	}
	ctx := vm.CreateContext(p.GetVariables())
	_, rctl := prog.GetValue(ctx)
	if rctl == nil && len(uncaught) > 0 {
		rctl = uncaught[0]
	}
	symx.Assert(rctl != nil, "planted runtime fault ends the script with an uncaught throwable")
	if rctl == nil {
		return
	}
	l, ok := lineOfControl(rctl)
	symx.Assert(ok, "runtime diagnostic carries a location")
	if ok {
		symx.Assert(l == want+f.offset, "uncaught error is reported on the line of the faulty construct: "+f.comment)
	}
	symx.Reach("end")
}

// faults inside a string whose text before the interpolation is symbolic: the line of the
// interpolation depends on the bytes (newlines, multi-byte characters) in front of it
var inString = []struct {
	pre, post, mark string // mark: start of the faulty construct inside post
	forbidden       string
}{
	{"$s = \"", "\n{$q->m()} x\";", "{$q", "\"\\${}@"},
	{"$s = \"a", "{$q->m()} x\";", "{$q", "\"\\${}@"},
	{"$s = \"", "\n@{ nofn(1) } x\";", "@{", "\"\\${}@"},
	{"$s = <<<EOT\n", "\n{$q->m()} x\nEOT;", "{$q", "\\${}@E"},
	{"$s = <<<EOT\nab", " {$q->m()} x\nEOT;", "{$q", "\\${}@E"},
}

// H_error_line_instring: an uncaught runtime error raised by an interpolation inside a
// (multi-line) string or heredoc is reported on the line of the interpolation, whatever bytes
// precede it inside the string.
func H_error_line_instring() {
	n := symx.Param("n", 1)
	f := inString[symx.Choose("form", len(inString))]
	w := symx.String("w", n)
	for i := 0; i < n; i++ {
		for j := 0; j < len(f.forbidden); j++ {
			symx.Assume(w[i] != f.forbidden[j])
		}
		if len(f.pre) > 8 && f.pre[5:8] == "<<<" {
			// a heredoc body is normalised (a lone CR becomes a line feed there and only there):
			// which line follows a lone CR is not defined by the property; CR LF is covered
			symx.Assume(w[i] != '\r' || (i+1 < n && w[i+1] == '\n'))
		}
	}
	at := 0
	for at+len(f.mark) <= len(f.post) && f.post[at:at+len(f.mark)] != f.mark {
		at++
	}
	before := "$k = 1;\n" + f.pre + w + f.post[:at]
	src := before + f.post[at:] + "\n$z = 3;\n"
	want := 0
	for i := 0; i < len(before); i++ {
		want += symx.Ite(before[i] == '\n', 1, 0)
	}
	p := parser.NewParser()
	vm := runtime.NewVM(p)
	vm.AddInterface(exception.NewThrowableInterface())
	vm.AddInterface(exception.NewStringableInterface())
	vm.AddClass(exception.NewExceptionClass())
	var uncaught []data.Control
	vm.SetThrowControl(func(acl data.Control) { uncaught = append(uncaught, acl) })
	data.WriteOutput = func(string) {}
	prog, ctl := p.ParseString(src, "t.zy")
	symx.Reach("parsed")
	if ctl != nil || prog == nil {
		// some windows change the structure of the string (an unterminated escape, a control
		// character the lexer rejects): a diagnostic is a legitimate outcome, the clause is about
		// accepted programs
		symx.Reach("rejected")
		return
	}
	ctx := vm.CreateContext(p.GetVariables())
	_, rctl := prog.GetValue(ctx)
	if rctl == nil && len(uncaught) > 0 {
		rctl = uncaught[0]
	}
	symx.Assert(rctl != nil, "the faulty interpolation ends the script with an uncaught throwable")
	if rctl == nil {
		return
	}
	l, ok := lineOfControl(rctl)
	symx.Assert(ok, "runtime diagnostic carries a location")
	if ok {
		symx.Assert(l == want, "error inside an interpolation is reported on the line of the interpolation")
	}
	symx.Reach("end")
}
