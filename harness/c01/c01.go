// Package c01: any source lexes and parses to a program or a diagnostic (C01),
// token spans point at the right place (C18). DESIGN.md §4.
package c01

import (
	"github.com/php-any/origami/data"
	"github.com/php-any/origami/lexer"
	"github.com/php-any/origami/parser"
	"github.com/php-any/origami/runtime"
	"github.com/php-any/origami/token"
	"time"
	"verif/symx"
)

var lx *lexer.Lexer

// Setup builds the lexer once per worker (concrete).
func Setup() { lx = lexer.NewLexer() }

// lexer-state openers: the window sits at the end (truncated tails).
var openers = []string{
	"", "\"", "'", "`", "<<<AB\n", "<<<'AB'\n", "/*", "//", "#", "b'", "0x", "0b", "1e", "1.", "\"{$", "\"$", "\"@{", "<?php ", "#!", "$", "$a->", "\\", "?", "<", "<!", "a", "1", " ", "\n", "\xe3", "\xe3\x80",
	// heredoc with the closing label one byte away (labels of a single character are not heredocs for this lexer)
	"<<<AB\nx\nA", "<<<'AB'\nA", "echo <<<AB\n$a\n A",
}

func source() (src string, winStart, winLen int) {
	n := symx.Param("n", 1)
	ctxIdx := symx.Param("ctx", -1)
	if ctxIdx < 0 {
		ctxIdx = symx.Choose("ctx", len(openers))
	}
	pre := openers[ctxIdx]
	w := symx.String("w", n)
	return pre + w, len(pre), n
}

// checkSpans asserts the C18 span laws on a token list for source src.
func checkSpans(toks []lexer.Token, src string) {
	prevEnd := 0
	for _, t := range toks {
		s, e := t.Start(), t.End()
		symx.Assert(0 <= s && s <= e && e <= len(src), "span-inside-source")
		if !(0 <= s && s <= e && e <= len(src)) {
			return
		}
		symx.Assert(s >= prevEnd, "spans-ordered-non-overlapping")
		prevEnd = e
		// line = number of newlines before the span
		nl := 0
		for i := 0; i < s; i++ {
			nl += symx.Ite(src[i] == '\n', 1, 0)
		}
		symx.Assert(t.Line() == nl, "line-is-newlines-before-span")
		switch t.Type() {
		case token.IDENTIFIER, token.INT, token.FLOAT, token.VARIABLE:
			symx.Observe("tok", int(t.Type()), s, e, t.Literal(), src[s:e])
			symx.Assert(t.Literal() == src[s:e], "literal-is-source-text")
		case token.STRING:
			// an UNESCAPED string: no backslash and none of the characters that start an interpolation
			plain := true
			for i := s; i < e; i++ {
				if src[i] == '\\' || src[i] == '$' || src[i] == '{' || src[i] == '@' {
					plain = false
				}
			}
			if plain {
				symx.Assert(t.Literal() == src[s:e], "unescaped-string-literal-is-source-text")
			}
		}
	}
}

// H_lex: plain-script tokenizer on opener ‖ window.
func H_lex() {
	src, _, _ := source()
	symx.KnownPanic("none", "", false)
	toks := lx.Tokenize(src)
	symx.Reach("lexed")
	_ = toks
}

// H_lex_spans: tokenizer + span laws (C18).
func H_lex_spans() {
	src, _, _ := source()
	toks := lx.Tokenize(src)
	symx.Reach("lexed")
	checkSpans(toks, src)
}

// window in the MIDDLE: opener ‖ window ‖ closer + following tokens, so that a line/span shift
// caused by the window is visible on the tokens after it.
var sandwiches = [][2]string{
	{"$a = \"", "\";\n$b = 1;\n$c"},
	{"$a = '", "';\n$b = 1;\n$c"},
	{"$a = `", "`;\n$b = 1;\n$c"},
	{"$a = <<<AB\n", "\nAB;\n$b = 1;\n$c"},
	{"$a = <<<'AB'\n", "\nAB;\n$b = 1;\n$c"},
	{"/*", "*/\n$b = 1;\n$c"},
	{"//", "\n$b = 1;\n$c"},
	{"#", "\n$b = 1;\n$c"},
	{"$a = 1;", "\n$b = 1;\n$c"},
	{"$a = \"x{$", "}\";\n$b = 1;\n$c"},
	{"#!/usr/bin/env origami\n", "\n$b = 1;\n$c"},
	{"#!/x", "\n<?php\n$b = 1;\n$c"},
	// the window directly after an interpolated variable, at the very end of the string / heredoc body
	{"$a = \"v=$o", "\";\n$b = 1;\n$c"},
	{"$a = <<<AB\nv=$o", "\nAB;\n$b = 1;\n$c"},
	// a multi-line string ending a statement WITHOUT a semicolon (the lexer inserts one)
	{"$a = \"x", "\ny\"\n$b = 1\n$c"},
	// a byte literal whose content holds a raw line break
	{"$a = b'", "';\n$b = 1;\n$c"},
}

func H_lex_spans_mid() {
	n := symx.Param("n", 1)
	k := symx.Choose("ctx", len(sandwiches))
	src := sandwiches[k][0] + symx.String("w", n) + sandwiches[k][1]
	toks := lx.Tokenize(src)
	symx.Reach("lexed")
	checkSpans(toks, src)
}

// H_lex_mid: the sandwiches of H_lex_spans_mid through both tokenizers, for the no-crash /
// termination clause only (a window in the MIDDLE of a source, closing delimiters after it).
func H_lex_mid() {
	n := symx.Param("n", 1)
	lo, hi := symx.Param("lo", 0), symx.Param("hi", len(sandwiches))
	k := lo + symx.Choose("ctx", hi-lo)
	src := sandwiches[k][0] + symx.String("w", n) + sandwiches[k][1]
	_ = lx.Tokenize(src)
	_ = lx.TokenizeTemplate("<?php " + src + " ?>\n<p>")
	symx.Reach("lexed")
}

// H_lex_template: <?php template mode.
func H_lex_template() {
	src, _, _ := source()
	toks := lx.TokenizeTemplate(src)
	symx.Reach("lexed")
	_ = toks
}

// parseAndRun: ParseString yields a program or a diagnostic; an accepted
// program runs to output / script-level error, never a Go panic (which would
// escape this function and be reported by the engine with its site).
func parseAndRun(src string) {
	p := parser.NewParser()
	vm := runtime.NewVM(p)
	uncaught := 0
	vm.SetThrowControl(func(acl data.Control) { uncaught++ })
	data.WriteOutput = func(string) {}
	// recorded finding family: a missing operand/clause is accepted by the parser and an
	// evaluator then calls a method on the nil child (one known-findings line per call site).
	// Registered before parsing: initialisers of class constants and static properties are
	// evaluated while the class is being parsed.
	symx.KnownPanic("C01-nil-operand@", "nil@", true)
	prog, ctl := p.ParseString(src, "t.zy")
	symx.Reach("parsed")
	symx.Assert((prog != nil && ctl == nil) || ctl != nil, "program-or-diagnostic")
	if ctl != nil || prog == nil {
		symx.Reach("rejected")
		return
	}
	symx.Reach("accepted")
	// an accepted program may legitimately loop (e.g. its increment was deleted):
	// the run gets a soft budget; only a Go panic is a violation here
	symx.SoftFuel(300000)
	symx.SoftOpaque(true)
	ctx := vm.CreateContext(p.GetVariables())
	_, rctl := prog.GetValue(ctx)
	_ = rctl
	symx.Reach("ran")
}

// H_parse: opener ‖ window through the parser and, when accepted, the evaluator.
func H_parse() {
	src, _, _ := source()
	parseAndRun(src)
}

// one-construct snippets (side-effect free): a hole is opened at every token
// boundary (insert) or in place of every token (replace; n=0 is single-token
// deletion).
var snippets = []string{
	"$a = 1 + 2 * 3;",
	"if ($a > 1) { $b = 2; } else { $b = 3; }",
	"while ($i < 3) { $i++; }",
	"for ($i = 0; $i < 3; $i++) { $s = $s + $i; }",
	"foreach ([1, 2] as $k => $v) { $s = $v; }",
	"function f($x, $y = 2) { return $x + $y; } f(1);",
	"class A { public $p = 1; function m() { return $this->p; } } $o = new A(); $o->m();",
	"$a = [1, 2, 3]; $a[] = 4; $b = $a[0];",
	"$s = \"a{$x}b\" . 'c';",
	"try { throw new Exception(\"e\"); } catch (Exception $e) { $m = 1; } finally { $n = 2; }",
	"switch ($a) { case 1: $b = 1; break; default: $b = 2; }",
	"$r = match($a) { 1 => 2, default => 3 };",
	"$f = fn($x) => $x * 2; $f(3);",
	"$g = function($x) use ($y) { return $x; };",
	"$t = $a ? $b : $c; $u = $a ?? $b;",
	"do { $i--; } while ($i > 0);",
	"interface I { function m(); } abstract class B implements I { abstract function n(); }",
	"$x = (1 + 2) * -3 ** 2; $y = !$x && $z || $w;",
	"static $n = 0; $n += 1; $m = $n <=> 2;",
	"echo 1, 2; echo \"x\";",
	"namespace N; use A\\B; const C = 1;",
	"$o?->p; $o::S; A::m(); $o->$n;",
	"list($a, $b) = [1, 2]; [$c, $d] = [3, 4];",
	"$a = <<<EOT\nline $x\nEOT;\n",
	"enum S { case A; case B; }",
	"$a instanceof A; clone $a; unset($a); isset($a); empty($a);",
	"$m = [\"a\" => 1, \"b\" => 2, \"c\" => [3, 4]]; f([\"k\" => $a, \"j\" => 2]);",
	"$r = f(g(1, [2, 3]), h([\"x\" => 1, \"y\" => 2])[0]);",
	"$o->a()->b(1, 2)->c; $p = $q[1][2]->r[\"s\"];",
	"$z = {\"a\": 1, \"b\": [1, 2], \"c\": {\"d\": 2}};",
	"$s = \"v=$x w={$y->z} u={$a[1]}\" . \"t\";",
	"array(1, 2, \"k\" => 3); list(\"a\" => $p, \"b\" => $q) = $r;",
	"if ($a) { $b = 1; } elseif ($c) { $b = 2; } else { $b = 3; } while (true) { break; }",
	"$f = function($x) use (&$y) { return $x + $y; }; $g = fn($a, $b) => [$a => $b];",
	"$a, $b = [1, 2]; $c, $d, $e = f();",
	"int $n = 1; string $s = \"x\"; ?int $m = null;",
	"class G<T> { public T $v; function set(T $x): T { return $x; } } $g = new G<int>();",
	"function h(int ...$xs): int { return 1; } h(...[1, 2]); h(a: 1, b: 2);",
	"$o = new A(1, 2); $p = new class { public $q = 1; }; $r = $o like A;",
	"abstract class T1 { use T2; const K = 1; static function s() { return static::K + self::K; } }",
	"function g2() { yield 1; yield 2 => 3; } foreach (g2() as $k => $v) { $s = $v; }",
	"$s = 'a' . \"b$c[0] {$d['k']} ${e}\" . <<<'N'\nraw\nN;\n",
	"#[Attr(1)] function an(#[P] $x) { return $x; } @Route(\"/a\") class An { }",
	"$x ??= 1; $y .= \"s\"; $z *= 2; $w <<= 1; $v = $u?->a?->b ?? 0;",
	"try { f(); } catch (A | B $e) { } for ($i = 0, $j = 1; $i < 2; $i++, $j--) { continue; }",
	"$h = <div class=\"a\">{$x}</div>; spawn f(1); $t = (int)$a + (string)$b . (float)$c;",
	"for $v in [1, 2] { $s = $v; } for $k, $v in [3] { $s = $k; }",
	"namespace N { $a = 1; function nf() { return 2; } }",
	"class DB<T> { public T $v; } $x = DB<int>(); $y = new DB<string>(); $z = func_num_args();",
	"class Pr<K, V> { public K $k; } $q = new Pr<int, string>(); $p = Pr<int, string>();",
	"$r = ($a like A) ? 1 : 2; $s = ($b instanceof A); $t = ($c ?? 1) + ($d);",
	"trait T { function foo() { return 1; } } trait U { function foo() { return 2; } } class A { use T, U { T::foo insteadof U; U::foo as bar; foo as protected baz; } }",
	"final class F { public readonly int $p; const K = 1, L = 2; public static $s = [1]; static function mk(): static { return new static(); } function __construct(private int|string $u = 1, protected ?A $v = null) { } }",
	"enum Suit: string { case H = \"h\"; case S = \"s\"; const D = self::H; function label(): string { return $this->value; } static function f(): self { return self::H; } }",
	"interface J extends I, K { const C = 1; public function m(int $a, ...$r): ?array; } function &rf(array &$a, callable $c = null): void { global $g; $g = &$a; }",
	"$v = $$n; $w = ${\"a\" . 1}; $x = $a ?: $b; print $x; $f = strlen(...); $c = static fn() => 1; $d = static function() { return 2; }; exit(0);",
	"declare(strict_types=1); include \"a.php\"; require_once __DIR__ . \"/b.php\"; goto end; end: echo __LINE__, __FILE__, PHP_EOL;",
	"foreach ($rows as [$a, [$b, $c]]) { } foreach ($m as $k => list($x, $y)) { } foreach ($q as &$r) { $r = 1; } while ($i): endwhile; if ($a): elseif ($b): else: endif;",
	"try { f(); } finally { g(); } throw new E(code: 1); $a = new (B::class)(...$args); $o::$p[0]->m()::K; A::{$m}(); $o->{$p . \"x\"} = `ls`;",
}

// whole lexemes for the pool mode of H_snip: special variables (they parse to dedicated nodes),
// keywords and multi-byte operators
var lexemePool = []string{
	"$_GET", "$this", "$GLOBALS", "$argv", "$_SERVER", "&$r", "...$r", "static", "self", "parent", "null", "new", "fn", "function",
	"?->", "::", "=>", "??", "**", "<=>", "<<<", "?>", "<?php", "/*", "#[", "@{", "${", "\\", "like", "spawn", "yield", "int", "class", "void", "mixed", "in", "\"\"", "\"x\"", "as",
}

func H_snip() {
	n := symx.Param("n", 0)
	lo, hi := symx.Param("lo", 0), symx.Param("hi", len(snippets))
	k := lo + symx.Choose("snip", hi-lo)
	base := snippets[k]
	toks := lx.Tokenize(base)
	// raw boundaries from a concrete lex of the snippet
	var starts, ends []int
	for _, t := range toks {
		if t.End() > t.Start() && t.End() <= len(base) {
			starts = append(starts, t.Start())
			ends = append(ends, t.End())
		}
	}
	if len(starts) == 0 {
		return
	}
	b := symx.Choose("tok", len(starts))
	mode := symx.Choose("mode", 2) // 0 = insert before token b, 1 = replace token b
	w := symx.String("w", n)
	if symx.Param("pool", 0) == 1 {
		// window drawn from a pool of whole lexemes that no 1-byte window can form
		w = " " + lexemePool[symx.Choose("lex", len(lexemePool))] + " "
	}
	var src string
	if mode == 0 {
		src = base[:starts[b]] + w + base[starts[b]:]
	} else {
		src = base[:starts[b]] + w + base[ends[b]:]
	}
	parseAndRun(src)
}

// H_trunc: every snippet cut off after each of its tokens (an editor saving a half-typed file, a
// truncated upload), followed by a window of n symbolic bytes, and the same prefix nested inside
// an open call / block / array so that the parser's "closing symbol expected" paths run at the
// end of input.
func H_trunc() {
	n := symx.Param("n", 0)
	lo, hi := symx.Param("lo", 0), symx.Param("hi", len(snippets))
	k := lo + symx.Choose("snip", hi-lo)
	base := snippets[k]
	toks := lx.Tokenize(base)
	var ends []int
	for _, t := range toks {
		if t.End() > t.Start() && t.End() <= len(base) {
			ends = append(ends, t.End())
		}
	}
	if len(ends) == 0 {
		return
	}
	b := symx.Choose("tok", len(ends))
	wrap := []string{"", "f(", "if ($c) { ", "$q = [", "try { ", "function g() { return "}[symx.Choose("wrap", 6)]
	src := wrap + base[:ends[b]] + symx.String("w", n)
	parseAndRun(src)
}

// H_dbg: concrete source from params (ctx, b0, b1, b2 = window bytes or -1): prints the tokens.
func H_dbg() {
	src := openers[symx.Param("ctx", 0)]
	for _, k := range []string{"b0", "b1", "b2"} {
		if v := symx.Param(k, -1); v >= 0 {
			src += string([]byte{byte(v)})
		}
	}
	for _, t := range lx.Tokenize(src) {
		symx.Observe("tok", int(t.Type()), t.Start(), t.End(), t.Line(), t.Literal(), []byte(t.Literal()))
	}
	symx.Assert(len(src) < 0, "dump")
}

// H_dbg2: symbolic window pinned by an assumption to the byte in param b0 (engine self-check aid).
func H_dbg2() {
	src := openers[symx.Param("ctx", 0)]
	w := symx.String("w", 1)
	symx.Assume(w[0] == byte(symx.Param("b0", 0)))
	src += w
	for _, t := range lx.Tokenize(src) {
		symx.Observe("tok", int(t.Type()), t.Start(), t.End(), t.Line(), t.Literal())
	}
	symx.Assert(len(src) < 0, "dump")
}

// template mode (files that start with HTML / `#!`, PHP blocks between <?php and ?>): the window sits
// in the HTML before a block, inside a block, directly after a closing tag, and between two blocks
var templateSandwiches = [][2]string{
	{"<p>", "</p>\n<?php $a = 1; ?>\n<b><?php $b = 2; ?>\n"},
	{"<?php $a = 1; ", " ?>\n<p>x</p>\n<?php $b = 2; ?>\n<i>"},
	{"<?php $a = 1; ?>", "<p>x</p>\n<?php $b = 2; ?>\n<i>"},
	{"<?php $a = 1; ?>\n", "\n<?php $b = 2; ?>\n<?php $c = 3;"},
	{"<?php $a = \"", "\"; ?>\nx\n<?php $c = 3; ?>\n"},
	{"<?php /*", "*/ $a = 1; ?>\r\n<p>\r\n<?php $b = 2; ?>\r\n<i>"},
	// a // comment in front of a closing tag on the same line, and one that runs to the end of the line
	{"<?php $a = 1; // c", " ?>\n<b>\n<?php $b = 2; ?>\n<i>"},
	{"<?php $a = 1; // c", "\n$b = 2; # d ?>\n<i>\n<?php $c = 3; ?>\n"},
}

// H_lex_template_spans: span laws (C18) on the token list of TokenizeTemplate.
func H_lex_template_spans() {
	n := symx.Param("n", 1)
	k := symx.Choose("ctx", len(templateSandwiches))
	src := templateSandwiches[k][0] + symx.String("w", n) + templateSandwiches[k][1]
	toks := lx.TokenizeTemplate(src)
	symx.Reach("lexed")
	checkSpans(toks, src)
}

// H_parse_cost: "within a time bounded by a modest function of the input length". Families of
// sources that nest one construct d levels deep are parsed at depth d and d+4; the engine counts
// the SSA instructions of the two parses exactly, and the deeper parse may cost at most 4x the
// shallower one (the input grows by less than 2x; an exponential parser doubles per level: 16x).
func H_parse_cost() {
	type fam struct{ open, leaf, close, pre string }
	fams := []fam{
		{"[$a, ", "1", "]", "$a = 1; $x = "},
		{"$x[$a, ", "1", "]", "$a = 1; $x = [1]; $y = "},
		{"f($a, ", "1", ")", "$a = 1; $y = "},
		{"($a + ", "1", ")", "$a = 1; $y = "},
		{"[\"k\" => ", "1", "]", "$y = "},
		{"$a ? ", "1", " : 2", "$a = 1; $y = "},
		{"fn($q) => ", "1", "", "$y = "},
		{"if ($a) { ", "$b = 1;", " }", "$a = 1; "},
		{"!", "$a", "", "$a = 1; $y = "},
		{"$a ?? ", "1", "", "$a = 1; $y = "},
		{"-(", "1", ")", "$y = "},
		{"[", "1", "][0]", "$y = "},
	}
	k := symx.Choose("family", len(fams))
	d := symx.Param("d", 6)
	f := fams[k]
	build := func(depth int) string {
		s := f.pre
		for i := 0; i < depth; i++ {
			s += f.open
		}
		s += f.leaf
		for i := 0; i < depth; i++ {
			s += f.close
		}
		return s + ";\n$z = 1;\n"
	}
	cost := func(src string) int {
		p := parser.NewParser()
		runtime.NewVM(p)
		c0 := symx.Cost()
		p.ParseString(src, "t.zy")
		return symx.Cost() - c0
	}
	shallow := cost(build(d))
	deep := cost(build(d + 4))
	symx.Observe("cost", k, shallow, deep)
	if symx.IsSymbolic() {
		symx.Assert(deep <= 4*shallow, "parse cost grows at most polynomially with nesting depth: "+f.open+"…")
	} else {
		// native replay has no instruction meter: the same comparison on wall-clock time at depths
		// where a doubling-per-level parser is measurable (depth 14 vs 18: 16x)
		wall := func(src string) time.Duration {
			p := parser.NewParser()
			runtime.NewVM(p)
			t0 := time.Now()
			p.ParseString(src, "t.zy")
			return time.Since(t0)
		}
		t1, t2 := wall(build(14)), wall(build(18))
		symx.Assert(t2 <= 8*t1+20*time.Millisecond, "parse cost grows at most polynomially with nesting depth: "+f.open+"…")
	}
	symx.Reach("parsed")
}

// template mode through the file path: ParseFile on a ".php" file (shebang handling, alternative
// syntax conversion, TokenizeTemplate, parser) with the window inside a PHP block, inside the HTML
// part, and inside an alternative-syntax (if: / endif;) construct. The file lives in the virtual
// file system.
var phpOpeners = []string{
	"<?php ",
	"<?php $a = ",
	"<p>x</p>\n<?php $a = 1; ?>\n<b>",
	"<?php $a = 1; ?>",
	"<p><?php echo ",
	"<?php if ($a): ?>x<?php endif; ?>\n<?php ",
	"<?php foreach ($a as $v): ?>",
	"#!/usr/bin/env origami\n<?php $a = ",
}

func H_parse_php() {
	n := symx.Param("n", 1)
	k := symx.Choose("ctx", len(phpOpeners))
	src := phpOpeners[k] + symx.String("w", n)
	root := symx.VRoot()
	defer symx.VCleanup()
	symx.VFile(root+"/t.php", src)
	p := parser.NewParser()
	vm := runtime.NewVM(p)
	vm.SetThrowControl(func(acl data.Control) {})
	data.WriteOutput = func(string) {}
	prog, ctl := p.ParseFile(root + "/t.php")
	symx.Reach("parsed")
	symx.Assert((prog != nil && ctl == nil) || ctl != nil, "php-mode: program-or-diagnostic")
}

// phpSandwiches: a window in the MIDDLE of a .php file whose tail contains alternative-syntax
// constructs (if: / endif;, else:, foreach: / endforeach;, @end directives): the rewriting pass
// of parser/preprocessor.go searches keywords, balanced parentheses and colons across the window.
var phpSandwiches = [][2]string{
	{"<?php ", " if(1): endif;"},
	{"<?php ", "IF (1): ENDIF; if(2): endif;"},
	{"<?php if(", "): endif;"},
	{"<?php if(1", "): echo 1; else: echo 2; endif;"},
	{"<?php if(1): ", " else: endif;"},
	{"<?php $s = \"", "\"; foreach($a as $b): endforeach;"},
	{"<?php /*", "*/ while(0): endwhile;"},
	{"<?php // ", "\nfor(;;): endfor;"},
	{"<?php switch(1): case 1: ", " endswitch;"},
	{"<p>", " @endif</p><?php if(1): ?>x<?php endif; ?>"},
	{"<?php if(1): ?>", "<?php endif; ?>"},
	{"<?php elseif", "(1): endif;"},
}

// H_php_mid: a symbolic window in the middle of a .php file, through Parser.ParseFile (shebang
// handling, alternative-syntax rewriting, template tokenizer, parser).
func H_php_mid() {
	n := symx.Param("n", 1)
	k := symx.Choose("ctx", len(phpSandwiches))
	src := phpSandwiches[k][0] + symx.String("w", n) + phpSandwiches[k][1]
	root := symx.VRoot()
	defer symx.VCleanup()
	symx.VFile(root+"/t.php", src)
	p := parser.NewParser()
	vm := runtime.NewVM(p)
	vm.SetThrowControl(func(acl data.Control) {})
	data.WriteOutput = func(string) {}
	symx.KnownPanic("C01-nil-operand@", "nil@", true)
	prog, ctl := p.ParseFile(root + "/t.php")
	symx.Reach("parsed")
	symx.Assert((prog != nil && ctl == nil) || ctl != nil, "php-mode (window in the middle): program-or-diagnostic")
}

// htmlOpeners: sources the lexer hands to the HTML tokenizer (they start with <!DOCTYPE).
var htmlOpeners = [][2]string{
	{"<!DOCTYPE", ""},
	{"<!DOCTYPE html>", ""},
	{"<!DOCTYPE html>\n<div ", ">x</div>"},
	{"<!DOCTYPE html>\n<div a=", " b=\"1\">x</div>"},
	{"<!DOCTYPE html>\n<div a=\"", "\">x</div>"},
	{"<!DOCTYPE html>\n<div>", "</div>"},
	{"<!DOCTYPE html>\n<div>{{ ", " }}</div>"},
	{"<!DOCTYPE html>\n<div>{", "}</div>"},
	{"<!DOCTYPE html>\n<p", ""},
	{"<!DOCTYPE html>\n</", "p>"},
	{"<!DOCTYPE html>\n<!--", "-->\n<p>x</p>"},
	{"<!DOCTYPE html>\n<script>", "</script>"},
	{"<!DOCTYPE html>\n<style>", "</style>"},
	{"<!DOCTYPE html>\n<?php ", " ?>\n<p>"},
	{"<!DOCTYPE html>\n<div @click=\"", "\" :x=\"1\"/>"},
	{"<!DOCTYPE html>\n<div for=\"$a in $b\" ", "/>"},
}

// H_html_lex: the HTML tokenizer on a symbolic window: terminates without a Go panic, spans lie
// inside the source.
func H_html_lex() {
	n := symx.Param("n", 1)
	k := symx.Choose("ctx", len(htmlOpeners))
	src := htmlOpeners[k][0] + symx.String("w", n) + htmlOpeners[k][1]
	toks := lx.Tokenize(src)
	symx.Reach("lexed")
	for _, t := range toks {
		s, e := t.Start(), t.End()
		symx.Assert(0 <= s && s <= e && e <= len(src), "html: span-inside-source")
	}
}

// H_html_parse: the same sources through the parser and, when accepted, the evaluator: a program
// or a positioned diagnostic; an accepted template renders or raises a script-level error.
func H_html_parse() {
	n := symx.Param("n", 1)
	k := symx.Choose("ctx", len(htmlOpeners))
	parseAndRun(htmlOpeners[k][0] + symx.String("w", n) + htmlOpeners[k][1])
}
