// Package sx: script-template harness helpers (DESIGN.md §3.2). A template is
// parsed by the real lexer+parser on a bare VM and run by the real evaluators
// with designated variables bound to (symbolic) scalars; observations are made
// through the emit()/mark() builtins, which copy scalars out at call time.
package sx

import (
	"github.com/php-any/origami/data"
	"github.com/php-any/origami/node"
	"github.com/php-any/origami/parser"
	"github.com/php-any/origami/runtime"
	"github.com/php-any/origami/std/exception"
)

// Obs is one observation made by the running script.
type Obs struct {
	Kind byte // i f s b n a o (value kinds), M (mark), O (echo output)
	I    int
	F    float64
	S    string
	B    bool
}

// Log is the observation log of the current run.
var Log []Obs

// Uncaught collects the controls handed to the VM's uncaught-error hook
// (vm.ThrowControl) during the current run. The CLI's hook prints the
// diagnostic and exits with status 1; the harness hook records instead.
var Uncaught []data.Control

func observe(v data.Value) Obs {
	switch x := v.(type) {
	case *data.IntValue:
		return Obs{Kind: 'i', I: x.Value}
	case *data.FloatValue:
		return Obs{Kind: 'f', F: x.Value}
	case *data.StringValue:
		return Obs{Kind: 's', S: x.Value}
	case *data.BoolValue:
		return Obs{Kind: 'b', B: x.Value}
	case *data.NullValue:
		return Obs{Kind: 'n'}
	case *data.ArrayValue:
		return Obs{Kind: 'a', I: len(x.List)}
	case nil:
		return Obs{Kind: 'n'}
	}
	return Obs{Kind: 'o'}
}

// Observe converts a script value into an observation (copying scalars).
func Observe(v data.Value) Obs { return observe(v) }

type emitFn struct{}

func (f *emitFn) Call(ctx data.Context) (data.GetValue, data.Control) {
	v, _ := ctx.GetIndexValue(0)
	Log = append(Log, observe(v))
	return data.NewNullValue(), nil
}
func (f *emitFn) GetName() string { return "emit" }
func (f *emitFn) GetParams() []data.GetValue {
	return []data.GetValue{node.NewParameter(nil, "x", 0, nil, nil)}
}
func (f *emitFn) GetVariables() []data.Variable {
	return []data.Variable{node.NewVariable(nil, "x", 0, nil)}
}

// dump($x): like emit, but arrays are written out element by element
// ('a' with the length, then the elements, recursively).
type dumpFn struct{}

func dumpValue(v data.Value, depth int) {
	if arr, ok := v.(*data.ArrayValue); ok && depth < 4 {
		Log = append(Log, Obs{Kind: 'a', I: len(arr.List)})
		for _, z := range arr.List {
			if z == nil {
				Log = append(Log, Obs{Kind: 'n'})
				continue
			}
			dumpValue(z.Value, depth+1)
		}
		return
	}
	Log = append(Log, observe(v))
}

func (f *dumpFn) Call(ctx data.Context) (data.GetValue, data.Control) {
	v, _ := ctx.GetIndexValue(0)
	dumpValue(v, 0)
	return data.NewNullValue(), nil
}
func (f *dumpFn) GetName() string { return "dump" }
func (f *dumpFn) GetParams() []data.GetValue {
	return []data.GetValue{node.NewParameter(nil, "x", 0, nil, nil)}
}
func (f *dumpFn) GetVariables() []data.Variable {
	return []data.Variable{node.NewVariable(nil, "x", 0, nil)}
}

type markFn struct{}

func (f *markFn) Call(ctx data.Context) (data.GetValue, data.Control) {
	v, _ := ctx.GetIndexValue(0)
	o := observe(v)
	o.Kind = 'M'
	Log = append(Log, o)
	return data.NewNullValue(), nil
}
func (f *markFn) GetName() string { return "mark" }
func (f *markFn) GetParams() []data.GetValue {
	return []data.GetValue{node.NewParameter(nil, "x", 0, nil, nil)}
}
func (f *markFn) GetVariables() []data.Variable {
	return []data.Variable{node.NewVariable(nil, "x", 0, nil)}
}

// Script is one parsed template on its own VM.
type Script struct {
	Src  string
	P    *parser.Parser
	VM   data.VM
	Prog *node.Program
	Err  data.Control // parse error, if any
	Vars []data.Variable
}

// Extra builtins to register on every new VM (set by harness packages).
var Builtins []func() data.FuncStmt

// Extra classes to register on every new VM (set by harness packages).
var Classes []func() data.ClassStmt

// Compile parses src on a fresh bare VM (emit/mark registered).
func Compile(src string) *Script {
	p := parser.NewParser()
	vm := runtime.NewVM(p)
	vm.AddFunc(&emitFn{})
	vm.AddFunc(&markFn{})
	vm.AddFunc(&dumpFn{})
	// Throwable / Exception as registered by std.Load (package std itself is not imported:
	// it drags the database drivers into the SSA program)
	vm.AddInterface(exception.NewThrowableInterface())
	vm.AddInterface(exception.NewStringableInterface())
	vm.AddClass(exception.NewExceptionClass())
	for _, b := range Builtins {
		vm.AddFunc(b())
	}
	for _, c := range Classes {
		vm.AddClass(c())
	}
	vm.SetThrowControl(func(acl data.Control) { Uncaught = append(Uncaught, acl) })
	prog, acl := p.ParseString(src, "t.zy")
	s := &Script{Src: src, P: p, VM: vm, Prog: prog, Err: acl}
	if acl == nil {
		s.Vars = p.GetVariables()
	}
	return s
}

// Bind is a variable binding for a run.
type Bind struct {
	Name string
	V    data.Value
}

// Run executes the script on a fresh context with the given bindings.
// The observation log is reset first; echo output is appended as 'O' records.
func (s *Script) Run(binds ...Bind) (data.GetValue, data.Control) {
	Log = Log[:0]
	Uncaught = Uncaught[:0]
	data.WriteOutput = func(str string) { Log = append(Log, Obs{Kind: 'O', S: str}) }
	ctx := s.VM.CreateContext(s.Vars)
	for _, b := range binds {
		for _, v := range s.Vars {
			if v.GetName() == b.Name {
				ctx.SetVariableValue(v, b.V)
			}
		}
	}
	v, ctl := s.Prog.GetValue(ctx)
	if ctl == nil && len(Uncaught) > 0 {
		ctl = Uncaught[0] // the script ended with an uncaught throwable
	}
	return v, ctl
}

func Int(v int) data.Value       { return data.NewIntValue(v) }
func Float(v float64) data.Value { return data.NewFloatValue(v) }
func Str(v string) data.Value    { return data.NewStringValue(v) }
func Bool(v bool) data.Value     { return data.NewBoolValue(v) }
func Null() data.Value           { return data.NewNullValue() }

// IsThrow reports whether c is a script-level throwable (catchable error).
func IsThrow(c data.Control) bool {
	if c == nil {
		return false
	}
	_, ok := c.(*data.ThrowValue)
	return ok
}
