// Package c19: a generic instantiation enforces its own type arguments,
// whatever came before (DESIGN.md §4 C19).
package c19

import (
	"verif/harness/sx"
	"verif/symx"
)

var typeArgs = []string{"int", "string", "array", "U"}
var valueExprs = []string{"$pw", "\"s\"", "[1]", "new U()"}

// H_history: k steps, each either "instantiate Box<T> into slot s" or "write a value of kind K
// into $slot->v" (directly or through a T-typed method parameter). Expected acceptance of a
// write = (K == the type argument of that slot's own instantiation).
func H_history() {
	k := symx.Param("k", 2)
	w := symx.Int("w")
	names := []string{"0", "1", "2", "3"}
	src := "class U {}\nclass Box<T> { public T $v; public function set(T $x) { $this->v = $x; return 1; } }\n"
	slotType := []int{-1, -1}
	distinct := map[int]bool{}
	mixedBefore := make([]bool, 0, k) // per write: had two different type arguments been instantiated before it
	var wantAccept []bool
	for s := 0; s < k; s++ {
		op := symx.Choose("op"+names[s], 3) // 0 instantiate, 1 write property, 2 write through typed parameter
		slot := symx.Choose("slot"+names[s], 2)
		arg := symx.Choose("arg"+names[s], 4)
		sv := "$b" + names[slot]
		switch op {
		case 0:
			// a fifth way to instantiate: the raw class without type arguments (its T-typed members
			// are unconstrained; it must not loosen or tighten any other instance)
			if symx.Choose("raw"+names[s], 2) == 1 {
				src += sv + " = new Box();\n"
				slotType[slot] = 4
				distinct[4] = true
				break
			}
			src += sv + " = new Box<" + typeArgs[arg] + ">();\n"
			slotType[slot] = arg
			distinct[arg] = true
		default:
			if slotType[slot] < 0 {
				return // write to an empty slot: not a history of the property
			}
			stmt := sv + "->v = " + valueExprs[arg] + ";"
			if op == 2 {
				stmt = sv + "->set(" + valueExprs[arg] + ");"
			}
			src += "try { " + stmt + " mark(1); } catch (Throwable $e) { mark(0); }\n"
			wantAccept = append(wantAccept, arg == slotType[slot] || slotType[slot] == 4)
			mixedBefore = append(mixedBefore, len(distinct) > 1)
		}
	}
	if len(wantAccept) == 0 {
		return
	}
	s := sx.Compile(src)
	symx.Assert(s.Err == nil, "history parses")
	if s.Err != nil {
		return
	}
	_, ctl := s.Run(sx.Bind{Name: "pw", V: sx.Int(w)})
	symx.Assert(ctl == nil, "history runs")
	if ctl != nil {
		return
	}
	symx.Assert(len(sx.Log) == len(wantAccept), "one outcome per write")
	if len(sx.Log) != len(wantAccept) {
		return
	}
	for i, wa := range wantAccept {
		got := sx.Log[i].Kind == 'M' && sx.Log[i].I == 1
		// recorded finding: after instantiations with two different type arguments, every
		// instance enforces the FIRST argument ever used
		symx.AssertKnown(got == wa, "write accepted iff the value has this instance's own type argument", mixedBefore[i], "C19-first-instantiation-wins")
	}
	symx.Reach("end")
}

// H_two: the shape that matters most, for every pair of type arguments: instantiate Box<A>,
// use it, instantiate Box<B> (same or other slot), then write every value kind into the second
// instance and again into the first.
func H_two() {
	a, b, kind := symx.Choose("A", 4), symx.Choose("B", 4), symx.Choose("kind", 4)
	via := symx.Choose("via", 2)
	w := symx.Int("w")
	src := "class U {}\nclass Box<T> { public T $v; public function set(T $x) { $this->v = $x; return 1; } }\n"
	src += "$x = new Box<" + typeArgs[a] + ">();\n$x->v = " + valueExprs[a] + ";\n"
	src += "$y = new Box<" + typeArgs[b] + ">();\n"
	wr := func(v, e string) string {
		if via == 1 {
			return "try { " + v + "->set(" + e + "); mark(1); } catch (Throwable $e) { mark(0); }\n"
		}
		return "try { " + v + "->v = " + e + "; mark(1); } catch (Throwable $e) { mark(0); }\n"
	}
	src += wr("$y", valueExprs[kind]) + wr("$x", valueExprs[kind])
	s := sx.Compile(src)
	symx.Assert(s.Err == nil, "history parses")
	if s.Err != nil {
		return
	}
	_, ctl := s.Run(sx.Bind{Name: "pw", V: sx.Int(w)})
	symx.Assert(ctl == nil, "history runs")
	if ctl != nil || len(sx.Log) != 2 {
		symx.Assert(ctl != nil || len(sx.Log) == 2, "one outcome per write")
		return
	}
	gotY := sx.Log[0].Kind == 'M' && sx.Log[0].I == 1
	gotX := sx.Log[1].Kind == 'M' && sx.Log[1].I == 1
	symx.Assert(gotY == (kind == b), "second instance enforces its own type argument")
	symx.Assert(gotX == (kind == a), "first instance keeps enforcing its own type argument")
	symx.Reach("end")
}

// H_members: a generic class with two type parameters and three typed members; after touching one
// member every other member still enforces its own type argument (single instantiation: no
// recorded finding applies).
func H_members() {
	a, b := symx.Choose("K", 4), symx.Choose("V", 4)
	first := symx.Choose("first", 3)   // member touched first (with a valid value)
	target := symx.Choose("target", 3) // member then written
	kind := symx.Choose("kind", 4)
	w := symx.Int("w")
	members := []string{"k", "val", "k2"}
	mtype := []int{a, b, a}
	src := "class U {}\nclass Pair<K, V> { public K $k; public V $val; public K $k2; }\n$p = new Pair<" + typeArgs[a] + ", " + typeArgs[b] + ">();\n"
	src += "$p->" + members[first] + " = " + valueExprs[mtype[first]] + ";\n"
	src += "try { $p->" + members[target] + " = " + valueExprs[kind] + "; mark(1); } catch (Throwable $e) { mark(0); }\n"
	s := sx.Compile(src)
	symx.Assert(s.Err == nil, "history parses")
	if s.Err != nil {
		return
	}
	_, ctl := s.Run(sx.Bind{Name: "pw", V: sx.Int(w)})
	symx.Assert(ctl == nil && len(sx.Log) == 1, "history runs")
	if ctl != nil || len(sx.Log) != 1 {
		return
	}
	got := sx.Log[0].Kind == 'M' && sx.Log[0].I == 1
	symx.Assert(got == (kind == mtype[target]), "each typed member enforces its own type argument, whichever member was used first")
	symx.Reach("end")
}

// H_factory: ONE `new Box<A>()` expression evaluated several times (factory function, loop body):
// every object it creates enforces A, whichever of them is written first. A single type argument
// is used, so the recorded first-instantiation finding does not apply.
func H_factory() {
	a, kind := symx.Choose("A", 4), symx.Choose("kind", 4)
	shape := symx.Choose("shape", 2) // 0 factory function called 3 times, 1 loop body
	first := symx.Choose("first", 3) // which of the three objects is written first
	via := symx.Choose("via", 2)
	w := symx.Int("w")
	src := "class U {}\nclass Box<T> { public T $v; public function set(T $x) { $this->v = $x; return 1; } }\n"
	if shape == 0 {
		src += "function mk() { return new Box<" + typeArgs[a] + ">(); }\n$o = [mk(), mk(), mk()];\n"
	} else {
		src += "$o = [];\nfor ($i = 0; $i < 3; $i++) { $o[] = new Box<" + typeArgs[a] + ">(); }\n"
	}
	wr := func(i int) string {
		v := "$o[" + string(rune('0'+i)) + "]"
		if via == 1 {
			return "try { " + v + "->set(" + valueExprs[kind] + "); mark(1); } catch (Throwable $e) { mark(0); }\n"
		}
		return "$t = " + v + "; try { $t->v = " + valueExprs[kind] + "; mark(1); } catch (Throwable $e) { mark(0); }\n"
	}
	order := [][3]int{{0, 1, 2}, {1, 2, 0}, {2, 0, 1}}[first]
	for _, i := range order {
		src += wr(i)
	}
	s := sx.Compile(src)
	symx.Assert(s.Err == nil, "history parses")
	if s.Err != nil {
		return
	}
	_, ctl := s.Run(sx.Bind{Name: "pw", V: sx.Int(w)})
	symx.Assert(ctl == nil && len(sx.Log) == 3, "history runs, one outcome per write")
	if ctl != nil || len(sx.Log) != 3 {
		return
	}
	for k := 0; k < 3; k++ {
		got := sx.Log[k].Kind == 'M' && sx.Log[k].I == 1
		symx.Assert(got == (kind == a), "every object created by the same new-site enforces the site's type argument")
	}
	symx.Reach("end")
}

// H_pair_two: two instantiations of a class with TWO type parameters alive at once (every
// combination of arguments, including permutations of each other): each member of each
// instance enforces the argument written at its own position of its own instantiation.
func H_pair_two() {
	pool := []int{0, 1, 3} // int, string, U
	a, b := pool[symx.Choose("A", 3)], pool[symx.Choose("B", 3)]
	c, d := pool[symx.Choose("C", 3)], pool[symx.Choose("D", 3)]
	inst := symx.Choose("instance", 2)
	member := symx.Choose("member", 2)
	kind := pool[symx.Choose("kind", 3)]
	w := symx.Int("w")
	src := "class U {}\nclass Pair<K, V> { public K $k; public V $val; }\n"
	src += "$x = new Pair<" + typeArgs[a] + ", " + typeArgs[b] + ">();\n$y = new Pair<" + typeArgs[c] + ", " + typeArgs[d] + ">();\n"
	// both instances are used (with valid values) before the probe
	src += "$x->k = " + valueExprs[a] + "; $y->val = " + valueExprs[d] + ";\n"
	v := []string{"$x", "$y"}[inst]
	m := []string{"k", "val"}[member]
	src += "try { " + v + "->" + m + " = " + valueExprs[kind] + "; mark(1); } catch (Throwable $e) { mark(0); }\n"
	s := sx.Compile(src)
	symx.Assert(s.Err == nil, "history parses")
	if s.Err != nil {
		return
	}
	_, ctl := s.Run(sx.Bind{Name: "pw", V: sx.Int(w)})
	symx.Assert(ctl == nil && len(sx.Log) == 1, "history runs")
	if ctl != nil || len(sx.Log) != 1 {
		return
	}
	want := [][]int{{a, b}, {c, d}}[inst][member]
	got := sx.Log[0].Kind == 'M' && sx.Log[0].I == 1
	symx.Assert(got == (kind == want), "a member of a two-parameter instantiation enforces the argument at its own position")
	symx.Reach("end")
}

// H_member_forms: the ways a member can be declared with the type parameter: plain typed
// property, nullable property, promoted constructor property (written through the constructor
// and through the property), method parameter, nullable method parameter.
func H_member_forms() {
	a := symx.Choose("A", 4)
	form := symx.Choose("form", 7)
	kind := symx.Choose("kind", 5) // 4 = null
	w := symx.Int("w")
	exprs := append(append([]string{}, valueExprs...), "null")
	src := "class U {}\nclass Box<T> { public T $v; public ?T $n = null;\n  function __construct(public T $p = null) { }\n  function set(T $x) { return 1; }\n  function opt(?T $x) { return 1; } }\n"
	src += "class CBox<T> { public $seen = 0; function __construct(T $x) { $this->seen = 1; } }\n"
	src += "$b = new Box<" + typeArgs[a] + ">();\n"
	stmt := []string{
		"$b->v = VALUE;",
		"$b->n = VALUE;",
		"$c = new Box<" + typeArgs[a] + ">(VALUE);",
		"$b->p = VALUE;",
		"$b->set(VALUE);",
		"$b->opt(VALUE);",
		"$c = new CBox<" + typeArgs[a] + ">(VALUE);",
	}[form]
	for i := 0; i+5 <= len(stmt); i++ {
		if stmt[i:i+5] == "VALUE" {
			stmt = stmt[:i] + exprs[kind] + stmt[i+5:]
			break
		}
	}
	src += "try { " + stmt + " mark(1); } catch (Throwable $e) { mark(0); }\n"
	s := sx.Compile(src)
	symx.Assert(s.Err == nil, "history parses")
	if s.Err != nil {
		return
	}
	_, ctl := s.Run(sx.Bind{Name: "pw", V: sx.Int(w)})
	symx.Assert(ctl == nil && len(sx.Log) == 1, "history runs")
	if ctl != nil || len(sx.Log) != 1 {
		return
	}
	nullable := form == 1 || form == 5
	want := kind == a || (kind == 4 && nullable)
	got := sx.Log[0].Kind == 'M' && sx.Log[0].I == 1
	known, id := false, ""
	switch {
	case nullable && kind != 4:
		// `?T` is parsed as "nullable class named T": it is never bound to the type argument
		known, id = true, "C19-nullable-type-parameter"
	case form == 2 || form == 3:
		known, id = true, "C19-promoted-constructor-property"
	case (form == 4 || form == 2 || form == 6) && kind == 4:
		// null into a non-nullable typed parameter: the recorded C07 finding, not a C19 matter
		symx.Reach("end")
		return
	}
	symx.AssertKnown(got == want, "member form "+string(rune('0'+form))+": accepted iff the value has this instance's type argument", known, id)
	symx.Reach("end")
}

// H_site_reuse: ONE assignment / call site (a helper function body, a loop body) executed on
// instances of two different instantiations, in both orders: what the site remembers from the
// first instance must not decide the second.
func H_site_reuse() {
	a, b, kind := symx.Choose("A", 4), symx.Choose("B", 4), symx.Choose("kind", 4)
	shape := symx.Choose("shape", 3) // 0 helper function writing the property, 1 helper calling the typed method, 2 loop body
	w := symx.Int("w")
	src := "class U {}\nclass Box<T> { public T $v; public function set(T $x) { $this->v = $x; return 1; } }\n"
	src += "$x = new Box<" + typeArgs[a] + ">();\n$y = new Box<" + typeArgs[b] + ">();\n"
	switch shape {
	case 0:
		src += "function put($o, $val) { try { $o->v = $val; mark(1); } catch (Throwable $e) { mark(0); } }\n"
		src += "put($x, " + valueExprs[a] + ");\nput($y, " + valueExprs[kind] + ");\nput($x, " + valueExprs[kind] + ");\n"
	case 1:
		src += "function put($o, $val) { try { $o->set($val); mark(1); } catch (Throwable $e) { mark(0); } }\n"
		src += "put($x, " + valueExprs[a] + ");\nput($y, " + valueExprs[kind] + ");\nput($x, " + valueExprs[kind] + ");\n"
	case 2:
		src += "$objs = [$x, $y, $x];\n$vals = [" + valueExprs[a] + ", " + valueExprs[kind] + ", " + valueExprs[kind] + "];\n"
		src += "for ($i = 0; $i < 3; $i++) { $o = $objs[$i]; try { $o->v = $vals[$i]; mark(1); } catch (Throwable $e) { mark(0); } }\n"
	}
	s := sx.Compile(src)
	symx.Assert(s.Err == nil, "history parses")
	if s.Err != nil {
		return
	}
	_, ctl := s.Run(sx.Bind{Name: "pw", V: sx.Int(w)})
	symx.Assert(ctl == nil && len(sx.Log) == 3, "history runs, one outcome per write")
	if ctl != nil || len(sx.Log) != 3 {
		return
	}
	acc := func(i int) bool { return sx.Log[i].Kind == 'M' && sx.Log[i].I == 1 }
	symx.Assert(acc(0), "the first instance accepts a value of its own type argument")
	symx.Assert(acc(1) == (kind == b), "the second instance through the same site enforces ITS type argument")
	symx.Assert(acc(2) == (kind == a), "the first instance through the same site still enforces its own")
	symx.Reach("end")
}

// H_template_first: the un-instantiated class is used BEFORE the typed instantiations (a raw
// `new Box()`, an instance of a non-generic subclass, a read or a write of a T-typed member on
// it); afterwards Box<A> and Box<B> each accept exactly their own type argument in both T-typed
// members, whichever of the two instances uses the member first.
func H_template_first() {
	a, b, kind := symx.Choose("A", 4), symx.Choose("B", 4), symx.Choose("kind", 4)
	touch := symx.Choose("touch", 6)
	member := []string{"v", "w"}[symx.Choose("member", 2)]
	bFirst := symx.Choose("b_first", 2) == 1
	w := symx.Int("w")
	src := "class U {}\nclass Box<T> { public T $v; public T $w; public function set(T $x) { $this->v = $x; return 1; } }\nclass Sub extends Box {}\n"
	switch touch {
	case 1:
		src += "$raw = new Box(); $raw->v = \"anything\";\n"
	case 2:
		src += "$raw = new Box(); $raw->w = [1];\n"
	case 3:
		src += "$raw = new Box(); $raw->v = 1; $t = $raw->v;\n"
	case 4:
		src += "$sub = new Sub(); $sub->v = \"anything\";\n"
	case 5:
		src += "$raw = new Box(); $raw->set(\"anything\");\n"
	}
	src += "$x = new Box<" + typeArgs[a] + ">();\n$y = new Box<" + typeArgs[b] + ">();\n"
	wr := func(v, e string) string {
		return "try { " + v + "->" + member + " = " + e + "; mark(1); } catch (Throwable $e) { mark(0); }\n"
	}
	if bFirst {
		src += "$y->" + member + " = " + valueExprs[b] + ";\n"
	} else {
		src += "$x->" + member + " = " + valueExprs[a] + ";\n"
	}
	src += wr("$x", valueExprs[kind]) + wr("$y", valueExprs[kind])
	s := sx.Compile(src)
	symx.Assert(s.Err == nil, "history parses")
	if s.Err != nil {
		return
	}
	_, ctl := s.Run(sx.Bind{Name: "pw", V: sx.Int(w)})
	symx.Assert(ctl == nil && len(sx.Log) == 2, "history runs, one outcome per write")
	if ctl != nil || len(sx.Log) != 2 {
		return
	}
	gotX := sx.Log[0].Kind == 'M' && sx.Log[0].I == 1
	gotY := sx.Log[1].Kind == 'M' && sx.Log[1].I == 1
	symx.Assert(gotX == (kind == a), "after the template was used raw, Box<A> accepts exactly A")
	symx.Assert(gotY == (kind == b), "after the template was used raw, Box<B> accepts exactly B")
	symx.Reach("end")
}
