// Package c20: sequential programs are deterministic (independent of Go's map
// iteration order) and leave nothing behind for the next VM. DESIGN.md §4 C20.
package c20

import (
	"github.com/php-any/origami/data"
	"github.com/php-any/origami/parser"
	"github.com/php-any/origami/runtime"
	"verif/harness/sx"
	"verif/symx"
)

// templates whose output could depend on a Go map's iteration order
var templates = []string{
	// object properties enumerate in declaration/insertion order
	`class P# { public $a = 1; public $b = 2; public $c = 3; } $o = new P#(); foreach ($o as $k => $v) { emit($v); } emit(9);`,
	`class P# { public $a = 1; public $b = 2; } $o = new P#(); $o->z = 7; $o->y = 8; foreach ($o as $k => $v) { emit($v); } emit(9);`,
	// string-keyed arrays enumerate in insertion order
	`$m = ["x" => 1, "y" => 2, "z" => 3]; foreach ($m as $k => $v) { emit($v); } emit(9);`,
	`$m = ["x" => 1, "y" => 2, "z" => 3]; unset($m["y"]); $m["w"] = 4; foreach ($m as $k => $v) { emit($v); } emit(9);`,
	// class lookup by a differently-cased name with two candidates
	`class Foo# { function m() { return 1; } } class Bar# { function m() { return 2; } } $o = new foo#(); emit($o->m()); $p = new BAR#(); emit($p->m());`,
	// methods / static members / constants of a class with several members
	`class Q# { const A = 1; const B = 2; static $s = 5; static $t = 6; function f() { return 1; } function g() { return 2; } function h() { return 3; } } $o = new Q#(); emit($o->f() + $o->g() * 10 + $o->h() * 100 + Q#::A + Q#::B + Q#::$s + Q#::$t);`,
	// inheritance + interfaces (class map with several entries)
	`interface I# {} class A# implements I# { function m() { return 1; } } class B# extends A# { function m() { return 2; } } class C# extends B# {} $o = new C#(); emit($o->m()); emit($o instanceof I#); emit($o instanceof A#);`,
	// try/catch over a small exception hierarchy
	`class E1# extends Exception {} class E2# extends E1# {} try { throw new E2#("x"); } catch (E1# $e) { mark(1); } finally { mark(2); } mark(3);`,
	// two classes whose names differ only in case, looked up by a third spelling
	`class Foo# { function m() { return 1; } } class FOO# { function m() { return 2; } } $o = new foo#(); emit($o->m());`,
	// functions table
	`function f1#() { return 1; } function f2#() { return 2; } function f3#() { return 3; } emit(f1#() + f2#() * 10 + f3#() * 100);`,
	// state a program leaves behind: superglobals, globals, static properties, static locals
	`emit(isset($_SERVER["LEAK"]) ? 1 : 0); $_SERVER["LEAK"] = 1; emit(isset($_SERVER["LEAK"]) ? 1 : 0);`,
	`emit(isset($_GET["k"]) ? 1 : 0); $_GET["k"] = 5; emit(isset($_GET["k"]) ? 1 : 0); emit(isset($_POST["k"]) ? 1 : 0); $_POST["k"] = 6; emit(isset($_COOKIE["k"]) ? 1 : 0); $_COOKIE["k"] = 7;`,
	`function g#() { global $gv; $gv = ($gv ?? 0) + 1; return $gv; } emit(g#()); emit(g#());`,
	`class S# { public static $n = 0; } S#::$n++; emit(S#::$n); function c#() { static $k = 0; $k++; return $k; } emit(c#()); emit(c#());`,
	// the names of earlier templates declared again with DIFFERENT definitions (a verdict, member or
	// body remembered per name from another VM's program would show here)
	`interface I# {} class A# { function m() { return 5; } } class B# { function m() { return 6; } } class C# extends B# implements I# {} $o = new C#(); emit($o->m()); emit($o instanceof I#); emit($o instanceof A#); emit($o instanceof B#); foreach ($o as $k => $v) { emit($v); } emit(9);`,
	`class P# { public $c = 7; public $a = 8; } $o = new P#(); foreach ($o as $k => $v) { emit($v); } class Q# { const A = 10; static $s = 50; function f() { return 4; } } $q = new Q#(); emit($q->f() + Q#::A + Q#::$s); function f1#() { return 9; } emit(f1#()); emit(9);`,
	// inherited default-valued properties (three levels, a redeclaration in the middle)
	`class A# { public $a = 1; public $b = 2; } class B# extends A# { public $c = 3; public $b = 5; } class C# extends B# { public $e = 6; } $o = new C#(); foreach ($o as $k => $v) { emit($v); } emit(9); $p = new B#(); foreach ($p as $k => $v) { emit($v); }`,
	`class E1# extends Exception {} class E2# extends Exception {} try { throw new E2#("x"); } catch (E1# $e) { mark(1); } catch (E2# $e) { mark(4); } finally { mark(2); } mark(3); class Foo# { function m() { return 3; } } $o = new foo#(); emit($o->m());`,
}

// inst instantiates a template: every class / interface / function name in it carries a '#'
// that is replaced by suffix ("" = the program as written, anything else = a renamed copy that
// shares no name with any other program)
func inst(t, suffix string) string {
	out := make([]byte, 0, len(t)+16)
	for i := 0; i < len(t); i++ {
		if t[i] == '#' {
			out = append(out, suffix...)
		} else {
			out = append(out, t[i])
		}
	}
	return string(out)
}

func runLog(src string) ([]sx.Obs, bool) {
	s := sx.Compile(src)
	if s.Err != nil {
		return nil, false
	}
	_, ctl := s.Run()
	if ctl != nil {
		return nil, false
	}
	return append([]sx.Obs{}, sx.Log...), true
}

func sameLog(a, b []sx.Obs) bool {
	if len(a) != len(b) {
		return false
	}
	for i := range a {
		if a[i].Kind != b[i].Kind || a[i].I != b[i].I || a[i].B != b[i].B || a[i].S != b[i].S {
			return false
		}
	}
	return true
}

// H_order: the output under EVERY iteration order of every (2..3 entry) Go map ranged by
// origami code equals the output under insertion order.
func H_order() {
	// the templates whose output could depend on a Go map's order (the state-leaving ones are for H_pairs)
	orderIdx := []int{0, 1, 2, 3, 4, 5, 6, 7, 8, 9, 16}
	k := orderIdx[symx.Choose("template", len(orderIdx))]
	ref, ok := runLog(inst(templates[k], ""))
	symx.Assert(ok, "template runs (reference order)")
	if !ok {
		return
	}
	symx.MapOrder(true)
	got, ok2 := runLog(inst(templates[k], ""))
	symx.MapOrder(false)
	symx.Assert(ok2, "template runs under a permuted map order")
	if !ok2 {
		return
	}
	symx.Assert(sameLog(ref, got), "template "+string(rune('a'+k))+": output independent of Go map iteration order")
	symx.Reach("end")
}

// H_ordered_map: histories of Set/Delete on the real OrderedMap; Range yields the surviving
// keys in insertion order (model: a Go slice).
func H_ordered_map() {
	k := symx.Param("k", 3)
	keys := []string{"a", "b", "c"}
	om := data.NewOrderedMap()
	// Go map iteration order is adversarial during the whole history (Set/Delete range the
	// internal index maps too), not only while enumerating
	symx.MapOrder(true)
	var model []string
	vals := map[string]int{}
	names := []string{"0", "1", "2", "3", "4"}
	for s := 0; s < k; s++ {
		op := symx.Choose("op"+names[s], 2)
		key := keys[symx.Choose("key"+names[s], 3)]
		v := symx.Int("v" + names[s])
		if op == 0 {
			om.Set(key, data.NewIntValue(v))
			found := false
			for _, m := range model {
				if m == key {
					found = true
				}
			}
			if !found {
				model = append(model, key)
			}
			vals[key] = v
		} else {
			om.Delete(key)
			var nm []string
			for _, m := range model {
				if m != key {
					nm = append(nm, m)
				}
			}
			model = nm
		}
	}
	var gotK []string
	var gotV []int
	om.Range(func(key string, value data.Value) bool {
		gotK = append(gotK, key)
		if iv, ok := value.(*data.IntValue); ok {
			gotV = append(gotV, iv.Value)
		} else {
			gotV = append(gotV, -1)
		}
		return true
	})
	symx.MapOrder(false)
	symx.Assert(len(gotK) == len(model), "Range yields exactly the surviving keys")
	if len(gotK) != len(model) {
		return
	}
	for i := range model {
		symx.Assert(gotK[i] == model[i], "Range yields keys in insertion order")
		symx.Assert(gotV[i] == vals[model[i]], "Range yields the last value set")
	}
	symx.Assert(om.Len() == len(model), "Len agrees")
	symx.Reach("end")
}

// H_pairs: program A then program B on fresh VMs in one process behaves like B alone.
func H_pairs() {
	a, b := symx.Choose("A", len(templates)), symx.Choose("B", len(templates))
	// reference: B as a renamed copy (no class / interface / function name in common with A or B),
	// run first on its own VM: whatever the process remembers per NAME from it cannot reach B
	alone, ok := runLog(inst(templates[b], "Zq"))
	symx.Assert(ok, "B runs alone")
	if !ok {
		return
	}
	_, okA := runLog(inst(templates[a], ""))
	symx.Assert(okA, "A runs")
	after, ok2 := runLog(inst(templates[b], ""))
	symx.Assert(ok2, "B runs after A")
	if !ok2 {
		return
	}
	// recorded finding: $_SERVER is cached in a package-level variable (the C11 root cause), so what one
	// program stored in it is still there for a program run later on a fresh VM of the same process
	symx.AssertKnown(sameLog(alone, after), "B behaves the same whether or not A ran earlier on another VM", b == 10 || b == 11, "C20-superglobal-cache-outlives-vm")
	symx.Reach("end")
}

// H_include: two programs on fresh VMs that include the SAME file (virtual file system): the
// second program must see the file's definitions and return value exactly as if it were the only
// program of the process, whatever the first program did with them.
func H_include() {
	formsA, formB := symx.Choose("formA", 5), symx.Choose("formB", 4)
	mutate := symx.Choose("mutate", 2)
	forms := []string{"include", "include_once", "require", "require_once"}
	defer symx.VCleanup()
	symx.VReset()
	root := symx.VRoot()
	symx.VFile(root+"/lib.php", "<?php\nfunction libf() { return 5; }\nclass LibC { public $v = 3; }\nreturn [1, 2];\n")
	prog := func(form string, mut bool) string {
		src := "$r = " + form + " \"" + root + "/lib.php\";\nemit(libf()); $o = new LibC(); emit($o->v); emit($r[0]); emit($r[1]);\n"
		if mut {
			src += "$r[0] = 70; $o->v = 71;\n"
		}
		return src
	}
	if formsA < 4 {
		s := sx.Compile(prog(forms[formsA], mutate == 1))
		symx.Assert(s.Err == nil, "A parses")
		if s.Err != nil {
			return
		}
		_, ctl := s.Run()
		symx.Assert(ctl == nil, "A runs")
	}
	s := sx.Compile(prog(forms[formB], false))
	symx.Assert(s.Err == nil, "B parses")
	if s.Err != nil {
		return
	}
	_, ctl := s.Run()
	symx.Assert(ctl == nil, "B runs (the included definitions exist on its VM)")
	if ctl != nil {
		return
	}
	want := []int{5, 3, 1, 2}
	ok := len(sx.Log) == 4
	for i := 0; ok && i < 4; i++ {
		ok = sx.Log[i].Kind == 'i' && sx.Log[i].I == want[i]
	}
	symx.Assert(ok, "B sees the included file's functions, classes and return value as if it ran alone")
	symx.Reach("end")
}

// H_enum_order: enumeration order against an EXPLICIT oracle (insertion order), for property /
// key names deliberately not in alphabetical order: declared properties, properties added later,
// string-keyed arrays built by literal and by successive stores, after unset and re-insertion.
func H_enum_order() {
	k := symx.Choose("case", 6)
	perm := symx.Choose("name_order", 6) // which permutation of three names is the insertion order
	names := [][]string{{"zeta", "alpha", "mid"}, {"zeta", "mid", "alpha"}, {"alpha", "zeta", "mid"}, {"alpha", "mid", "zeta"}, {"mid", "zeta", "alpha"}, {"mid", "alpha", "zeta"}}[perm]
	var src string
	var want []int
	switch k {
	case 0: // declared properties
		src = "class P { public $" + names[0] + " = 1; public $" + names[1] + " = 2; public $" + names[2] + " = 3; } $o = new P(); foreach ($o as $k => $v) { emit($v); }"
		want = []int{1, 2, 3}
	case 1: // properties added after construction
		src = "class P { } $o = new P(); $o->" + names[0] + " = 1; $o->" + names[1] + " = 2; $o->" + names[2] + " = 3; foreach ($o as $k => $v) { emit($v); }"
		want = []int{1, 2, 3}
	case 2: // $this enumerated from inside
		src = "class P { public $" + names[0] + " = 1; public $" + names[1] + " = 2; function all() { foreach ($this as $k => $v) { emit($v); } return 0; } } $o = new P(); $o->" + names[2] + " = 3; $o->all();"
		want = []int{1, 2, 3}
	case 3: // array literal
		src = "$m = [\"" + names[0] + "\" => 1, \"" + names[1] + "\" => 2, \"" + names[2] + "\" => 3]; foreach ($m as $k => $v) { emit($v); }"
		want = []int{1, 2, 3}
	case 4: // successive stores, one key overwritten (keeps its place)
		src = "$m = []; $m[\"" + names[0] + "\"] = 1; $m[\"" + names[1] + "\"] = 2; $m[\"" + names[2] + "\"] = 3; $m[\"" + names[0] + "\"] = 4; foreach ($m as $k => $v) { emit($v); }"
		want = []int{4, 2, 3}
	case 5: // unset and re-insert: the key moves to the end
		src = "$m = [\"" + names[0] + "\" => 1, \"" + names[1] + "\" => 2, \"" + names[2] + "\" => 3]; unset($m[\"" + names[0] + "\"]); $m[\"" + names[0] + "\"] = 5; foreach ($m as $k => $v) { emit($v); }"
		want = []int{2, 3, 5}
	}
	got, ok := runLog(src)
	symx.Assert(ok, "enumeration program runs")
	if !ok {
		return
	}
	symx.Assert(len(got) == len(want), "every entry is enumerated exactly once")
	if len(got) != len(want) {
		return
	}
	for i := range want {
		symx.Assert(got[i].Kind == 'i' && got[i].I == want[i], "entries are enumerated in insertion order, whatever their names")
	}
	symx.Reach("end")
}

type flagProbe struct{}

func (f *flagProbe) Call(ctx data.Context) (data.GetValue, data.Control) {
	sx.Log = append(sx.Log, sx.Obs{Kind: 'b', B: data.HasUserOutput()})
	return data.NewNullValue(), nil
}
func (f *flagProbe) GetName() string               { return "output_started" }
func (f *flagProbe) GetParams() []data.GetValue    { return nil }
func (f *flagProbe) GetVariables() []data.Variable { return nil }

// H_file_programs: whole FILES run through VM.LoadAndRun on fresh VMs (the path the command line
// takes), A then B: B starts with the "output already started" state of a fresh process (that
// state decides whether a blank line precedes a fatal diagnostic on stderr), whatever A printed.
func H_file_programs() {
	aPrints := symx.Choose("a_prints", 2)
	defer symx.VCleanup()
	symx.VReset()
	root := symx.VRoot()
	symx.VFile(root+"/a.php", []string{"<?php\n$x = 1;\n", "<?php\necho \"hello\";\n"}[aPrints])
	symx.VFile(root+"/b.php", "<?php\noutput_started();\n$y = 2;\n")
	data.WriteOutput = func(string) { data.MarkUserOutput() }
	run := func(file string) {
		p := parser.NewParser()
		vm := runtime.NewVM(p)
		vm.SetThrowControl(func(acl data.Control) {})
		vm.AddFunc(&flagProbe{})
		vm.LoadAndRun(file)
	}
	sx.Log = sx.Log[:0]
	run(root + "/a.php")
	run(root + "/b.php")
	symx.Assert(len(sx.Log) == 1 && sx.Log[0].Kind == 'b' && !sx.Log[0].B, "a program on a fresh VM starts with no output recorded, whatever an earlier program printed")
	symx.Reach("end")
}

// diagPrograms: programs whose run writes DIAGNOSTICS (warnings, fatal errors with stack traces)
// through fmt.Fprint* to the standard streams.
var diagPrograms = []string{
	"<?php\n$a = [10, 20, 30];\n$x = $a[7];\n$y = $a[7];\n",
	"<?php\n$a = [10, 20, 30];\nfor ($i = 0; $i < 3; $i++) { $x = $a[5]; }\n",
	"<?php\n$a = [1];\n$x = $a[\"k\"];\n",
	"<?php\nfunction f() { throw new Exception(\"boom\"); }\nf();\n",
	"<?php\necho \"before\";\nnofn();\n",
	"<?php\n$x = 1 % 0;\n",
	"<?php\nclass K { function m() { return $this->nope(); } }\n$k = new K(); $k->m();\n",
}

// H_diagnostics_repeat: a program run twice (and after another program) on fresh VMs of one
// process writes the same diagnostics each time: the text captured during the second run equals
// that of the first.
func H_diagnostics_repeat() {
	pa, pb := symx.Choose("A", len(diagPrograms)), symx.Choose("B", len(diagPrograms))
	defer symx.VCleanup()
	symx.VReset()
	root := symx.VRoot()
	symx.VFile(root+"/a.php", diagPrograms[pa])
	symx.VFile(root+"/b.php", diagPrograms[pb])
	data.WriteOutput = func(string) { data.MarkUserOutput() }
	run := func(file string) string {
		from := len(symx.Printed())
		p := parser.NewParser()
		vm := runtime.NewVM(p)
		// the default handler prints the diagnostic and exits the process: print it the same way, stay alive
		vm.SetThrowControl(func(acl data.Control) { p.ShowControl(acl) })
		vm.LoadAndRun(file)
		return symx.Printed()[from:]
	}
	first := run(root + "/b.php")
	run(root + "/a.php")
	second := run(root + "/b.php")
	symx.Assert(first == second, "the same program writes the same diagnostics when it runs again on a fresh VM")
	symx.Reach("end")
}
