package c20

import (
	"github.com/php-any/origami/data"
	stdarray "github.com/php-any/origami/std/php/array"
	"verif/harness/sx"
	"verif/symx"
)

// programs that pass string-keyed arrays through the array builtins and enumerate the result
var arrayPrograms = []string{
	`$m = ["x" => 1, "y" => 2, "z" => 3]; $n = 0; foreach (array_keys($m) as $k) { emit($m[$k]); } emit(9);`,
	`$m = ["x" => 1, "y" => 2, "z" => 3]; foreach (array_values($m) as $v) { emit($v); } emit(9);`,
	`$m = array_merge(["x" => 1, "y" => 2, "z" => 3], ["u" => 4, "v" => 5, "w" => 6]); foreach ($m as $k => $v) { emit($v); } emit(9);`,
	`$m = array_replace(["x" => 1, "y" => 2, "z" => 3], ["y" => 5, "w" => 6]); foreach ($m as $k => $v) { emit($v); } emit(9);`,
	`$m = array_flip(["x" => 1, "y" => 2, "z" => 3]); foreach ($m as $k => $v) { emit($k); } emit(9);`,
	`$m = array_reverse(["x" => 1, "y" => 2, "z" => 3]); foreach ($m as $k => $v) { emit($v); } emit(9);`,
	`$m = array_merge_recursive(["x" => 1, "y" => 2, "z" => 3], ["u" => 4, "v" => 5]); foreach ($m as $k => $v) { emit($v); } emit(9);`,
	`$m = array_replace_recursive(["x" => 1, "y" => 2, "z" => 3], ["u" => 4, "v" => 5]); foreach ($m as $k => $v) { emit($v); } emit(9);`,
}

var arrayFns = []func() data.FuncStmt{
	stdarray.NewArrayKeysFunction, stdarray.NewArrayValuesFunction, stdarray.NewArrayMergeFunction, stdarray.NewArrayReplaceFunction,
	stdarray.NewArrayFlipFunction, stdarray.NewArrayReverseFunction, stdarray.NewArrayMergeRecursiveFunction, stdarray.NewArrayReplaceRecursiveFunction,
}

// H_array_builtins (seed C20h; array_values / array_merge / array_replace and their recursive
// forms ranged the Go map of GetProperties() until the fix recorded in known_findings.txt): the result of an array builtin applied to string-keyed arrays
// enumerates the same way under EVERY iteration order of the Go maps the builtin ranges.
func H_array_builtins() {
	k := symx.Choose("program", len(arrayPrograms))
	saved := sx.Builtins
	sx.Builtins = append(append([]func() data.FuncStmt{}, saved...), arrayFns...)
	defer func() { sx.Builtins = saved }()
	ref, ok := runLog(arrayPrograms[k])
	symx.Assert(ok, "array program runs (reference order)")
	if !ok {
		return
	}
	symx.MapOrder(true)
	got, ok2 := runLog(arrayPrograms[k])
	symx.MapOrder(false)
	symx.Assert(ok2, "array program runs under a permuted map order")
	if !ok2 {
		return
	}
	symx.Assert(sameLog(ref, got), "array builtin result independent of Go map iteration order")
	symx.Reach("end")
}
