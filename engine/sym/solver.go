package sym

import (
	"bufio"
	"fmt"
	"io"
	"os/exec"
	"sort"
	"strconv"
	"strings"
	"time"
)

// ---- SMT-LIB2 printing (DAG-aware: shared subterms bound with let)

func sortStr(t *Term) string {
	switch {
	case t.FP && t.W == 32:
		return "(_ FloatingPoint 8 24)"
	case t.FP:
		return "(_ FloatingPoint 11 53)"
	case t.W == 0:
		return "Bool"
	}
	return fmt.Sprintf("(_ BitVec %d)", t.W)
}

func bvLit(v uint64, w int) string {
	if w%4 == 0 {
		return fmt.Sprintf("#x%0*x", w/4, v)
	}
	return fmt.Sprintf("#b%0*b", w, v)
}

func fpLit(v uint64, w int) string {
	if w == 32 {
		return fmt.Sprintf("(fp %s %s %s)", bvLit(v>>31&1, 1), bvLit(v>>23&0xff, 8), bvLit(v&0x7fffff, 23))
	}
	return fmt.Sprintf("(fp %s %s %s)", bvLit(v>>63&1, 1), bvLit(v>>52&0x7ff, 11), bvLit(v&0xfffffffffffff, 52))
}

func fpParams(w int) string {
	if w == 32 {
		return "8 24"
	}
	return "11 53"
}

// Print renders t as an SMT-LIB2 expression; vars collects the free variables.
func Print(t *Term, vars map[string]*Term) string {
	// count references
	refs := map[int]int{}
	var order []*Term
	var walk func(x *Term)
	walk = func(x *Term) {
		refs[x.ID]++
		if refs[x.ID] > 1 {
			return
		}
		for _, a := range x.Args {
			walk(a)
		}
		order = append(order, x) // post-order
	}
	walk(t)
	names := map[int]string{}
	var sb strings.Builder
	var pr func(x *Term) string
	head := func(x *Term) string {
		switch x.Op {
		case OpConst:
			if x.FP {
				return fpLit(x.C, x.W)
			}
			if x.W == 0 {
				if x.C != 0 {
					return "true"
				}
				return "false"
			}
			return bvLit(x.C, x.W)
		case OpVar:
			if vars != nil {
				vars[x.Name] = x
			}
			return SMTName(x.Name)
		}
		var b strings.Builder
		b.WriteByte('(')
		switch x.Op {
		case OpExtract:
			fmt.Fprintf(&b, "(_ extract %d %d)", x.A, x.B)
		case OpZExt:
			fmt.Fprintf(&b, "(_ zero_extend %d)", x.A)
		case OpSExt:
			fmt.Fprintf(&b, "(_ sign_extend %d)", x.A)
		case OpFPOfBits:
			fmt.Fprintf(&b, "(_ to_fp %s)", fpParams(x.W))
		case OpFToSBV:
			fmt.Fprintf(&b, "(_ fp.to_sbv %d) RTZ", x.A)
		case OpFToUBV:
			fmt.Fprintf(&b, "(_ fp.to_ubv %d) RTZ", x.A)
		case OpSBVToF:
			fmt.Fprintf(&b, "(_ to_fp %s) RNE", fpParams(x.W))
		case OpUBVToF:
			fmt.Fprintf(&b, "(_ to_fp_unsigned %s) RNE", fpParams(x.W))
		case OpFToF:
			fmt.Fprintf(&b, "(_ to_fp %s) RNE", fpParams(x.W))
		case OpFRound:
			fmt.Fprintf(&b, "fp.roundToIntegral %s", [...]string{"RTZ", "RTN", "RTP", "RNE", "RNA"}[x.A])
		default:
			n, ok := opName[x.Op]
			if !ok {
				panic(fmt.Sprintf("sym.Print: op %d", x.Op))
			}
			b.WriteString(n)
		}
		for _, a := range x.Args {
			b.WriteByte(' ')
			b.WriteString(pr(a))
		}
		b.WriteByte(')')
		return b.String()
	}
	pr = func(x *Term) string {
		if n, ok := names[x.ID]; ok {
			return n
		}
		return head(x)
	}
	nlet := 0
	for _, x := range order {
		if x == t {
			break
		}
		if refs[x.ID] > 1 && len(x.Args) > 0 {
			s := head(x)
			n := "l!" + strconv.Itoa(x.ID)
			fmt.Fprintf(&sb, "(let ((%s %s)) ", n, s)
			names[x.ID] = n
			nlet++
		}
	}
	sb.WriteString(pr(t))
	for i := 0; i < nlet; i++ {
		sb.WriteByte(')')
	}
	return sb.String()
}

// ---- solver process

type Result int

const (
	Unsat Result = iota
	Sat
	Unknown
)

func (r Result) String() string { return [...]string{"unsat", "sat", "unknown"}[r] }

// Solver drives one SMT solver process over stdin/stdout.
type Solver struct {
	Name      string
	cmd       *exec.Cmd
	in        io.WriteCloser
	out       *bufio.Reader
	declared  map[string]bool
	Queries   int
	Time      time.Duration
	Errors    int
	LastErr   string
	TimeoutMs int
	Log       io.Writer // optional transcript
}

// SolverCmd returns argv for a named solver.
func SolverCmd(name string, timeoutMs int) []string {
	switch name {
	case "z3-new":
		return []string{"z3-new", "-in", fmt.Sprintf("-t:%d", timeoutMs)}
	case "z3":
		return []string{"/usr/bin/z3", "-in", fmt.Sprintf("-t:%d", timeoutMs)}
	case "cvc5":
		return []string{"cvc5", "--incremental", "--produce-models", "--lang=smt2", fmt.Sprintf("--tlimit-per=%d", timeoutMs)}
	}
	panic("unknown solver " + name)
}

func NewSolver(name string, timeoutMs int) (*Solver, error) {
	argv := SolverCmd(name, timeoutMs)
	cmd := exec.Command(argv[0], argv[1:]...)
	in, err := cmd.StdinPipe()
	if err != nil {
		return nil, err
	}
	outp, err := cmd.StdoutPipe()
	if err != nil {
		return nil, err
	}
	cmd.Stderr = nil
	if err := cmd.Start(); err != nil {
		return nil, err
	}
	s := &Solver{Name: name, cmd: cmd, in: in, out: bufio.NewReaderSize(outp, 1<<16), declared: map[string]bool{}, TimeoutMs: timeoutMs}
	if name == "cvc5" {
		s.send("(set-logic ALL)")
	}
	s.send("(set-option :produce-models true)")
	return s, nil
}

func (s *Solver) send(line string) {
	if s.Log != nil {
		fmt.Fprintln(s.Log, line)
	}
	io.WriteString(s.in, line)
	io.WriteString(s.in, "\n")
}

func (s *Solver) Close() {
	if s.cmd != nil {
		s.in.Close()
		s.cmd.Process.Kill()
		s.cmd.Wait()
		s.cmd = nil
	}
}

// Reset clears all assertions and declarations.
func (s *Solver) Reset() {
	s.send("(reset)")
	if s.Name == "cvc5" {
		s.send("(set-logic ALL)")
	}
	s.send("(set-option :produce-models true)")
	s.declared = map[string]bool{}
}

func (s *Solver) Push() { s.send("(push 1)") }
func (s *Solver) Pop() {
	s.send("(pop 1)")
}

// declared vars inside a push scope vanish on pop in SMT-LIB; we therefore declare
// all variables at the base level via DeclareBase before the first Push of a path.
func (s *Solver) declare(vars map[string]*Term) {
	names := make([]string, 0, len(vars))
	for n := range vars {
		if !s.declared[n] {
			names = append(names, n)
		}
	}
	sort.Strings(names)
	for _, n := range names {
		s.declared[n] = true
		s.send(fmt.Sprintf("(declare-const %s %s)", SMTName(n), sortStr(vars[n])))
	}
}

// Assert adds t to the current scope. Variables are declared on demand; callers
// must not rely on declarations surviving a Pop (ForgetSince handles that).
func (s *Solver) Assert(t *Term) {
	vars := map[string]*Term{}
	str := Print(t, vars)
	s.declare(vars)
	s.send("(assert " + str + ")")
}

// Declared returns a snapshot of the declared-variable set (for scope restore).
func (s *Solver) Declared() map[string]bool {
	m := make(map[string]bool, len(s.declared))
	for k := range s.declared {
		m[k] = true
	}
	return m
}
func (s *Solver) RestoreDeclared(m map[string]bool) { s.declared = m }

func (s *Solver) readLine() (string, error) {
	l, err := s.out.ReadString('\n')
	return strings.TrimSpace(l), err
}

// Check runs check-sat in the current scope.
func (s *Solver) Check() Result {
	t0 := time.Now()
	s.send("(check-sat)")
	s.Queries++
	defer func() { s.Time += time.Since(t0) }()
	for {
		l, err := s.readLine()
		if err != nil {
			s.Errors++
			s.LastErr = "solver died: " + err.Error()
			return Unknown
		}
		switch {
		case l == "sat":
			return Sat
		case l == "unsat":
			return Unsat
		case l == "unknown" || l == "timeout":
			return Unknown
		case strings.HasPrefix(l, "(error"):
			s.Errors++
			s.LastErr = l
			// keep reading: the check-sat answer still follows; but treat as inconclusive
			// by draining the verdict line.
			l2, _ := s.readLine()
			_ = l2
			return Unknown
		case l == "":
			continue
		default:
			s.Errors++
			s.LastErr = "unexpected solver output: " + l
			return Unknown
		}
	}
}

// CheckAssuming = push; assert extra; check; (model); pop.
func (s *Solver) CheckWith(extra *Term, wantModel []*Term) (Result, Model) {
	saved := s.Declared()
	s.Push()
	s.Assert(extra)
	r := s.Check()
	var m Model
	if r == Sat && wantModel != nil {
		m = s.GetModel(wantModel)
	}
	s.Pop()
	s.RestoreDeclared(saved)
	return r, m
}

// GetModel fetches values of the given variable terms (must be declared; undeclared
// ones are unconstrained and get 0).
func (s *Solver) GetModel(vars []*Term) Model {
	m := Model{}
	var ask []*Term
	for _, v := range vars {
		if s.declared[v.Name] {
			ask = append(ask, v)
		} else {
			m[v.Name] = 0
		}
	}
	if len(ask) == 0 {
		return m
	}
	var sb strings.Builder
	sb.WriteString("(get-value (")
	smtBack := map[string]string{}
	for _, v := range ask {
		sn := SMTName(v.Name)
		smtBack[sn] = v.Name
		sb.WriteString(sn)
		sb.WriteByte(' ')
	}
	sb.WriteString("))")
	s.send(sb.String())
	// read balanced s-expression
	depth := 0
	var buf strings.Builder
	started := false
	for {
		l, err := s.out.ReadString('\n')
		if err != nil {
			s.Errors++
			s.LastErr = "solver died in get-value"
			return m
		}
		for _, ch := range l {
			if ch == '(' {
				depth++
				started = true
			} else if ch == ')' {
				depth--
			}
		}
		buf.WriteString(l)
		if started && depth == 0 {
			break
		}
	}
	txt := buf.String()
	if strings.Contains(txt, "(error") {
		s.Errors++
		s.LastErr = txt
		return m
	}
	// parse pairs (name value)
	toks := tokenize(txt)
	// toks: ( ( name val ) ( name val ) ... )
	i := 1
	for i < len(toks)-1 {
		if toks[i] != "(" {
			i++
			continue
		}
		name := toks[i+1]
		if orig, ok := smtBack[name]; ok {
			name = orig
		}
		val := toks[i+2]
		switch {
		case val == "true":
			m[name] = 1
		case val == "false":
			m[name] = 0
		case strings.HasPrefix(val, "#x"):
			u, _ := strconv.ParseUint(val[2:], 16, 64)
			m[name] = u
		case strings.HasPrefix(val, "#b"):
			u, _ := strconv.ParseUint(val[2:], 2, 64)
			m[name] = u
		case val == "(": // (_ bvN w)
			if toks[i+3] == "_" && strings.HasPrefix(toks[i+4], "bv") {
				u, _ := strconv.ParseUint(toks[i+4][2:], 10, 64)
				m[name] = u
			}
		}
		// advance to matching close of this pair
		d := 0
		for ; i < len(toks); i++ {
			if toks[i] == "(" {
				d++
			} else if toks[i] == ")" {
				d--
				if d == 0 {
					i++
					break
				}
			}
		}
	}
	return m
}

func tokenize(s string) []string {
	var toks []string
	cur := strings.Builder{}
	flush := func() {
		if cur.Len() > 0 {
			toks = append(toks, cur.String())
			cur.Reset()
		}
	}
	for _, ch := range s {
		switch ch {
		case '(', ')':
			flush()
			toks = append(toks, string(ch))
		case ' ', '\n', '\t', '\r':
			flush()
		default:
			cur.WriteRune(ch)
		}
	}
	flush()
	return toks
}

// SMTName maps an input name to a safe SMT-LIB symbol (no reserved words).
func SMTName(n string) string {
	var sb strings.Builder
	sb.WriteString("in_")
	for _, ch := range n {
		if (ch >= 'a' && ch <= 'z') || (ch >= 'A' && ch <= 'Z') || (ch >= '0' && ch <= '9') || ch == '_' {
			sb.WriteRune(ch)
		} else {
			sb.WriteByte('_')
		}
	}
	return sb.String()
}
