// Package sym: hash-consed SMT terms (Bool, BitVec, FloatingPoint), a concrete
// evaluator under a model, an SMT-LIB2 printer and a pipe to an SMT solver.
package sym

import (
	"fmt"
	"math"
	"math/bits"
)

type Op uint8

const (
	OpConst Op = iota
	OpVar
	// bool
	OpNot
	OpAnd
	OpOr
	OpIte
	OpEq
	// bv
	OpAdd
	OpSub
	OpMul
	OpUDiv
	OpURem
	OpSDiv
	OpSRem
	OpBAnd
	OpBOr
	OpBXor
	OpBNot
	OpNeg
	OpShl
	OpLShr
	OpAShr
	OpUlt
	OpUle
	OpSlt
	OpSle
	OpExtract // A=hi B=lo
	OpZExt    // A=extra bits
	OpSExt
	OpConcat
	// fp
	OpFPOfBits // bv -> fp (reinterpret)
	OpFAdd
	OpFSub
	OpFMul
	OpFDiv
	OpFNeg
	OpFLt
	OpFLe
	OpFEq
	OpFIsNaN
	OpFToSBV // A = target width; RTZ; caller guards range
	OpFToUBV
	OpSBVToF // A = target fp width
	OpUBVToF
	OpFToF // A = target fp width
	OpFAbs
	OpFSqrt
	OpFRound // A = rounding mode: 0 RTZ (Trunc), 1 RTN (Floor), 2 RTP (Ceil), 3 RNE (RoundToEven), 4 RNA (Round)
)

var opName = map[Op]string{
	OpNot: "not", OpAnd: "and", OpOr: "or", OpIte: "ite", OpEq: "=",
	OpAdd: "bvadd", OpSub: "bvsub", OpMul: "bvmul", OpUDiv: "bvudiv", OpURem: "bvurem",
	OpSDiv: "bvsdiv", OpSRem: "bvsrem", OpBAnd: "bvand", OpBOr: "bvor", OpBXor: "bvxor",
	OpBNot: "bvnot", OpNeg: "bvneg", OpShl: "bvshl", OpLShr: "bvlshr", OpAShr: "bvashr",
	OpUlt: "bvult", OpUle: "bvule", OpSlt: "bvslt", OpSle: "bvsle", OpConcat: "concat",
	OpFAdd: "fp.add RNE", OpFSub: "fp.sub RNE", OpFMul: "fp.mul RNE", OpFDiv: "fp.div RNE",
	OpFNeg: "fp.neg", OpFLt: "fp.lt", OpFLe: "fp.leq", OpFEq: "fp.eq", OpFIsNaN: "fp.isNaN",
	OpFAbs: "fp.abs", OpFSqrt: "fp.sqrt RNE",
}

// Term is an immutable hash-consed SMT term.
type Term struct {
	Op   Op
	W    int  // bit width (0 = Bool). For FP terms W is 32 or 64 and FP is set.
	FP   bool // floating-point sort
	Args []*Term
	C    uint64 // constant payload (bits)
	A, B int
	Name string
	ID   int
	Ctx  *Ctx
}

func (t *Term) IsConst() bool { return t.Op == OpConst }
func (t *Term) IsBool() bool  { return t.W == 0 }

type key struct {
	op         Op
	w          int
	fp         bool
	c          uint64
	a, b       int
	name       string
	x0, x1, x2 int
}

// Ctx owns a hash-cons table. Not safe for concurrent use (one per worker).
type Ctx struct {
	tab         map[key]*Term
	next        int
	True, False *Term
	Owner       any // back-pointer for the engine (the interpreter that owns this context)
}

func NewCtx() *Ctx {
	c := &Ctx{tab: map[key]*Term{}}
	c.True = c.mk(&Term{Op: OpConst, W: 0, C: 1})
	c.False = c.mk(&Term{Op: OpConst, W: 0, C: 0})
	return c
}

func (c *Ctx) mk(t *Term) *Term {
	k := key{op: t.Op, w: t.W, fp: t.FP, c: t.C, a: t.A, b: t.B, name: t.Name, x0: -1, x1: -1, x2: -1}
	if len(t.Args) > 0 {
		k.x0 = t.Args[0].ID
	}
	if len(t.Args) > 1 {
		k.x1 = t.Args[1].ID
	}
	if len(t.Args) > 2 {
		k.x2 = t.Args[2].ID
	}
	if len(t.Args) > 3 {
		panic("sym: too many args")
	}
	if old, ok := c.tab[k]; ok {
		return old
	}
	t.ID = c.next
	t.Ctx = c
	c.next++
	c.tab[k] = t
	return t
}

func mask(w int) uint64 {
	if w >= 64 {
		return ^uint64(0)
	}
	return (uint64(1) << uint(w)) - 1
}

func (c *Ctx) Bool(b bool) *Term {
	if b {
		return c.True
	}
	return c.False
}
func (c *Ctx) BV(v uint64, w int) *Term {
	return c.mk(&Term{Op: OpConst, W: w, C: v & mask(w)})
}
func (c *Ctx) FPConst(bitsv uint64, w int) *Term {
	return c.mk(&Term{Op: OpConst, W: w, FP: true, C: bitsv & mask(w)})
}
func (c *Ctx) Var(name string, w int) *Term { return c.mk(&Term{Op: OpVar, W: w, Name: name}) }

func (c *Ctx) app(op Op, w int, fp bool, a, b int, args ...*Term) *Term {
	// constant folding when all args are constants
	all := true
	for _, x := range args {
		if !x.IsConst() {
			all = false
			break
		}
	}
	t := &Term{Op: op, W: w, FP: fp, A: a, B: b, Args: args}
	if all {
		v := evalOp(t, func(i int) uint64 { return args[i].C })
		if fp {
			return c.FPConst(v, w)
		}
		if w == 0 {
			return c.Bool(v != 0)
		}
		return c.BV(v, w)
	}
	return c.mk(t)
}

// ---- boolean
func (c *Ctx) Not(x *Term) *Term {
	if x.Op == OpNot {
		return x.Args[0]
	}
	return c.app(OpNot, 0, false, 0, 0, x)
}
func (c *Ctx) And(x, y *Term) *Term {
	if x == c.True {
		return y
	}
	if y == c.True {
		return x
	}
	if x == c.False || y == c.False {
		return c.False
	}
	if x == y {
		return x
	}
	return c.app(OpAnd, 0, false, 0, 0, x, y)
}
func (c *Ctx) Or(x, y *Term) *Term {
	if x == c.False {
		return y
	}
	if y == c.False {
		return x
	}
	if x == c.True || y == c.True {
		return c.True
	}
	if x == y {
		return x
	}
	return c.app(OpOr, 0, false, 0, 0, x, y)
}
func (c *Ctx) Ite(cond, x, y *Term) *Term {
	if cond == c.True {
		return x
	}
	if cond == c.False {
		return y
	}
	if x == y {
		return x
	}
	if x.W == 0 && !x.FP {
		if x == c.True && y == c.False {
			return cond
		}
		if x == c.False && y == c.True {
			return c.Not(cond)
		}
	}
	return c.app(OpIte, x.W, x.FP, 0, 0, cond, x, y)
}
func (c *Ctx) Eq(x, y *Term) *Term {
	if x == y && !x.FP {
		return c.True
	}
	if x.FP != y.FP || x.W != y.W {
		panic(fmt.Sprintf("sym.Eq: sort mismatch %d/%v vs %d/%v", x.W, x.FP, y.W, y.FP))
	}
	if x.FP {
		return c.app(OpFEq, 0, false, 0, 0, x, y)
	}
	if x.ID > y.ID {
		x, y = y, x
	}
	return c.app(OpEq, 0, false, 0, 0, x, y)
}

// SameFP is SMT structural equality on floats: identical terms are equal,
// NaN equals NaN, +0 differs from -0.
func (c *Ctx) SameFP(x, y *Term) *Term {
	if x == y {
		return c.True
	}
	if x.ID > y.ID {
		x, y = y, x
	}
	return c.app(OpEq, 0, false, 0, 0, x, y)
}

// ---- bit-vectors
func (c *Ctx) Bin(op Op, x, y *Term) *Term {
	if x.W != y.W {
		panic(fmt.Sprintf("sym.Bin %v: width mismatch %d vs %d", op, x.W, y.W))
	}
	switch op {
	case OpAdd, OpMul, OpBAnd, OpBOr, OpBXor:
		if x.ID > y.ID { // canonical operand order for commutative ops
			x, y = y, x
		}
	}
	switch op {
	case OpUlt, OpUle, OpSlt, OpSle, OpFLt, OpFLe, OpFEq:
		return c.app(op, 0, false, 0, 0, x, y)
	case OpFAdd, OpFMul:
		if x.ID > y.ID {
			x, y = y, x
		}
		return c.app(op, x.W, true, 0, 0, x, y)
	case OpFSub, OpFDiv:
		return c.app(op, x.W, true, 0, 0, x, y)
	}
	// light algebraic simplification
	if y.IsConst() || x.IsConst() {
		switch op {
		case OpAdd, OpBOr, OpBXor:
			if x.IsConst() && x.C == 0 {
				return y
			}
			if y.IsConst() && y.C == 0 {
				return x
			}
		case OpSub, OpShl, OpLShr, OpAShr:
			if y.IsConst() && y.C == 0 {
				return x
			}
		case OpBAnd:
			if (x.IsConst() && x.C == 0) || (y.IsConst() && y.C == 0) {
				return c.BV(0, x.W)
			}
			if x.IsConst() && x.C == mask(x.W) {
				return y
			}
			if y.IsConst() && y.C == mask(x.W) {
				return x
			}
		case OpMul:
			if x.IsConst() && x.C == 1 {
				return y
			}
			if y.IsConst() && y.C == 1 {
				return x
			}
		}
	}
	return c.app(op, x.W, false, 0, 0, x, y)
}
func (c *Ctx) Un(op Op, x *Term) *Term {
	switch op {
	case OpFNeg, OpFAbs, OpFSqrt:
		return c.app(op, x.W, true, 0, 0, x)
	case OpFRound:
		panic("use FRound")
	case OpFIsNaN:
		return c.app(op, 0, false, 0, 0, x)
	}
	return c.app(op, x.W, false, 0, 0, x)
}
func (c *Ctx) Extract(hi, lo int, x *Term) *Term {
	if lo == 0 && hi == x.W-1 {
		return x
	}
	// extract of zext/sext back to original width or narrower
	if (x.Op == OpZExt || x.Op == OpSExt) && hi < x.Args[0].W {
		return c.Extract(hi, lo, x.Args[0])
	}
	return c.app(OpExtract, hi-lo+1, false, hi, lo, x)
}
func (c *Ctx) ZExt(extra int, x *Term) *Term {
	if extra == 0 {
		return x
	}
	return c.app(OpZExt, x.W+extra, false, extra, 0, x)
}
func (c *Ctx) SExt(extra int, x *Term) *Term {
	if extra == 0 {
		return x
	}
	return c.app(OpSExt, x.W+extra, false, extra, 0, x)
}
func (c *Ctx) Concat(hi, lo *Term) *Term {
	return c.app(OpConcat, hi.W+lo.W, false, 0, 0, hi, lo)
}

// Resize converts a BV term to width w with sign- or zero-extension / truncation.
func (c *Ctx) Resize(x *Term, w int, signed bool) *Term {
	switch {
	case w == x.W:
		return x
	case w < x.W:
		return c.Extract(w-1, 0, x)
	case signed:
		return c.SExt(w-x.W, x)
	default:
		return c.ZExt(w-x.W, x)
	}
}

// ---- floating point
func (c *Ctx) FPOfBits(x *Term) *Term { return c.app(OpFPOfBits, x.W, true, 0, 0, x) }
func (c *Ctx) FToSBV(x *Term, w int) *Term {
	return c.app(OpFToSBV, w, false, w, 0, x)
}
func (c *Ctx) FToUBV(x *Term, w int) *Term {
	return c.app(OpFToUBV, w, false, w, 0, x)
}
func (c *Ctx) SBVToF(x *Term, fw int) *Term { return c.app(OpSBVToF, fw, true, fw, 0, x) }
func (c *Ctx) UBVToF(x *Term, fw int) *Term { return c.app(OpUBVToF, fw, true, fw, 0, x) }
func (c *Ctx) FToF(x *Term, fw int) *Term {
	if x.W == fw {
		return x
	}
	return c.app(OpFToF, fw, true, fw, 0, x)
}

// FRound is fp.roundToIntegral with the given mode (see OpFRound).
func (c *Ctx) FRound(mode int, x *Term) *Term { return c.app(OpFRound, x.W, true, mode, 0, x) }

// ---- evaluation

func sx(v uint64, w int) int64 {
	if w >= 64 {
		return int64(v)
	}
	sh := uint(64 - w)
	return int64(v<<sh) >> sh
}

func fval(bitsv uint64, w int) float64 {
	if w == 32 {
		return float64(math.Float32frombits(uint32(bitsv)))
	}
	return math.Float64frombits(bitsv)
}
func fbits(f float64, w int) uint64 {
	if w == 32 {
		return uint64(math.Float32bits(float32(f)))
	}
	return math.Float64bits(f)
}

// evalOp computes the value of t given a way to get argument values (as raw bits).
func evalOp(t *Term, arg func(i int) uint64) uint64 {
	w := t.W
	m := mask(w)
	aw := 0
	if len(t.Args) > 0 {
		aw = t.Args[0].W
	}
	b2u := func(b bool) uint64 {
		if b {
			return 1
		}
		return 0
	}
	switch t.Op {
	case OpNot:
		return arg(0) ^ 1
	case OpAnd:
		return arg(0) & arg(1)
	case OpOr:
		return arg(0) | arg(1)
	case OpIte:
		if arg(0) != 0 {
			return arg(1)
		}
		return arg(2)
	case OpEq:
		if t.Args[0].FP {
			x, y := fval(arg(0), aw), fval(arg(1), aw)
			if x != x && y != y {
				return 1
			}
		}
		return b2u(arg(0) == arg(1))
	case OpAdd:
		return (arg(0) + arg(1)) & m
	case OpSub:
		return (arg(0) - arg(1)) & m
	case OpMul:
		return (arg(0) * arg(1)) & m
	case OpUDiv:
		if arg(1) == 0 {
			return m
		}
		return (arg(0) / arg(1)) & m
	case OpURem:
		if arg(1) == 0 {
			return arg(0)
		}
		return (arg(0) % arg(1)) & m
	case OpSDiv:
		x, y := sx(arg(0), w), sx(arg(1), w)
		if y == 0 {
			if x < 0 {
				return 1
			}
			return m
		}
		if y == -1 {
			return uint64(-x) & m
		}
		return uint64(x/y) & m
	case OpSRem:
		x, y := sx(arg(0), w), sx(arg(1), w)
		if y == 0 {
			return arg(0)
		}
		if y == -1 {
			return 0
		}
		return uint64(x%y) & m
	case OpBAnd:
		return arg(0) & arg(1)
	case OpBOr:
		return arg(0) | arg(1)
	case OpBXor:
		return arg(0) ^ arg(1)
	case OpBNot:
		return ^arg(0) & m
	case OpNeg:
		return (-arg(0)) & m
	case OpShl:
		if arg(1) >= uint64(w) {
			return 0
		}
		return (arg(0) << arg(1)) & m
	case OpLShr:
		if arg(1) >= uint64(w) {
			return 0
		}
		return arg(0) >> arg(1)
	case OpAShr:
		x := sx(arg(0), w)
		s := arg(1)
		if s >= uint64(w) {
			s = uint64(w - 1)
		}
		return uint64(x>>s) & m
	case OpUlt:
		return b2u(arg(0) < arg(1))
	case OpUle:
		return b2u(arg(0) <= arg(1))
	case OpSlt:
		return b2u(sx(arg(0), aw) < sx(arg(1), aw))
	case OpSle:
		return b2u(sx(arg(0), aw) <= sx(arg(1), aw))
	case OpExtract:
		return (arg(0) >> uint(t.B)) & m
	case OpZExt:
		return arg(0)
	case OpSExt:
		return uint64(sx(arg(0), aw)) & m
	case OpConcat:
		return ((arg(0) << uint(t.Args[1].W)) | arg(1)) & m
	case OpFPOfBits:
		return arg(0)
	case OpFAdd, OpFSub, OpFMul, OpFDiv:
		if w == 32 {
			x, y := math.Float32frombits(uint32(arg(0))), math.Float32frombits(uint32(arg(1)))
			var r float32
			switch t.Op {
			case OpFAdd:
				r = x + y
			case OpFSub:
				r = x - y
			case OpFMul:
				r = x * y
			case OpFDiv:
				r = x / y
			}
			return uint64(math.Float32bits(r))
		}
		x, y := math.Float64frombits(arg(0)), math.Float64frombits(arg(1))
		var r float64
		switch t.Op {
		case OpFAdd:
			r = x + y
		case OpFSub:
			r = x - y
		case OpFMul:
			r = x * y
		case OpFDiv:
			r = x / y
		}
		return math.Float64bits(r)
	case OpFNeg:
		return arg(0) ^ (uint64(1) << uint(w-1))
	case OpFAbs:
		return arg(0) &^ (uint64(1) << uint(w-1))
	case OpFSqrt:
		return fbits(math.Sqrt(fval(arg(0), w)), w)
	case OpFRound:
		f := fval(arg(0), w)
		switch t.A {
		case 0:
			f = math.Trunc(f)
		case 1:
			f = math.Floor(f)
		case 2:
			f = math.Ceil(f)
		case 3:
			f = math.RoundToEven(f)
		case 4:
			f = math.Round(f)
		}
		return fbits(f, w)
	case OpFLt:
		return b2u(fval(arg(0), aw) < fval(arg(1), aw))
	case OpFLe:
		return b2u(fval(arg(0), aw) <= fval(arg(1), aw))
	case OpFEq:
		return b2u(fval(arg(0), aw) == fval(arg(1), aw))
	case OpFIsNaN:
		f := fval(arg(0), aw)
		return b2u(f != f)
	case OpFToSBV:
		f := math.Trunc(fval(arg(0), aw))
		if f != f || f >= math.Ldexp(1, w-1) || f < -math.Ldexp(1, w-1) {
			return 0 // unspecified in SMT-LIB; callers guard the range
		}
		return uint64(int64(f)) & m
	case OpFToUBV:
		f := math.Trunc(fval(arg(0), aw))
		if f != f || f >= math.Ldexp(1, w) || f < 0 {
			return 0
		}
		return uint64(f) & m
	case OpSBVToF:
		x := sx(arg(0), aw)
		if w == 32 {
			return uint64(math.Float32bits(float32(x)))
		}
		return math.Float64bits(float64(x))
	case OpUBVToF:
		x := arg(0)
		if w == 32 {
			return uint64(math.Float32bits(float32(x)))
		}
		return math.Float64bits(float64(x))
	case OpFToF:
		return fbits(fval(arg(0), aw), w)
	}
	panic(fmt.Sprintf("sym.evalOp: op %d", t.Op))
}

// Model maps variable names to raw bit values. Missing variables evaluate to 0.
type Model map[string]uint64

// Eval evaluates t under model m (memoised per call).
func Eval(t *Term, m Model) uint64 {
	memo := map[int]uint64{}
	return eval(t, m, memo)
}

// Evaluator evaluates many terms under one model with a shared memo table.
type Evaluator struct {
	M    Model
	memo map[int]uint64
}

func NewEvaluator(m Model) *Evaluator    { return &Evaluator{M: m, memo: map[int]uint64{}} }
func (e *Evaluator) Eval(t *Term) uint64 { return eval(t, e.M, e.memo) }

func eval(t *Term, m Model, memo map[int]uint64) uint64 {
	switch t.Op {
	case OpConst:
		return t.C
	case OpVar:
		return m[t.Name] & maskOrBool(t.W)
	}
	if v, ok := memo[t.ID]; ok {
		return v
	}
	// short-circuit ite to avoid evaluating huge dead arms
	var v uint64
	if t.Op == OpIte {
		if eval(t.Args[0], m, memo) != 0 {
			v = eval(t.Args[1], m, memo)
		} else {
			v = eval(t.Args[2], m, memo)
		}
	} else {
		v = evalOp(t, func(i int) uint64 { return eval(t.Args[i], m, memo) })
	}
	memo[t.ID] = v
	return v
}

func maskOrBool(w int) uint64 {
	if w == 0 {
		return 1
	}
	return mask(w)
}

var _ = bits.Len
