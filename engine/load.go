// Package engine loads the harness + /repo into SSA and drives exploration.
package engine

import (
	"fmt"
	"go/types"
	"os"
	"path/filepath"
	"strings"

	"golang.org/x/tools/go/packages"
	"golang.org/x/tools/go/ssa"
	"golang.org/x/tools/go/ssa/ssautil"

	"verif/engine/interp"
)

// RepoDir is the origami tree the encoding is generated from: /repo, unless VERIF_REPO names a scratch
// copy (seeded-change experiments run against a copy so that /repo itself is never modified; the
// registered checks never set it).
var RepoDir = repoDir()

func repoDir() string {
	if d := os.Getenv("VERIF_REPO"); d != "" {
		return d
	}
	return "/repo"
}

const OrigamiMod = "github.com/php-any/origami"

// Overlay returns the virtual files injected into /repo (export shims).
// Layout: /verif/shims/<pkg path relative to the module>/<name>.go  →  /repo/<pkg>/zz_verif_<name>.go
func Overlay(verifDir string) (map[string][]byte, error) {
	ov := map[string][]byte{}
	root := filepath.Join(verifDir, "shims")
	err := filepath.Walk(root, func(p string, info os.FileInfo, err error) error {
		if err != nil {
			if os.IsNotExist(err) {
				return nil
			}
			return err
		}
		if info.IsDir() || !strings.HasSuffix(p, ".go") {
			return nil
		}
		rel, _ := filepath.Rel(root, p)
		dst := filepath.Join(RepoDir, filepath.Dir(rel), "zz_verif_"+filepath.Base(rel))
		b, err := os.ReadFile(p)
		if err != nil {
			return err
		}
		ov[dst] = b
		return nil
	})
	return ov, err
}

// initAllow is the allow-list of packages whose init functions are executed.
func initAllow(path string) bool {
	if strings.HasPrefix(path, OrigamiMod) || strings.HasPrefix(path, "verif/") {
		return true
	}
	switch path {
	case "unicode", "unicode/utf8", "unicode/utf16", "strings", "bytes", "strconv", "sort", "slices", "maps", "math", "math/bits",
		"regexp", "regexp/syntax", "encoding/base64", "encoding/hex", "net/url", "io", "io/fs", "path", "path/filepath",
		"google.golang.org/protobuf/encoding/protowire", "google.golang.org/protobuf/internal/errors",
		"internal/byteorder", "internal/godebugs", "internal/strconv", "internal/itoa", "internal/stringslite", "cmp", "iter", "html", "encoding/binary",
		"container/list", "container/heap", "text/tabwriter", "bufio", "internal/oserror", "context", "unique":
		return true
	}
	return false
}

type Loaded struct {
	P    *interp.Program
	Main *ssa.Package
	Pkgs []*packages.Package
}

// Load builds SSA for the harness package (and everything it imports) from
// /repo's current working tree.
func Load(verifDir, harnessPkg string) (*Loaded, error) {
	ov, err := Overlay(verifDir)
	if err != nil {
		return nil, err
	}
	cfg := &packages.Config{
		Mode:    packages.LoadAllSyntax,
		Dir:     verifDir,
		Overlay: ov,
		Env:     GoEnv(),
	}
	pkgs, err := packages.Load(cfg, harnessPkg)
	if err != nil {
		return nil, err
	}
	if n := packages.PrintErrors(pkgs); n > 0 {
		return nil, fmt.Errorf("%d package errors loading %s", n, harnessPkg)
	}
	prog, spkgs := ssautil.AllPackages(pkgs, ssa.InstantiateGenerics|ssa.SanityCheckFunctions&0)
	prog.Build()
	if len(spkgs) == 0 || spkgs[0] == nil {
		return nil, fmt.Errorf("no SSA package for %s", harnessPkg)
	}
	p := &interp.Program{Prog: prog, Sizes: types.SizesFor("gc", "amd64"), InitAllow: initAllow}
	return &Loaded{P: p, Main: spkgs[0], Pkgs: pkgs}, nil
}

// GoEnv is the offline toolchain environment used for every go invocation.
func GoEnv() []string {
	flags := "GOFLAGS=-mod=mod"
	if RepoDir != "/repo" {
		// an alternative go.mod whose replace directive points at the scratch copy
		flags += " -modfile=" + altModFile()
	}
	return append(os.Environ(), flags, "GOPROXY=off", "GOSUMDB=off", "GOTOOLCHAIN=local", "CGO_ENABLED=0",
		"PATH=/opt/veriftools/go1.26.8/bin:"+os.Getenv("PATH"))
}

var altMod string

// altModFile writes <tmp>/go.mod (+ go.sum) = /verif's with the origami replace redirected to RepoDir.
func altModFile() string {
	if altMod != "" {
		return altMod
	}
	vd := os.Getenv("VERIF_DIR")
	if vd == "" {
		vd = "/verif"
	}
	dir, err := os.MkdirTemp("", "verif-altmod-")
	if err != nil {
		panic(err)
	}
	b, err := os.ReadFile(filepath.Join(vd, "go.mod"))
	if err != nil {
		panic(err)
	}
	mod := strings.Replace(string(b), "=> /repo", "=> "+RepoDir, 1)
	os.WriteFile(filepath.Join(dir, "go.mod"), []byte(mod), 0o644)
	if sum, err := os.ReadFile(filepath.Join(vd, "go.sum")); err == nil {
		os.WriteFile(filepath.Join(dir, "go.sum"), sum, 0o644)
	}
	altMod = filepath.Join(dir, "go.mod")
	return altMod
}
