// Package engine loads the harness + /repo into SSA and drives exploration.
package engine

import (
	"fmt"
	"go/ast"
	goparser "go/parser"
	"go/token"
	"go/types"
	"os"
	"path/filepath"
	"strings"

	"golang.org/x/tools/go/packages"
	"golang.org/x/tools/go/ssa"
	"golang.org/x/tools/go/ssa/ssautil"

	"verif/engine/interp"
)

// RepoDir is the origami tree the encoding is generated from: /repo, unless VERIF_REPO names a scratch
// copy (seeded-change experiments run against a copy so that /repo itself is never modified; the
// registered checks never set it).
var RepoDir = repoDir()

func repoDir() string {
	if d := os.Getenv("VERIF_REPO"); d != "" {
		return d
	}
	return "/repo"
}

const OrigamiMod = "github.com/php-any/origami"

// Overlay returns the virtual files injected into /repo (export shims).
// Layout: /verif/shims/<pkg path relative to the module>/<name>.go  →  /repo/<pkg>/zz_verif_<name>.go
func Overlay(verifDir string) (map[string][]byte, error) {
	ov := map[string][]byte{}
	root := filepath.Join(verifDir, "shims")
	err := filepath.Walk(root, func(p string, info os.FileInfo, err error) error {
		if err != nil {
			if os.IsNotExist(err) {
				return nil
			}
			return err
		}
		if info.IsDir() || !strings.HasSuffix(p, ".go") {
			return nil
		}
		rel, _ := filepath.Rel(root, p)
		dst := filepath.Join(RepoDir, filepath.Dir(rel), "zz_verif_"+filepath.Base(rel))
		b, err := os.ReadFile(p)
		if err != nil {
			return err
		}
		ov[dst] = expandShim(b, filepath.Join(RepoDir, filepath.Dir(rel)))
		return nil
	})
	return ov, err
}

// expandShim replaces the directive `/*verif:mapfields <recv> <Struct>*/ nil` in a shim by the list
// `<recv>.<f1>, <recv>.<f2>, ...` of all map-typed fields of struct <Struct>, read from the CURRENT
// source of the package: a shim that names fields literally stops compiling when a field is renamed
// or replaced, and the check would end undecided instead of examining the changed code.
func expandShim(b []byte, pkgDir string) []byte {
	src := string(b)
	for {
		i := strings.Index(src, "/*verif:mapfields ")
		if i < 0 {
			return []byte(src)
		}
		j := strings.Index(src[i:], "*/")
		if j < 0 {
			return []byte(src)
		}
		args := strings.Fields(src[i+len("/*verif:mapfields ") : i+j])
		end := i + j + 2
		if rest := strings.TrimLeft(src[end:], " "); strings.HasPrefix(rest, "nil") {
			end = len(src) - len(rest) + 3
		}
		list := "nil"
		if len(args) == 2 {
			if fs := mapFields(pkgDir, args[1]); len(fs) > 0 {
				for k := range fs {
					fs[k] = args[0] + "." + fs[k]
				}
				list = strings.Join(fs, ", ")
			}
		}
		src = src[:i] + list + src[end:]
	}
}

// mapFields lists the names of the map-typed fields of struct typeName declared in pkgDir.
func mapFields(pkgDir, typeName string) []string {
	ents, err := os.ReadDir(pkgDir)
	if err != nil {
		return nil
	}
	var out []string
	fset := token.NewFileSet()
	for _, e := range ents {
		n := e.Name()
		if e.IsDir() || !strings.HasSuffix(n, ".go") || strings.HasSuffix(n, "_test.go") {
			continue
		}
		f, err := goparser.ParseFile(fset, filepath.Join(pkgDir, n), nil, goparser.SkipObjectResolution)
		if err != nil {
			continue
		}
		ast.Inspect(f, func(nd ast.Node) bool {
			ts, ok := nd.(*ast.TypeSpec)
			if !ok || ts.Name.Name != typeName {
				return true
			}
			st, ok := ts.Type.(*ast.StructType)
			if !ok {
				return false
			}
			for _, fld := range st.Fields.List {
				if _, isMap := fld.Type.(*ast.MapType); isMap {
					for _, nm := range fld.Names {
						out = append(out, nm.Name)
					}
				}
			}
			return false
		})
	}
	return out
}

// initAllow is the allow-list of packages whose init functions are executed.
func initAllow(path string) bool {
	if strings.HasPrefix(path, OrigamiMod) || strings.HasPrefix(path, "verif/") {
		return true
	}
	switch path {
	case "unicode", "unicode/utf8", "unicode/utf16", "strings", "bytes", "strconv", "sort", "slices", "maps", "math", "math/bits",
		"regexp", "regexp/syntax", "encoding/base64", "encoding/hex", "net/url", "io", "io/fs", "path", "path/filepath",
		"google.golang.org/protobuf/encoding/protowire", "google.golang.org/protobuf/internal/errors",
		"internal/byteorder", "internal/godebugs", "internal/strconv", "internal/itoa", "internal/stringslite", "cmp", "iter", "html", "encoding/binary",
		"container/list", "container/heap", "text/tabwriter", "bufio", "internal/oserror", "context", "unique":
		return true
	}
	return false
}

type Loaded struct {
	P    *interp.Program
	Main *ssa.Package
	Pkgs []*packages.Package
}

// Load builds SSA for the harness package (and everything it imports) from
// /repo's current working tree.
func Load(verifDir, harnessPkg string) (*Loaded, error) {
	ov, err := Overlay(verifDir)
	if err != nil {
		return nil, err
	}
	cfg := &packages.Config{
		Mode:    packages.LoadAllSyntax,
		Dir:     verifDir,
		Overlay: ov,
		Env:     GoEnv(),
	}
	pkgs, err := packages.Load(cfg, harnessPkg)
	if err != nil {
		return nil, err
	}
	if n := packages.PrintErrors(pkgs); n > 0 {
		return nil, fmt.Errorf("%d package errors loading %s", n, harnessPkg)
	}
	prog, spkgs := ssautil.AllPackages(pkgs, ssa.InstantiateGenerics|ssa.SanityCheckFunctions&0)
	prog.Build()
	if len(spkgs) == 0 || spkgs[0] == nil {
		return nil, fmt.Errorf("no SSA package for %s", harnessPkg)
	}
	p := &interp.Program{Prog: prog, Sizes: types.SizesFor("gc", "amd64"), InitAllow: initAllow}
	return &Loaded{P: p, Main: spkgs[0], Pkgs: pkgs}, nil
}

// GoEnv is the offline toolchain environment used for every go invocation.
func GoEnv() []string {
	flags := "GOFLAGS=-mod=mod"
	if RepoDir != "/repo" {
		// an alternative go.mod whose replace directive points at the scratch copy
		flags += " -modfile=" + altModFile()
	}
	return append(os.Environ(), flags, "GOPROXY=off", "GOSUMDB=off", "GOTOOLCHAIN=local", "CGO_ENABLED=0",
		"PATH=/opt/veriftools/go1.26.8/bin:"+os.Getenv("PATH"))
}

var altMod string

// altModFile writes <tmp>/go.mod (+ go.sum) = /verif's with the origami replace redirected to RepoDir.
func altModFile() string {
	if altMod != "" {
		return altMod
	}
	vd := os.Getenv("VERIF_DIR")
	if vd == "" {
		vd = "/verif"
	}
	dir, err := os.MkdirTemp("", "verif-altmod-")
	if err != nil {
		panic(err)
	}
	b, err := os.ReadFile(filepath.Join(vd, "go.mod"))
	if err != nil {
		panic(err)
	}
	mod := strings.Replace(string(b), "=> /repo", "=> "+RepoDir, 1)
	os.WriteFile(filepath.Join(dir, "go.mod"), []byte(mod), 0o644)
	if sum, err := os.ReadFile(filepath.Join(vd, "go.sum")); err == nil {
		os.WriteFile(filepath.Join(dir, "go.sum"), sum, 0o644)
	}
	altMod = filepath.Join(dir, "go.mod")
	return altMod
}
