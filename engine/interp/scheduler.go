package interp

// Bounded symbolic scheduling (DESIGN.md §2.8). Interpreted goroutines run as
// engine threads under a baton (exactly one runs at a time). At every visible
// operation — go, mutex/RWMutex ops, channel send/recv/close/len, WaitGroup.Wait,
// sync/atomic ops, accesses to cells marked with symx.Shared — the scheduler
// takes a decision "which enabled thread runs next"; the decision is recorded in
// the path's decision list like a branch and the alternatives are pushed as
// sibling paths, so every interleaving of visible operations within the
// preemption bound is explored. A vector-clock happens-before relation flags
// conflicting accesses to Go maps and Shared cells that are unordered.

import (
	"fmt"
	"go/token"
	"go/types"
	"strings"
	"sync"

	"golang.org/x/tools/go/ssa"
)

type vclock []int

func (v vclock) clone() vclock { return append(vclock{}, v...) }
func (v *vclock) join(o vclock) {
	for len(*v) < len(o) {
		*v = append(*v, 0)
	}
	for k, x := range o {
		if x > (*v)[k] {
			(*v)[k] = x
		}
	}
}
func (v vclock) at(k int) int {
	if k < len(v) {
		return v[k]
	}
	return 0
}

type thread struct {
	id      int
	wake    chan struct{}
	done    bool
	blocked func() bool // nil = runnable; otherwise runnable iff it returns false
	what    string
	vc      vclock
	offer   *offer // pending send on an unbuffered/full channel
}

type offer struct {
	ch    *schan
	v     value
	taken bool
	sel   *selWait // set when the offer is one send case of a parked select
	idx   int
}

type epoch struct {
	tid, clk int
	fn       string
}

type accessRec struct {
	lastWrite *epoch
	reads     map[int]epoch // tid -> last read
}

type mutexVC struct {
	w vclock // released by Unlock
	r vclock // join of RUnlocks
}

type scheduler struct {
	enabled    bool
	maxPreempt int
	threads    []*thread
	cur        *thread
	preempts   int
	kill       chan struct{}
	killed     bool
	failure    any
	failSite   string
	wg         sync.WaitGroup
	shared     map[*value]string
	access     map[any]*accessRec
	wrec       map[*value]epoch // last plain store to each heap cell while several threads exist
	mvc        map[*value]*mutexVC
	chvc       map[*schan]vclock
	wgvc       map[*value]vclock
	sharedObjs map[any]bool
	races      map[string]bool
	steps      int
}

func (s *scheduler) reset() {
	s.threads = []*thread{{id: 0, wake: make(chan struct{}, 1), vc: vclock{1}}}
	s.cur = s.threads[0]
	s.preempts = 0
	s.kill = make(chan struct{})
	s.killed = false
	s.failure = nil
	s.failSite = ""
	s.shared = map[*value]string{}
	s.access = map[any]*accessRec{}
	s.wrec = map[*value]epoch{}
	s.mvc = map[*value]*mutexVC{}
	s.chvc = map[*schan]vclock{}
	s.wgvc = map[*value]vclock{}
	s.sharedObjs = map[any]bool{}
	s.races = map[string]bool{}
	s.steps = 0
}

func (t *thread) runnable() bool {
	return !t.done && (t.blocked == nil || !t.blocked())
}

// tick advances the current thread's own clock component.
func (s *scheduler) tick() {
	t := s.cur
	for len(t.vc) <= t.id {
		t.vc = append(t.vc, 0)
	}
	t.vc[t.id]++
}

// decide picks the next thread among the runnable ones and records the decision.
func (s *scheduler) decide(i *interpreter, why string) *thread {
	var en []*thread
	for _, t := range s.threads {
		if t.runnable() {
			en = append(en, t)
		}
	}
	if len(en) == 0 {
		return nil
	}
	curEnabled := s.cur.runnable()
	p := i.path
	var chosen *thread
	if p.pos < len(p.prefix) {
		d := p.prefix[p.pos]
		p.pos++
		if d.Kind != DecSched {
			panic(abort{kind: "inconclusive", msg: "nondeterministic replay: expected schedule decision"})
		}
		for _, t := range en {
			if int64(t.id) == d.V {
				chosen = t
			}
		}
		if chosen == nil {
			panic(abort{kind: "inconclusive", msg: "nondeterministic replay: scheduled thread not enabled"})
		}
		p.decisions = append(p.decisions, d)
	} else {
		// default: keep running the current thread when possible
		chosen = en[0]
		if curEnabled {
			chosen = s.cur
		}
		for _, t := range en {
			if t == chosen {
				continue
			}
			if curEnabled && s.preempts >= s.maxPreempt {
				continue // preemption budget used up: alternatives that preempt are outside the bound
			}
			np := make([]Decision, len(p.decisions)+1)
			copy(np, p.decisions)
			np[len(p.decisions)] = Decision{Kind: DecSched, V: int64(t.id)}
			i.exp.push(workItem{prefix: np, model: p.model})
		}
		p.decisions = append(p.decisions, Decision{Kind: DecSched, V: int64(chosen.id)})
	}
	if curEnabled && chosen != s.cur {
		s.preempts++
	}
	return chosen
}

// yield is called by the running thread at a visible operation (before performing it).
func (s *scheduler) yield(i *interpreter, why string) {
	if !s.enabled || i.path == nil || len(s.threads) < 2 {
		return
	}
	s.steps++
	if s.steps > 5000 {
		panic(abort{kind: "fuel", msg: "schedule length exceeds 5000 visible operations"})
	}
	me := s.cur
	next := s.decide(i, why)
	if next == nil {
		s.deadlock(i)
	}
	if next != me {
		s.switchTo(next, me)
	}
}

// block parks the current thread until blocked() turns false.
func (s *scheduler) block(i *interpreter, blocked func() bool, what string) {
	me := s.cur
	me.blocked = blocked
	me.what = what
	for me.blocked != nil && me.blocked() {
		next := s.decide(i, what)
		if next == nil {
			s.deadlock(i)
		}
		if next == me {
			break
		}
		s.switchTo(next, me)
	}
	me.blocked = nil
	me.what = ""
}

func (s *scheduler) deadlock(i *interpreter) {
	var sb strings.Builder
	for _, t := range s.threads {
		if !t.done {
			fmt.Fprintf(&sb, "T%d:%s ", t.id, t.what)
		}
	}
	panic(abort{kind: "deadlock", msg: "all threads blocked: " + sb.String()})
}

// switchTo hands the baton to next and waits until it comes back to me.
func (s *scheduler) switchTo(next, me *thread) {
	s.cur = next
	next.wake <- struct{}{}
	s.waitBaton(me)
}

func (s *scheduler) waitBaton(me *thread) {
	select {
	case <-me.wake:
		if s.killed {
			panic(abort{kind: "killed", msg: "path aborted in another thread"})
		}
		s.cur = me
	case <-s.kill:
		panic(abort{kind: "killed", msg: "path aborted in another thread"})
	}
}

// fail records the first failure of the path and wakes every parked thread.
func (s *scheduler) fail(r any, site string) {
	if !s.killed {
		s.killed = true
		s.failure = r
		s.failSite = site
		close(s.kill)
	}
}

func (i *interpreter) spawn(fr *frame, pos token.Pos, fn value, args []value) {
	s := i.sched
	if s == nil || !s.enabled || i.path == nil {
		panic(abort{kind: "unsupported", msg: "go statement (scheduler not enabled for this harness)"})
	}
	if len(s.threads) >= 6 {
		panic(abort{kind: "unsupported", msg: "more than 5 goroutines"})
	}
	s.tick()
	t := &thread{id: len(s.threads), wake: make(chan struct{}, 1), vc: s.cur.vc.clone()}
	for len(t.vc) <= t.id {
		t.vc = append(t.vc, 0)
	}
	t.vc[t.id] = 1
	s.threads = append(s.threads, t)
	s.wg.Add(1)
	go func() {
		defer s.wg.Done()
		defer func() {
			r := recover()
			t.done = true
			if r != nil {
				if a, ok := r.(abort); ok && a.kind == "killed" {
					return
				}
				s.fail(r, i.panicSite)
				return
			}
			if s.killed {
				return
			}
			// normal termination: pass the baton on
			next := (*thread)(nil)
			func() {
				defer func() {
					if r2 := recover(); r2 != nil {
						s.fail(r2, "")
					}
				}()
				next = s.decide(i, "exit")
				if next == nil {
					for _, o := range s.threads {
						if !o.done {
							s.deadlock(i)
						}
					}
				}
			}()
			if next != nil && !s.killed {
				s.cur = next
				next.wake <- struct{}{}
			}
		}()
		// wait to be scheduled for the first time
		select {
		case <-t.wake:
			if s.killed {
				panic(abort{kind: "killed"})
			}
			s.cur = t
		case <-s.kill:
			panic(abort{kind: "killed"})
		}
		call(i, nil, pos, fn, args)
	}()
	s.yield(i, "go")
}

// finishMain: the harness entry returned; run the remaining threads to completion.
func (s *scheduler) finishMain(i *interpreter) {
	if !s.enabled {
		return
	}
	me := s.threads[0]
	me.blocked = func() bool {
		for _, t := range s.threads[1:] {
			if !t.done {
				return true
			}
		}
		return false
	}
	me.what = "main waits for goroutines"
	for me.blocked() {
		next := s.decide(i, "main-exit")
		if next == nil {
			s.deadlock(i)
		}
		if next == me {
			break
		}
		s.switchTo(next, me)
	}
	me.blocked = nil
}

// drain is called by runPath after the main thread unwound (normally or not):
// kills parked threads and waits for their goroutines to stop touching the heap.
func (s *scheduler) drain() (failure any, site string) {
	if !s.enabled {
		return nil, ""
	}
	if !s.killed {
		s.killed = true
		close(s.kill)
	}
	s.wg.Wait()
	return s.failure, s.failSite
}

// ---- happens-before race detection

func (s *scheduler) accessCheck(i *interpreter, obj any, write bool, what string) {
	s.accessCheckAt(i, obj, write, what, i.curFnName())
}

func (s *scheduler) accessCheckAt(i *interpreter, obj any, write bool, what, here string) {
	if !s.enabled || len(s.threads) < 2 || i.path == nil {
		return
	}
	rec := s.access[obj]
	if rec == nil {
		rec = &accessRec{reads: map[int]epoch{}}
		s.access[obj] = rec
	}
	// an object already touched by another thread is effectively shared: its accesses become
	// schedule points too (check-then-act sequences inside a read-locked region interleave)
	if _, isCell := obj.(*value); !isCell {
		me := s.cur.id
		contended := rec.lastWrite != nil && rec.lastWrite.tid != me
		for tid := range rec.reads {
			if tid != me {
				contended = true
			}
		}
		if contended || s.sharedObjs[obj] {
			s.tick()
			s.yield(i, "shared map access")
		}
	}
	t := s.cur
	conflict := func(e epoch, kind string) {
		if e.tid == t.id || e.clk <= t.vc.at(e.tid) {
			return
		}
		key := what + " " + kind + " in " + e.fn + " || " + here
		if !s.races[key] {
			s.races[key] = true
			i.raceFound(what, kind, e.fn, here)
		}
	}
	if rec.lastWrite != nil {
		if write {
			conflict(*rec.lastWrite, "write/write")
		} else {
			conflict(*rec.lastWrite, "write/read")
		}
	}
	if write {
		for _, r := range rec.reads {
			conflict(r, "read/write")
		}
		rec.lastWrite = &epoch{tid: t.id, clk: t.vc.at(t.id), fn: here}
		rec.reads = map[int]epoch{}
	} else {
		rec.reads[t.id] = epoch{tid: t.id, clk: t.vc.at(t.id), fn: here}
	}
}

// heapStore / heapLoad: happens-before check on ORDINARY heap cells (not registered with
// symx.Shared, not schedule points). A cell stored to by two threads, or stored by one and loaded
// by another, without a happens-before edge between the accesses is a data race whatever the
// interleaving: one explored schedule in which both accesses occur suffices to see it. Loads
// are only checked against earlier stores (a load that precedes the conflicting store in every
// explored schedule is not seen).
func (s *scheduler) heapStore(i *interpreter, a *value) {
	if !s.enabled || len(s.threads) < 2 || i.path == nil {
		return
	}
	t := s.cur
	if e, ok := s.wrec[a]; ok && e.tid != t.id && e.clk > t.vc.at(e.tid) {
		here := i.curFnName()
		key := "heap write/write in " + e.fn + " || " + here
		if !s.races[key] {
			s.races[key] = true
			i.raceFound("a heap cell that is not protected by any synchronisation", "write/write", e.fn, here)
		}
	}
	s.wrec[a] = epoch{tid: t.id, clk: t.vc.at(t.id), fn: i.curFnName()}
}

func (s *scheduler) heapLoad(i *interpreter, a *value) {
	if !s.enabled || len(s.threads) < 2 || i.path == nil || len(s.wrec) == 0 {
		return
	}
	t := s.cur
	if e, ok := s.wrec[a]; ok && e.tid != t.id && e.clk > t.vc.at(e.tid) {
		here := i.curFnName()
		key := "heap write/read in " + e.fn + " || " + here
		if !s.races[key] {
			s.races[key] = true
			i.raceFound("a heap cell that is not protected by any synchronisation", "write/read", e.fn, here)
		}
	}
}

func (i *interpreter) raceFound(what, kind, fn1, fn2 string) {
	label := "data-race(" + kind + ") on " + what
	msg := "unordered conflicting accesses (no happens-before edge): " + fn1 + "  ||  " + fn2
	i.path.observed = append(i.path.observed, msg)
	known := ""
	for _, kp := range i.path.knownP {
		if OpenKnown[kp.id] && matchPanicPattern(kp.site, label+" "+msg, fn2) {
			known = kp.id
			i.stats.KnownSeen[kp.id]++
			break
		}
	}
	i.violation("race", label, msg, fn2, i.path.model, known)
}

// visible: a generic visible operation on obj (atomic op, chan len, ...).
func (s *scheduler) visible(i *interpreter, op string, obj any) {
	if s.enabled && i.path != nil {
		s.tick()
		s.yield(i, op)
	}
}

// ---- mutexes

func (s *scheduler) mvcOf(p *value) *mutexVC {
	m := s.mvc[p]
	if m == nil {
		m = &mutexVC{}
		s.mvc[p] = m
	}
	return m
}

func (s *scheduler) lock(i *interpreter, mv value, write bool) {
	p := mv.(*value)
	ls := i.lockOf(p)
	s.tick()
	s.yield(i, "lock")
	if write {
		if ls.writer || ls.readers > 0 {
			ls.waitingWriters++
			i.logUndo(func() { ls.waitingWriters-- })
			s.block(i, func() bool { return ls.writer || ls.readers > 0 }, "Lock")
			ls.waitingWriters--
			i.logUndo(func() { ls.waitingWriters++ })
		}
		ls.writer = true
		ls.owner = s.cur.id
		i.logUndo(func() { ls.writer = false })
		m := s.mvcOf(p)
		s.cur.vc.join(m.w)
		s.cur.vc.join(m.r)
	} else {
		s.block(i, func() bool { return ls.writer || ls.waitingWriters > 0 }, "RLock")
		ls.readers++
		i.logUndo(func() { ls.readers-- })
		s.cur.vc.join(s.mvcOf(p).w)
	}
}

func (s *scheduler) unlock(i *interpreter, mv value, write bool) {
	p := mv.(*value)
	ls := i.lockOf(p)
	s.tick()
	m := s.mvcOf(p)
	if write {
		if !ls.writer {
			panic("sync: unlock of unlocked mutex")
		}
		ls.writer = false
		i.logUndo(func() { ls.writer = true })
		m.w = s.cur.vc.clone()
	} else {
		if ls.readers <= 0 {
			panic("sync: RUnlock of unlocked RWMutex")
		}
		ls.readers--
		i.logUndo(func() { ls.readers++ })
		m.r.join(s.cur.vc)
	}
	s.yield(i, "unlock")
}

// wgDone: WaitGroup.Done/Add(-n) releases the caller's clock into the group.
func (s *scheduler) wgRelease(wg *value) {
	s.tick()
	s.wgvc[wg] = joined(s.wgvc[wg], s.cur.vc)
}

func (s *scheduler) waitUntil(i *interpreter, wg *value, cond func() bool, what string) {
	s.tick()
	s.yield(i, what)
	s.block(i, func() bool { return !cond() }, what)
	s.cur.vc.join(s.wgvc[wg]) // Done happens-before the return of Wait
}

// ---- channels (exact Go semantics: FIFO buffer, rendezvous, close)

// selWait is a parked select: it registers one offer per send case and one waiter per receive
// case; whichever counterpart arrives first completes it (fired = case index) and withdraws the
// other registrations.
type selWait struct {
	fired  int
	recvV  value
	recvOk bool
	offers []*offer
	waits  []*rwaiter
}

// rwaiter is a parked receiver (plain receive, or one receive case of a parked select).
type rwaiter struct {
	ch   *schan
	v    value
	done bool
	sel  *selWait
	idx  int
}

func removeWaiter(c *schan, w *rwaiter) {
	for k, o := range c.waiters {
		if o == w {
			c.waiters = append(append([]*rwaiter{}, c.waiters[:k]...), c.waiters[k+1:]...)
			return
		}
	}
}

// completeSel marks a parked select as completed through case idx and withdraws everything else
// it had registered.
func completeSel(sw *selWait, idx int) {
	sw.fired = idx
	for _, o := range sw.offers {
		removeOffer(o.ch, o)
	}
	for _, w := range sw.waits {
		removeWaiter(w.ch, w)
	}
}

// pick chooses one of n equally enabled alternatives; every alternative is explored.
func (s *scheduler) pick(i *interpreter, n int) int {
	if n <= 1 {
		return 0
	}
	p := i.path
	if p.pos < len(p.prefix) {
		d := p.prefix[p.pos]
		p.pos++
		if d.Kind != DecPick || int(d.V) >= n {
			panic(abort{kind: "inconclusive", msg: "nondeterministic replay: expected pick"})
		}
		p.decisions = append(p.decisions, d)
		return int(d.V)
	}
	for k := 1; k < n; k++ {
		np := make([]Decision, len(p.decisions)+1)
		copy(np, p.decisions)
		np[len(p.decisions)] = Decision{Kind: DecPick, V: int64(k)}
		i.exp.push(workItem{prefix: np, model: p.model})
	}
	p.decisions = append(p.decisions, Decision{Kind: DecPick, V: 0})
	return 0
}

// takeOffer removes the first parked sender's offer and marks it taken (completing its select).
func takeOffer(c *schan) value {
	of := c.offers[0]
	c.offers = append([]*offer{}, c.offers[1:]...)
	of.taken = true
	if of.sel != nil {
		completeSel(of.sel, of.idx)
	}
	return of.v
}

// sendNow performs a send that is known not to block: hand the value to a parked receiver, or
// put it into the buffer.
func (i *interpreter) sendNow(c *schan, v value) {
	s := i.sched
	s.chvc[c] = joined(s.chvc[c], s.cur.vc)
	if len(c.waiters) > 0 {
		w := c.waiters[0]
		c.waiters = append([]*rwaiter{}, c.waiters[1:]...)
		w.v, w.done = v, true
		if w.sel != nil {
			w.sel.recvV, w.sel.recvOk = v, true
			completeSel(w.sel, w.idx)
		}
		return
	}
	old := c.buf
	i.logUndo(func() { c.buf = old })
	c.buf = append(append([]value{}, c.buf...), v)
}

func (i *interpreter) chanSend(ch value, v value) {
	c := ch.(*schan)
	s := i.sched
	if s == nil || !s.enabled || i.path == nil {
		i.seqChanSend(c, v)
		return
	}
	s.tick()
	s.yield(i, "send")
	if c == nil {
		s.block(i, func() bool { return true }, "send on nil channel")
	}
	if c.closed {
		panic("send on closed channel")
	}
	me := s.cur
	if len(c.waiters) > 0 || len(c.buf) < c.capacity {
		i.sendNow(c, v)
		return
	}
	// full or unbuffered: post an offer and park until a receiver takes it (or the channel is closed)
	of := &offer{ch: c, v: v}
	me.offer = of
	c.offers = append(c.offers, of)
	s.chvc[c] = joined(s.chvc[c], me.vc)
	s.block(i, func() bool { return !of.taken && !c.closed }, "send (parked)")
	me.offer = nil
	if !of.taken {
		// woken by close
		removeOffer(c, of)
		panic("send on closed channel")
	}
}

func joined(a, b vclock) vclock {
	r := a.clone()
	r.join(b)
	return r
}

func removeOffer(c *schan, of *offer) {
	for k, o := range c.offers {
		if o == of {
			c.offers = append(append([]*offer{}, c.offers[:k]...), c.offers[k+1:]...)
			return
		}
	}
}

func (i *interpreter) chanRecv(ch value) (value, bool) {
	c := ch.(*schan)
	s := i.sched
	if s == nil || !s.enabled || i.path == nil {
		return i.seqChanRecv(c)
	}
	s.tick()
	s.yield(i, "recv")
	if c == nil {
		s.block(i, func() bool { return true }, "receive on nil channel")
	}
	if len(c.buf) == 0 && len(c.offers) == 0 && !c.closed {
		// nothing to take: park as a waiting receiver; a sender hands its value over directly
		w := &rwaiter{ch: c}
		c.waiters = append(c.waiters, w)
		s.block(i, func() bool { return !w.done && !c.closed }, "recv (parked)")
		s.cur.vc.join(s.chvc[c])
		if w.done {
			return w.v, true
		}
		removeWaiter(c, w)
		return nil, false // closed while parked
	}
	s.cur.vc.join(s.chvc[c])
	return i.recvNoYield(c)
}

func (i *interpreter) chanClose(ch value) {
	c := ch.(*schan)
	s := i.sched
	if s != nil && s.enabled && i.path != nil {
		s.tick()
		s.yield(i, "close")
	}
	if c == nil {
		panic("close of nil channel")
	}
	if c.closed {
		panic("close of closed channel")
	}
	i.logUndo(func() { c.closed = false })
	c.closed = true
	if s != nil && s.enabled && i.path != nil {
		s.chvc[c] = joined(s.chvc[c], s.cur.vc)
	}
}

// sequential (single-thread) channel model
func (i *interpreter) seqChanSend(c *schan, v value) {
	if c == nil {
		panic(abort{kind: "deadlock", msg: "send on nil channel"})
	}
	if c.closed {
		panic("send on closed channel")
	}
	if len(c.buf) < c.capacity {
		old := c.buf
		i.logUndo(func() { c.buf = old })
		c.buf = append(append([]value{}, c.buf...), v)
		return
	}
	panic(abort{kind: "deadlock", msg: "send would block (single thread)"})
}

func (i *interpreter) seqChanRecv(c *schan) (value, bool) {
	if c == nil {
		panic(abort{kind: "deadlock", msg: "receive on nil channel"})
	}
	if len(c.buf) > 0 {
		old := c.buf
		i.logUndo(func() { c.buf = old })
		v := c.buf[0]
		c.buf = append([]value{}, c.buf[1:]...)
		return v, true
	}
	if c.closed {
		return nil, false
	}
	panic(abort{kind: "deadlock", msg: "receive would block (single thread)"})
}

// doSelect: among the ready cases one is chosen nondeterministically (every choice is explored);
// default if none is ready. With the scheduler on, a blocking select registers an offer / a waiter
// for each of its cases and parks until a counterpart completes one of them or a close makes a
// case ready.
func (i *interpreter) doSelect(fr *frame, instr *ssa.Select) value {
	s := i.sched
	threaded := s != nil && s.enabled && i.path != nil
	chans := make([]*schan, len(instr.States))
	for n, st := range instr.States {
		chans[n], _ = fr.get(st.Chan).(*schan)
	}
	ready := func() []int {
		var out []int
		for n, st := range instr.States {
			c := chans[n]
			if c == nil {
				continue
			}
			if st.Dir == types.RecvOnly {
				if len(c.buf) > 0 || c.closed || len(c.offers) > 0 {
					out = append(out, n)
				}
			} else {
				if c.closed || len(c.buf) < c.capacity || (threaded && len(c.waiters) > 0) {
					out = append(out, n)
				}
			}
		}
		return out
	}
	if threaded {
		s.tick()
		s.yield(i, "select")
	}
	chosen := -1
	var recv value
	recvOk := false
	completed := false
	rs := ready()
	if len(rs) == 0 && instr.Blocking {
		if !threaded {
			panic(abort{kind: "deadlock", msg: "select would block (single thread)"})
		}
		sw := &selWait{fired: -1}
		for n, st := range instr.States {
			c := chans[n]
			if c == nil {
				continue
			}
			if st.Dir == types.RecvOnly {
				w := &rwaiter{ch: c, sel: sw, idx: n}
				c.waiters = append(c.waiters, w)
				sw.waits = append(sw.waits, w)
			} else {
				of := &offer{ch: c, v: fr.get(st.Send), sel: sw, idx: n}
				c.offers = append(c.offers, of)
				sw.offers = append(sw.offers, of)
				s.chvc[c] = joined(s.chvc[c], s.cur.vc)
			}
		}
		anyClosed := func() bool {
			for _, c := range chans {
				if c != nil && c.closed {
					return true
				}
			}
			return false
		}
		s.block(i, func() bool { return sw.fired < 0 && !anyClosed() }, "select (parked)")
		if sw.fired >= 0 {
			chosen, recv, recvOk, completed = sw.fired, sw.recvV, sw.recvOk, true
			if c := chans[chosen]; c != nil {
				s.cur.vc.join(s.chvc[c])
			}
		} else {
			completeSel(sw, -1) // withdraw the registrations; a close made some case ready
			rs = ready()
		}
	}
	if !completed && len(rs) > 0 {
		k := 0
		if threaded {
			k = s.pick(i, len(rs))
		}
		chosen = rs[k]
		st := instr.States[chosen]
		c := chans[chosen]
		if st.Dir == types.RecvOnly {
			if threaded {
				s.cur.vc.join(s.chvc[c])
			}
			recv, recvOk = i.recvNoYield(c)
		} else {
			if c.closed {
				panic("send on closed channel")
			}
			if threaded {
				i.sendNow(c, fr.get(st.Send))
			} else {
				old := c.buf
				i.logUndo(func() { c.buf = old })
				c.buf = append(append([]value{}, c.buf...), fr.get(st.Send))
			}
		}
	}
	r := tuple{chosen, recvOk}
	for n, st := range instr.States {
		if st.Dir == types.RecvOnly {
			var v value
			if n == chosen && recvOk {
				v = recv
			} else {
				v = zero(st.Chan.Type().Underlying().(*types.Chan).Elem())
			}
			r = append(r, v)
		}
	}
	return r
}

// recvNoYield takes what is available on c: a buffered value (letting a parked sender refill the
// buffer), a parked sender's value, or (closed and drained) nothing.
func (i *interpreter) recvNoYield(c *schan) (value, bool) {
	if len(c.buf) > 0 {
		old := c.buf
		i.logUndo(func() { c.buf = old })
		v := c.buf[0]
		c.buf = append([]value{}, c.buf[1:]...)
		if len(c.offers) > 0 {
			c.buf = append(c.buf, takeOffer(c))
		}
		return v, true
	}
	if len(c.offers) > 0 {
		return takeOffer(c), true
	}
	return nil, false
}
