package interp

// Channels, goroutines and locks. Sequential model first; the bounded
// scheduler (threads under a baton, every interleaving of visible operations
// as decisions) is layered on top of the same entry points.

import (
	"fmt"
	"go/token"
	"go/types"

	"golang.org/x/tools/go/ssa"
)

type scheduler struct {
	threads []*thread
	cur     int
	enabled bool
}

func (s *scheduler) lock(i *interpreter, m value, write bool)                {}
func (s *scheduler) unlock(i *interpreter, m value, write bool)              {}
func (s *scheduler) waitUntil(i *interpreter, cond func() bool, what string) {}

type thread struct {
	id   int
	done bool
}

func (s *scheduler) reset()                                     {}
func (s *scheduler) finishMain(i *interpreter)                  {}
func (s *scheduler) visible(i *interpreter, op string, obj any) {}

func (i *interpreter) spawn(fr *frame, pos token.Pos, fn value, args []value) {
	panic(abort{kind: "unsupported", msg: "go statement (scheduler not enabled)"})
}

func (i *interpreter) chanSend(ch value, v value) {
	c := ch.(*schan)
	if c == nil {
		panic(abort{kind: "deadlock", msg: "send on nil channel"})
	}
	if c.closed {
		panic("send on closed channel")
	}
	if len(c.buf) < c.capacity {
		old := c.buf
		i.logUndo(func() { c.buf = old })
		c.buf = append(append([]value{}, c.buf...), v)
		return
	}
	panic(abort{kind: "deadlock", msg: "send would block (single thread)"})
}

func (i *interpreter) chanRecv(ch value) (value, bool) {
	c := ch.(*schan)
	if c == nil {
		panic(abort{kind: "deadlock", msg: "receive on nil channel"})
	}
	if len(c.buf) > 0 {
		old := c.buf
		i.logUndo(func() { c.buf = old })
		v := c.buf[0]
		c.buf = append([]value{}, c.buf[1:]...)
		return v, true
	}
	if c.closed {
		return nil, false
	}
	panic(abort{kind: "deadlock", msg: "receive would block (single thread)"})
}

func (i *interpreter) chanClose(ch value) {
	c := ch.(*schan)
	if c == nil {
		panic("close of nil channel")
	}
	if c.closed {
		panic("close of closed channel")
	}
	i.logUndo(func() { c.closed = false })
	c.closed = true
}

func (i *interpreter) doSelect(fr *frame, instr *ssa.Select) value {
	// sequential model: first ready case in order; default if none; else deadlock
	chosen := -1
	var recv value
	recvOk := false
	for n, st := range instr.States {
		c := fr.get(st.Chan).(*schan)
		if c == nil {
			continue
		}
		if st.Dir == types.RecvOnly {
			if len(c.buf) > 0 || c.closed {
				recv, recvOk = i.chanRecv(c)
				chosen = n
				break
			}
		} else {
			if c.closed {
				panic("send on closed channel")
			}
			if len(c.buf) < c.capacity {
				i.chanSend(c, fr.get(st.Send))
				chosen = n
				break
			}
		}
	}
	if chosen < 0 && instr.Blocking {
		panic(abort{kind: "deadlock", msg: "select would block (single thread)"})
	}
	r := tuple{chosen, recvOk}
	for n, st := range instr.States {
		if st.Dir == types.RecvOnly {
			var v value
			if n == chosen && recvOk {
				v = recv
			} else {
				v = zero(st.Chan.Type().Underlying().(*types.Chan).Elem())
			}
			r = append(r, v)
		}
	}
	return r
}

var _ = fmt.Sprintf
