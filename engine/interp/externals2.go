package interp

// Externals of the symbolic engine: the symx harness API, and contract-level
// models of the parts of the Go runtime/std that cannot be interpreted from
// source (assembly, unsafe tricks, OS access). Every entry here is part of the
// trusted base of every claim (DESIGN.md §2.7).

import (
	"fmt"
	"go/token"
	"go/types"
	"math"
	"strings"
	"unicode/utf8"
	"unsafe"

	"golang.org/x/tools/go/ssa"
	"verif/engine/sym"
)

func decodeRuneNative(s string) (rune, int) { return utf8.DecodeRuneInString(s) }

// lookupExternal finds the external implementation for fn, if any.
func (i *interpreter) lookupExternal(fn *ssa.Function) externalFn {
	name := fn.String()
	if ext := externals[name]; ext != nil {
		return ext
	}
	if ext := externals2[name]; ext != nil {
		return ext
	}
	// generic instantiations: strip type arguments "[...]"
	if k := strings.IndexByte(name, '['); k >= 0 {
		base := name[:k]
		if j := strings.LastIndexByte(name, ']'); j > k {
			base += name[j+1:]
		}
		if ext := externals2[base]; ext != nil {
			return ext
		}
	}
	return nil
}

var externals2 map[string]externalFn

// symxFunc returns the SSA function verif/symx.<name> of the loaded program (nil if absent).
func (i *interpreter) symxFunc(name string) *ssa.Function {
	if i.symxPkg == nil {
		for _, p := range i.prog.AllPackages() {
			if p.Pkg.Path() == "verif/symx" {
				i.symxPkg = p
				break
			}
		}
		if i.symxPkg == nil {
			return nil
		}
	}
	return i.symxPkg.Func(name)
}

func goStr(v value) string {
	switch s := v.(type) {
	case string:
		return s
	case symstr:
		return fmt.Sprintf("<symstr len=%d>", len(s.b))
	case opaqueStr:
		return "<opaque>"
	}
	return fmt.Sprint(v)
}

func init() {
	externals2 = map[string]externalFn{
		// ---- symx
		"verif/symx.Int":    func(fr *frame, a []value) value { return mkSym(fr.i.newInput(goStr(a[0]), "int", 64), types.Int) },
		"verif/symx.Int64":  func(fr *frame, a []value) value { return mkSym(fr.i.newInput(goStr(a[0]), "int64", 64), types.Int64) },
		"verif/symx.Uint64": func(fr *frame, a []value) value { return mkSym(fr.i.newInput(goStr(a[0]), "uint64", 64), types.Uint64) },
		"verif/symx.Uint32": func(fr *frame, a []value) value { return mkSym(fr.i.newInput(goStr(a[0]), "uint32", 32), types.Uint32) },
		"verif/symx.Int32":  func(fr *frame, a []value) value { return mkSym(fr.i.newInput(goStr(a[0]), "int32", 32), types.Int32) },
		"verif/symx.Byte":   func(fr *frame, a []value) value { return mkSym(fr.i.newInput(goStr(a[0]), "byte", 8), types.Uint8) },
		"verif/symx.Bool":   func(fr *frame, a []value) value { return mkSym(fr.i.newInput(goStr(a[0]), "bool", 0), types.Bool) },
		"verif/symx.Float64": func(fr *frame, a []value) value {
			t := fr.i.newInput(goStr(a[0]), "float64", 64)
			return mkSym(fr.i.ctx.FPOfBits(t), types.Float64)
		},
		"verif/symx.IntRange": func(fr *frame, a []value) value {
			i := fr.i
			t := i.newInput(goStr(a[0]), "int", 64)
			lo, hi := asInt64(a[1]), asInt64(a[2])
			c := i.ctx
			i.assume(mkSym(c.And(c.Bin(sym.OpSle, c.BV(uint64(lo), 64), t), c.Bin(sym.OpSle, t, c.BV(uint64(hi), 64))), types.Bool))
			return mkSym(t, types.Int)
		},
		"verif/symx.Bytes": func(fr *frame, a []value) value {
			n := int(asInt64(a[1]))
			out := make([]value, n)
			for k := 0; k < n; k++ {
				out[k] = mkSym(fr.i.newInput(fmt.Sprintf("%s_%d", goStr(a[0]), k), "byte", 8), types.Uint8)
			}
			return out
		},
		"verif/symx.String": func(fr *frame, a []value) value {
			n := int(asInt64(a[1]))
			out := make([]value, n)
			for k := 0; k < n; k++ {
				out[k] = mkSym(fr.i.newInput(fmt.Sprintf("%s_%d", goStr(a[0]), k), "byte", 8), types.Uint8)
			}
			return mkStr(out)
		},
		"verif/symx.Choose": func(fr *frame, a []value) value {
			i := fr.i
			k := asInt64(a[1])
			t := i.newInput(goStr(a[0]), "choose", 64)
			c := i.ctx
			i.assume(mkSym(c.Bin(sym.OpUlt, t, c.BV(uint64(k), 64)), types.Bool))
			s := &Sym{T: t, K: types.Int}
			return i.concretize(s)
		},
		"verif/symx.Param": func(fr *frame, a []value) value {
			if v, ok := fr.i.params[goStr(a[0])]; ok {
				return v
			}
			return int(asInt64(a[1]))
		},
		"verif/symx.Assume": func(fr *frame, a []value) value { fr.i.assume(a[0]); return nil },
		"verif/symx.Assert": func(fr *frame, a []value) value { fr.i.assert(a[0], goStr(a[1]), nil, ""); return nil },
		"verif/symx.AssertKnown": func(fr *frame, a []value) value {
			fr.i.assert(a[0], goStr(a[1]), a[2], goStr(a[3]))
			return nil
		},
		"verif/symx.KnownPanic": func(fr *frame, a []value) value {
			p := fr.i.path
			p.knownP = append(p.knownP, knownPanic{id: goStr(a[0]), site: goStr(a[1]), cond: fr.i.termOf(a[2])})
			return nil
		},
		"verif/symx.ClearKnownPanics": func(fr *frame, a []value) value { fr.i.path.knownP = nil; return nil },
		"verif/symx.Reach": func(fr *frame, a []value) value {
			if fr.i.path != nil {
				fr.i.path.reached[goStr(a[0])] = true
			}
			return nil
		},
		"verif/symx.Observe": func(fr *frame, a []value) value {
			if fr.i.path != nil && (len(fr.i.path.observed) < 32 || fr.i.collectObserved) {
				var sb strings.Builder
				sb.WriteString(goStr(a[0]))
				for _, v := range a[1].([]value) {
					sb.WriteByte(' ')
					sb.WriteString(describeVal(fr.i, v))
				}
				fr.i.path.observed = append(fr.i.path.observed, sb.String())
			}
			return nil
		},
		"verif/symx.IsSymbolic": func(fr *frame, a []value) value { return true },
		"verif/symx.Concrete": func(fr *frame, a []value) value {
			// Concrete(x int) int: pin to a concrete value (forks over feasible values)
			if s, ok := a[0].(*Sym); ok {
				return fr.i.concretize(s)
			}
			return a[0]
		},
		"verif/symx.SameFloat": func(fr *frame, a []value) value {
			i := fr.i
			if !isSym(a[0]) && !isSym(a[1]) {
				x, y := a[0].(float64), a[1].(float64)
				return (x != x && y != y) || math.Float64bits(x) == math.Float64bits(y)
			}
			return mkSym(i.ctx.SameFP(i.termOf(a[0]), i.termOf(a[1])), types.Bool)
		},
		"verif/symx.Ite": func(fr *frame, a []value) value {
			// Ite(c bool, x, y int) int without forking
			i := fr.i
			ct := i.termOf(a[0])
			if ct == i.ctx.True {
				return a[1]
			}
			if ct == i.ctx.False {
				return a[2]
			}
			return mkSym(i.ctx.Ite(ct, i.termOf(a[1]), i.termOf(a[2])), kindOf(a[1]))
		},

		// ---- runtime / unsafe / abi
		"internal/abi.NoEscape":                     func(fr *frame, a []value) value { return a[0] },
		"internal/abi.Escape":                       func(fr *frame, a []value) value { return a[0] },
		"runtime.Caller":                            func(fr *frame, a []value) value { return tuple{uintptr(0), "go-source.go", 1, true} },
		"runtime.Callers":                           func(fr *frame, a []value) value { return 0 },
		"(*internal/godebug.Setting).Value":         func(fr *frame, a []value) value { return "" },
		"(*internal/godebug.Setting).IncNonDefault": func(fr *frame, a []value) value { return nil },
		"(*internal/godebug.Setting).Undocumented":  func(fr *frame, a []value) value { return false },
		"runtime.KeepAlive":                         func(fr *frame, a []value) value { return nil },
		"runtime.SetFinalizer":                      func(fr *frame, a []value) value { return nil },
		"runtime.Gosched":                           func(fr *frame, a []value) value { return nil },
		"runtime.GC":                                func(fr *frame, a []value) value { return nil },
		"runtime.NumGoroutine":                      func(fr *frame, a []value) value { return 1 },
		"runtime/debug.Stack":                       func(fr *frame, a []value) value { b, _ := strBytes("goroutine 1 [running]:\n"); return b },
		"runtime/debug.SetGCPercent":                func(fr *frame, a []value) value { return 100 },
		"os/signal.Notify":                          func(fr *frame, a []value) value { return nil },
		"os.Getenv":                                 func(fr *frame, a []value) value { return "" },
		"os.LookupEnv":                              func(fr *frame, a []value) value { return tuple{"", false} },
		// os.Stat / Lstat / ReadFile / ReadDir: redirected to the harness-side virtual file system
		// (verif/symx/vfs.go, ordinary Go executed by the engine); without it: an empty file system
		"os.Stat": func(fr *frame, a []value) value {
			if fn := fr.i.symxFunc("VfsStat"); fn != nil {
				return call(fr.i, fr, token.NoPos, fn, []value{a[0]})
			}
			return tuple{iface{}, fr.i.newError(fr, "stat "+goStr(a[0])+": no such file or directory (engine: empty file system)")}
		},
		"os.Lstat": func(fr *frame, a []value) value {
			if fn := fr.i.symxFunc("VfsStat"); fn != nil {
				return call(fr.i, fr, token.NoPos, fn, []value{a[0]})
			}
			return tuple{iface{}, fr.i.newError(fr, "lstat "+goStr(a[0])+": no such file or directory (engine: empty file system)")}
		},
		"os.ReadFile": func(fr *frame, a []value) value {
			if fn := fr.i.symxFunc("VfsReadFile"); fn != nil {
				return call(fr.i, fr, token.NoPos, fn, []value{a[0]})
			}
			return tuple{[]value(nil), fr.i.newError(fr, "open "+goStr(a[0])+": no such file or directory (engine: empty file system)")}
		},
		"os.ReadDir": func(fr *frame, a []value) value {
			if fn := fr.i.symxFunc("VfsReadDir"); fn != nil {
				return call(fr.i, fr, token.NoPos, fn, []value{a[0]})
			}
			return tuple{[]value(nil), fr.i.newError(fr, "open "+goStr(a[0])+": no such file or directory (engine: empty file system)")}
		},
		"os.Open": func(fr *frame, a []value) value {
			return tuple{(*value)(nil), fr.i.newError(fr, "open "+goStr(a[0])+": no such file or directory (engine: empty file system)")}
		},
		"os.Executable": func(fr *frame, a []value) value { return tuple{"/engine/origami", iface{}} },
		"os.IsNotExist": func(fr *frame, a []value) value { return a[0].(iface).t != nil },
		"path/filepath.Abs": func(fr *frame, a []value) value {
			s := goStr(a[0])
			if len(s) == 0 || s[0] != '/' {
				s = "/" + s
			}
			return tuple{s, iface{}}
		},
		"path/filepath.EvalSymlinks": func(fr *frame, a []value) value { return tuple{a[0], iface{}} },
		"verif/symx.Shared": func(fr *frame, a []value) value {
			// Shared(ptr, name): accesses to *ptr become visible operations (schedule points) and are
			// checked for happens-before races
			if fr.i.sched != nil && fr.i.sched.enabled {
				if itf, ok := a[0].(iface); ok {
					if p, ok := itf.v.(*value); ok && p != nil {
						fr.i.sched.shared[p] = goStr(a[1])
					}
				}
			}
			return nil
		},
		"verif/symx.SharedMap": func(fr *frame, a []value) value {
			if fr.i.sched != nil && fr.i.sched.enabled {
				if itf, ok := a[0].(iface); ok {
					if m, ok := itf.v.(*omap); ok && m != nil {
						fr.i.sched.sharedObjs[m] = true
					}
				}
			}
			return nil
		},
		"verif/symx.MapOrder": func(fr *frame, a []value) value {
			fr.i.mapOrderSym = a[0].(bool)
			return nil
		},
		"verif/symx.SoftOpaque": func(fr *frame, a []value) value { fr.i.softOpaque = a[0].(bool); return nil },
		// Cost(): SSA instructions executed so far on this path (a deterministic cost meter)
		"verif/symx.Printed": func(fr *frame, a []value) value {
			var out value = ""
			for _, p := range fr.i.path.printed {
				if ps, ok := p.(string); ok {
					if os, ok := out.(string); ok {
						out = os + ps
						continue
					}
				}
				out = symStrBinop(token.ADD, out, p)
			}
			return out
		},
		"verif/symx.Cost": func(fr *frame, a []value) value { return int(fr.i.fuelStart - fr.i.fuel) },
		"verif/symx.SoftFuel": func(fr *frame, a []value) value {
			fr.i.softFuelAt = fr.i.fuel - asInt64(a[0])
			return nil
		},
		"os.Getwd":   func(fr *frame, a []value) value { return tuple{"/", iface{}} },
		"os.Exit":    func(fr *frame, a []value) value { panic(abort{kind: "exit", msg: fmt.Sprint(asInt64(a[0]))}) },
		"time.Sleep": func(fr *frame, a []value) value { return nil },
		"(*strings.Builder).String": func(fr *frame, a []value) value {
			b := (*a[0].(*value)).(structure)
			buf, _ := b[1].([]value)
			return mkStr(append([]value{}, buf...))
		},
		"(*strings.Builder).copyCheck": func(fr *frame, a []value) value { return nil },
		"strings.Clone":                func(fr *frame, a []value) value { return a[0] },
		"internal/stringslite.Clone":   func(fr *frame, a []value) value { return a[0] },
		"internal/bytealg.MakeNoZero": func(fr *frame, a []value) value {
			n := int(asInt64(a[0]))
			out := make([]value, n)
			for k := range out {
				out[k] = uint8(0)
			}
			return out
		},
		"internal/bytealg.IndexByte":           extIndexByte,
		"internal/bytealg.IndexByteString":     extIndexByte,
		"internal/bytealg.LastIndexByte":       extLastIndexByte,
		"internal/bytealg.LastIndexByteString": extLastIndexByte,
		"internal/bytealg.CountString":         extCountByte,
		"internal/bytealg.Count":               extCountByte,
		"internal/bytealg.Equal":               extBytesEqual,
		"bytes.Equal":                          extBytesEqual,
		"internal/bytealg.IndexString":         extIndexString,
		"internal/bytealg.Index":               extIndexString,
		"internal/bytealg.Compare":             extCompare,
		"internal/bytealg.CompareString":       extCompare,
		"bytes.Compare":                        extCompare,
		"strings.Compare":                      extCompare,

		"math.Floor":       func(fr *frame, a []value) value { return roundFn(fr, a[0], 1, math.Floor) },
		"math.Ceil":        func(fr *frame, a []value) value { return roundFn(fr, a[0], 2, math.Ceil) },
		"math.Trunc":       func(fr *frame, a []value) value { return roundFn(fr, a[0], 0, math.Trunc) },
		"math.RoundToEven": func(fr *frame, a []value) value { return roundFn(fr, a[0], 3, math.RoundToEven) },
		"math.Round":       func(fr *frame, a []value) value { return roundFn(fr, a[0], 4, math.Round) },
		"math.Pow": func(fr *frame, a []value) value {
			x, ok1 := a[0].(float64)
			y, ok2 := a[1].(float64)
			if ok1 && ok2 {
				return math.Pow(x, y)
			}
			panic(abort{kind: "unsupported", msg: "math.Pow on symbolic operand"})
		},
		"math.Mod": func(fr *frame, a []value) value {
			x, ok1 := a[0].(float64)
			y, ok2 := a[1].(float64)
			if ok1 && ok2 {
				return math.Mod(x, y)
			}
			panic(abort{kind: "unsupported", msg: "math.Mod on symbolic operand"})
		},
		"math.Modf": func(fr *frame, a []value) value {
			if x, ok := a[0].(float64); ok {
				ip, fp := math.Modf(x)
				return tuple{ip, fp}
			}
			panic(abort{kind: "unsupported", msg: "math.Modf on symbolic operand"})
		},
		"math.IsInf": func(fr *frame, a []value) value {
			if x, ok := a[0].(float64); ok {
				return math.IsInf(x, int(asInt64(a[1])))
			}
			i := fr.i
			c := i.ctx
			x := a[0].(*Sym).T
			sign := asInt64(a[1])
			pinf := c.Bin(sym.OpFEq, x, c.FPConst(math.Float64bits(math.Inf(1)), 64))
			ninf := c.Bin(sym.OpFEq, x, c.FPConst(math.Float64bits(math.Inf(-1)), 64))
			switch {
			case sign > 0:
				return mkSym(pinf, types.Bool)
			case sign < 0:
				return mkSym(ninf, types.Bool)
			}
			return mkSym(c.Or(pinf, ninf), types.Bool)
		},
	}
	// symbolic-aware replacements of stock math externals
	externals["math.IsNaN"] = func(fr *frame, a []value) value {
		if s, ok := a[0].(*Sym); ok {
			return mkSym(fr.i.ctx.Un(sym.OpFIsNaN, s.T), types.Bool)
		}
		return math.IsNaN(a[0].(float64))
	}
	externals["math.Abs"] = func(fr *frame, a []value) value {
		if s, ok := a[0].(*Sym); ok {
			return mkSym(fr.i.ctx.Un(sym.OpFAbs, s.T), types.Float64)
		}
		return math.Abs(a[0].(float64))
	}
	externals["math.Sqrt"] = func(fr *frame, a []value) value {
		if s, ok := a[0].(*Sym); ok {
			return mkSym(fr.i.ctx.Un(sym.OpFSqrt, s.T), types.Float64)
		}
		return math.Sqrt(a[0].(float64))
	}
	externals["math.Float64bits"] = func(fr *frame, a []value) value {
		if _, ok := a[0].(*Sym); ok {
			panic(abort{kind: "unsupported", msg: "math.Float64bits on symbolic float"})
		}
		return math.Float64bits(a[0].(float64))
	}
	externals["math.Float64frombits"] = func(fr *frame, a []value) value {
		if s, ok := a[0].(*Sym); ok {
			return mkSym(fr.i.ctx.FPOfBits(s.T), types.Float64)
		}
		return math.Float64frombits(a[0].(uint64))
	}
	// go1.26 internal/strconv reinterprets bits through unsafe pointers (deps.go); same semantics as package math
	externals["internal/strconv.float64frombits"] = externals["math.Float64frombits"]
	externals["internal/strconv.float64bits"] = externals["math.Float64bits"]
	externals["internal/strconv.float32frombits"] = func(fr *frame, a []value) value {
		if _, ok := a[0].(*Sym); ok {
			panic(abort{kind: "unsupported", msg: "float32frombits on symbolic bits"})
		}
		return math.Float32frombits(a[0].(uint32))
	}
	externals["internal/strconv.float32bits"] = func(fr *frame, a []value) value {
		if _, ok := a[0].(*Sym); ok {
			panic(abort{kind: "unsupported", msg: "float32bits on symbolic float"})
		}
		return math.Float32bits(a[0].(float32))
	}
	initSyncExternals()
	initFmtExternals()
}

func roundFn(fr *frame, x value, mode int, f func(float64) float64) value {
	if v, ok := x.(float64); ok {
		return f(v)
	}
	if s, ok := x.(*Sym); ok && s.K == types.Float64 {
		return mkSym(fr.i.ctx.FRound(mode, s.T), types.Float64)
	}
	panic(abort{kind: "unsupported", msg: "math rounding on unexpected operand"})
}

func mathFn(x value, f func(float64) float64, name string) value {
	if v, ok := x.(float64); ok {
		return f(v)
	}
	panic(abort{kind: "unsupported", msg: "math." + name + " on symbolic operand"})
}

func describeVal(i *interpreter, v value) string {
	switch v := v.(type) {
	case iface:
		return describeVal(i, v.v)
	case *Sym:
		if i.path != nil {
			return fmt.Sprintf("sym(=%d in model)", int64(i.path.ev.Eval(v.T)))
		}
		return "sym"
	case symstr:
		var sb strings.Builder
		sb.WriteString("symstr\"")
		for _, b := range v.b {
			switch b := b.(type) {
			case uint8:
				fmt.Fprintf(&sb, "%c", b)
			case *Sym:
				fmt.Fprintf(&sb, "\\x%02x", i.path.ev.Eval(b.T))
			}
		}
		sb.WriteString("\"")
		return sb.String()
	}
	return toString(v)
}

// ---- bytealg models (symbolic-aware: comparisons fork)

func bytesOf(v value) []value {
	switch v := v.(type) {
	case []value:
		return v
	case string, symstr:
		b, _ := strBytes(v)
		return b
	case opaqueStr:
		panic(abort{kind: "inconclusive", msg: "opaque string scanned"})
	}
	panic(fmt.Sprintf("bytesOf: %T", v))
}

func (i *interpreter) byteEq(a, b value) bool {
	if !isSym(a) && !isSym(b) {
		return a.(uint8) == b.(uint8)
	}
	return i.branch(i.ctx.Eq(byteTerm(i, a), byteTerm(i, b)))
}

func extIndexByte(fr *frame, a []value) value {
	s := bytesOf(a[0])
	for k := range s {
		if fr.i.byteEq(s[k], a[1]) {
			return k
		}
	}
	return -1
}

func extLastIndexByte(fr *frame, a []value) value {
	s := bytesOf(a[0])
	for k := len(s) - 1; k >= 0; k-- {
		if fr.i.byteEq(s[k], a[1]) {
			return k
		}
	}
	return -1
}

func extCountByte(fr *frame, a []value) value {
	s := bytesOf(a[0])
	n := 0
	for k := range s {
		if fr.i.byteEq(s[k], a[1]) {
			n++
		}
	}
	return n
}

func extBytesEqual(fr *frame, a []value) value {
	x, y := bytesOf(a[0]), bytesOf(a[1])
	if len(x) != len(y) {
		return false
	}
	anySym := false
	for k := range x {
		if isSym(x[k]) || isSym(y[k]) {
			anySym = true
		}
	}
	if !anySym {
		for k := range x {
			if x[k].(uint8) != y[k].(uint8) {
				return false
			}
		}
		return true
	}
	return mkSym(fr.i.strEqTerm(x, y), types.Bool)
}

func extIndexString(fr *frame, a []value) value {
	s, sub := bytesOf(a[0]), bytesOf(a[1])
	for k := 0; k+len(sub) <= len(s); k++ {
		t := fr.i.strEqTerm(s[k:k+len(sub)], sub)
		if fr.i.branch(t) {
			return k
		}
	}
	return -1
}

func extCompare(fr *frame, a []value) value {
	x, y := bytesOf(a[0]), bytesOf(a[1])
	i := fr.i
	if i.branch(i.strEqTerm(x, y)) {
		return 0
	}
	if i.branch(i.strLtTerm(x, y)) {
		return -1
	}
	return 1
}

var _ = unsafe.Pointer(nil)
