// Copyright 2013 The Go Authors. All rights reserved.
// Use of this source code is governed by a BSD-style
// license that can be found in the LICENSE file.

package interp

import (
	"bytes"
	"fmt"
	"go/constant"
	"go/token"
	"go/types"
	"os"
	"unsafe"

	"golang.org/x/tools/go/ssa"
)

// If the target program panics, the interpreter panics with this type.
type targetPanic struct {
	v value
}

func (p targetPanic) String() string {
	return toString(p.v)
}

// If the target program calls exit, the interpreter panics with this type.
type exitPanic int

// constValue returns the value of the constant with the
// dynamic type tag appropriate for c.Type().
func constValue(c *ssa.Const) value {
	if c.Value == nil {
		return zero(c.Type()) // typed zero
	}
	// c is not a type parameter so it's underlying type is basic.

	if t, ok := c.Type().Underlying().(*types.Basic); ok {
		// TODO(adonovan): eliminate untyped constants from SSA form.
		switch t.Kind() {
		case types.Bool, types.UntypedBool:
			return constant.BoolVal(c.Value)
		case types.Int, types.UntypedInt:
			// Assume sizeof(int) is same on host and target.
			return int(c.Int64())
		case types.Int8:
			return int8(c.Int64())
		case types.Int16:
			return int16(c.Int64())
		case types.Int32, types.UntypedRune:
			return int32(c.Int64())
		case types.Int64:
			return c.Int64()
		case types.Uint:
			// Assume sizeof(uint) is same on host and target.
			return uint(c.Uint64())
		case types.Uint8:
			return uint8(c.Uint64())
		case types.Uint16:
			return uint16(c.Uint64())
		case types.Uint32:
			return uint32(c.Uint64())
		case types.Uint64:
			return c.Uint64()
		case types.Uintptr:
			// Assume sizeof(uintptr) is same on host and target.
			return uintptr(c.Uint64())
		case types.Float32:
			return float32(c.Float64())
		case types.Float64, types.UntypedFloat:
			return c.Float64()
		case types.Complex64:
			return complex64(c.Complex128())
		case types.Complex128, types.UntypedComplex:
			return c.Complex128()
		case types.String, types.UntypedString:
			if c.Value.Kind() == constant.String {
				return constant.StringVal(c.Value)
			}
			return string(rune(c.Int64()))
		}
	}

	panic(fmt.Sprintf("constValue: %s", c))
}

// fitsInt returns true if x fits in type int according to sizes.
func fitsInt(x int64, sizes types.Sizes) bool {
	intSize := sizes.Sizeof(types.Typ[types.Int])
	if intSize < sizes.Sizeof(types.Typ[types.Int64]) {
		maxInt := int64(1)<<((intSize*8)-1) - 1
		minInt := -int64(1) << ((intSize * 8) - 1)
		return minInt <= x && x <= maxInt
	}
	return true
}

// asInt64 converts x, which must be an integer, to an int64.
//
// Callers that need a value directly usable as an int should combine this with fitsInt().
func asInt64(x value) int64 {
	switch x := x.(type) {
	case int:
		return int64(x)
	case int8:
		return int64(x)
	case int16:
		return int64(x)
	case int32:
		return int64(x)
	case int64:
		return x
	case uint:
		return int64(x)
	case uint8:
		return int64(x)
	case uint16:
		return int64(x)
	case uint32:
		return int64(x)
	case uint64:
		return int64(x)
	case uintptr:
		return int64(x)
	case *Sym:
		return int64(ownerOf(x).concretizeBits(x))
	}
	panic(fmt.Sprintf("cannot convert %T to int64", x))
}

// asUint64 converts x, which must be an unsigned integer, to a uint64
// suitable for use as a bitwise shift count.
func asUint64(x value) uint64 {
	switch x := x.(type) {
	case uint:
		return uint64(x)
	case uint8:
		return uint64(x)
	case uint16:
		return uint64(x)
	case uint32:
		return uint64(x)
	case uint64:
		return x
	case uintptr:
		return uint64(x)
	case *Sym:
		return ownerOf(x).concretizeBits(x)
	}
	panic(fmt.Sprintf("cannot convert %T to uint64", x))
}

// asUnsigned returns the value of x, which must be an integer type, as its equivalent unsigned type,
// and returns true if x is non-negative.
func asUnsigned(x value) (value, bool) {
	switch x := x.(type) {
	case int:
		return uint(x), x >= 0
	case int8:
		return uint8(x), x >= 0
	case int16:
		return uint16(x), x >= 0
	case int32:
		return uint32(x), x >= 0
	case int64:
		return uint64(x), x >= 0
	case uint, uint8, uint32, uint64, uintptr:
		return x, true
	}
	panic(fmt.Sprintf("cannot convert %T to unsigned", x))
}

// zero returns a new "zero" value of the specified type.
func zero(t types.Type) value {
	switch t := t.(type) {
	case *types.Basic:
		if t.Kind() == types.UntypedNil {
			panic("untyped nil has no zero value")
		}
		if t.Info()&types.IsUntyped != 0 {
			// TODO(adonovan): make it an invariant that
			// this is unreachable.  Currently some
			// constants have 'untyped' types when they
			// should be defaulted by the typechecker.
			t = types.Default(t).(*types.Basic)
		}
		switch t.Kind() {
		case types.Bool:
			return false
		case types.Int:
			return int(0)
		case types.Int8:
			return int8(0)
		case types.Int16:
			return int16(0)
		case types.Int32:
			return int32(0)
		case types.Int64:
			return int64(0)
		case types.Uint:
			return uint(0)
		case types.Uint8:
			return uint8(0)
		case types.Uint16:
			return uint16(0)
		case types.Uint32:
			return uint32(0)
		case types.Uint64:
			return uint64(0)
		case types.Uintptr:
			return uintptr(0)
		case types.Float32:
			return float32(0)
		case types.Float64:
			return float64(0)
		case types.Complex64:
			return complex64(0)
		case types.Complex128:
			return complex128(0)
		case types.String:
			return ""
		case types.UnsafePointer:
			return unsafe.Pointer(nil)
		default:
			panic(fmt.Sprint("zero for unexpected type:", t))
		}
	case *types.Pointer:
		return (*value)(nil)
	case *types.Array:
		a := make(array, t.Len())
		for i := range a {
			a[i] = zero(t.Elem())
		}
		return a
	case *types.Named:
		return zero(t.Underlying())
	case *types.Alias:
		return zero(types.Unalias(t))
	case *types.Interface:
		return iface{} // nil type, methodset and value
	case *types.Slice:
		return []value(nil)
	case *types.Struct:
		s := make(structure, t.NumFields())
		for i := range s {
			s[i] = zero(t.Field(i).Type())
		}
		return s
	case *types.Tuple:
		if t.Len() == 1 {
			return zero(t.At(0).Type())
		}
		s := make(tuple, t.Len())
		for i := range s {
			s[i] = zero(t.At(i).Type())
		}
		return s
	case *types.Chan:
		return (*schan)(nil)
	case *types.Map:
		return (*omap)(nil)
	case *types.Signature:
		return (*ssa.Function)(nil)
	}
	panic(fmt.Sprint("zero: unexpected ", t))
}

// slice returns x[lo:hi:max].  Any of lo, hi and max may be nil.
func slice(x, lo, hi, max value) value {
	var Len, Cap int
	switch x := x.(type) {
	case string:
		Len = len(x)
	case symstr:
		Len = len(x.b)
	case opaqueStr:
		panic(abort{kind: "inconclusive", msg: "opaque string sliced"})
	case []value:
		Len = len(x)
		Cap = cap(x)
	case *value: // *array
		a := (*x).(array)
		Len = len(a)
		Cap = cap(a)
	}

	l := int64(0)
	if lo != nil {
		l = asInt64(lo)
	}

	h := int64(Len)
	if hi != nil {
		h = asInt64(hi)
	}

	m := int64(Cap)
	if max != nil {
		m = asInt64(max)
	}

	switch x := x.(type) {
	case string:
		return x[l:h]
	case symstr:
		if l < 0 || h > int64(len(x.b)) || l > h {
			rtPanic(fmt.Sprintf("slice bounds out of range [%d:%d] with length %d", l, h, len(x.b)))
		}
		return mkStr(x.b[l:h:h])
	case []value:
		return x[l:h:m]
	case *value: // *array
		a := (*x).(array)
		return []value(a)[l:h:m]
	}
	panic(fmt.Sprintf("slice: unexpected X type: %T", x))
}

// lookup returns x[idx] where x is a map.
func lookup(i *interpreter, instr *ssa.Lookup, x, idx value) value {
	switch x := x.(type) { // map or string
	case *omap:
		v, ok := x.lookup(i, idx)
		if !ok {
			v = zero(instr.X.Type().Underlying().(*types.Map).Elem())
		}
		if instr.CommaOk {
			v = tuple{v, ok}
		}
		return v
	case string, symstr, opaqueStr:
		return i.indexValue(x, idx)
	}
	panic(fmt.Sprintf("unexpected x type in Lookup: %T", x))
}

// binop implements all arithmetic and logical binary operators for
// numeric datatypes and strings.  Both operands must have identical
// dynamic type.
func binop(op token.Token, t types.Type, x, y value) value {
	switch x.(type) {
	case *Sym:
		return symBinop(op, x, y)
	case symstr, opaqueStr:
		return symStrBinop(op, x, y)
	}
	switch y.(type) {
	case *Sym:
		return symBinop(op, x, y)
	case symstr, opaqueStr:
		return symStrBinop(op, x, y)
	}
	switch op {
	case token.ADD:
		switch x.(type) {
		case int:
			return x.(int) + y.(int)
		case int8:
			return x.(int8) + y.(int8)
		case int16:
			return x.(int16) + y.(int16)
		case int32:
			return x.(int32) + y.(int32)
		case int64:
			return x.(int64) + y.(int64)
		case uint:
			return x.(uint) + y.(uint)
		case uint8:
			return x.(uint8) + y.(uint8)
		case uint16:
			return x.(uint16) + y.(uint16)
		case uint32:
			return x.(uint32) + y.(uint32)
		case uint64:
			return x.(uint64) + y.(uint64)
		case uintptr:
			return x.(uintptr) + y.(uintptr)
		case float32:
			return x.(float32) + y.(float32)
		case float64:
			return x.(float64) + y.(float64)
		case complex64:
			return x.(complex64) + y.(complex64)
		case complex128:
			return x.(complex128) + y.(complex128)
		case string:
			return x.(string) + y.(string)
		}

	case token.SUB:
		switch x.(type) {
		case int:
			return x.(int) - y.(int)
		case int8:
			return x.(int8) - y.(int8)
		case int16:
			return x.(int16) - y.(int16)
		case int32:
			return x.(int32) - y.(int32)
		case int64:
			return x.(int64) - y.(int64)
		case uint:
			return x.(uint) - y.(uint)
		case uint8:
			return x.(uint8) - y.(uint8)
		case uint16:
			return x.(uint16) - y.(uint16)
		case uint32:
			return x.(uint32) - y.(uint32)
		case uint64:
			return x.(uint64) - y.(uint64)
		case uintptr:
			return x.(uintptr) - y.(uintptr)
		case float32:
			return x.(float32) - y.(float32)
		case float64:
			return x.(float64) - y.(float64)
		case complex64:
			return x.(complex64) - y.(complex64)
		case complex128:
			return x.(complex128) - y.(complex128)
		}

	case token.MUL:
		switch x.(type) {
		case int:
			return x.(int) * y.(int)
		case int8:
			return x.(int8) * y.(int8)
		case int16:
			return x.(int16) * y.(int16)
		case int32:
			return x.(int32) * y.(int32)
		case int64:
			return x.(int64) * y.(int64)
		case uint:
			return x.(uint) * y.(uint)
		case uint8:
			return x.(uint8) * y.(uint8)
		case uint16:
			return x.(uint16) * y.(uint16)
		case uint32:
			return x.(uint32) * y.(uint32)
		case uint64:
			return x.(uint64) * y.(uint64)
		case uintptr:
			return x.(uintptr) * y.(uintptr)
		case float32:
			return x.(float32) * y.(float32)
		case float64:
			return x.(float64) * y.(float64)
		case complex64:
			return x.(complex64) * y.(complex64)
		case complex128:
			return x.(complex128) * y.(complex128)
		}

	case token.QUO:
		switch x.(type) {
		case int:
			return x.(int) / y.(int)
		case int8:
			return x.(int8) / y.(int8)
		case int16:
			return x.(int16) / y.(int16)
		case int32:
			return x.(int32) / y.(int32)
		case int64:
			return x.(int64) / y.(int64)
		case uint:
			return x.(uint) / y.(uint)
		case uint8:
			return x.(uint8) / y.(uint8)
		case uint16:
			return x.(uint16) / y.(uint16)
		case uint32:
			return x.(uint32) / y.(uint32)
		case uint64:
			return x.(uint64) / y.(uint64)
		case uintptr:
			return x.(uintptr) / y.(uintptr)
		case float32:
			return x.(float32) / y.(float32)
		case float64:
			return x.(float64) / y.(float64)
		case complex64:
			return x.(complex64) / y.(complex64)
		case complex128:
			return x.(complex128) / y.(complex128)
		}

	case token.REM:
		switch x.(type) {
		case int:
			return x.(int) % y.(int)
		case int8:
			return x.(int8) % y.(int8)
		case int16:
			return x.(int16) % y.(int16)
		case int32:
			return x.(int32) % y.(int32)
		case int64:
			return x.(int64) % y.(int64)
		case uint:
			return x.(uint) % y.(uint)
		case uint8:
			return x.(uint8) % y.(uint8)
		case uint16:
			return x.(uint16) % y.(uint16)
		case uint32:
			return x.(uint32) % y.(uint32)
		case uint64:
			return x.(uint64) % y.(uint64)
		case uintptr:
			return x.(uintptr) % y.(uintptr)
		}

	case token.AND:
		switch x.(type) {
		case int:
			return x.(int) & y.(int)
		case int8:
			return x.(int8) & y.(int8)
		case int16:
			return x.(int16) & y.(int16)
		case int32:
			return x.(int32) & y.(int32)
		case int64:
			return x.(int64) & y.(int64)
		case uint:
			return x.(uint) & y.(uint)
		case uint8:
			return x.(uint8) & y.(uint8)
		case uint16:
			return x.(uint16) & y.(uint16)
		case uint32:
			return x.(uint32) & y.(uint32)
		case uint64:
			return x.(uint64) & y.(uint64)
		case uintptr:
			return x.(uintptr) & y.(uintptr)
		}

	case token.OR:
		switch x.(type) {
		case int:
			return x.(int) | y.(int)
		case int8:
			return x.(int8) | y.(int8)
		case int16:
			return x.(int16) | y.(int16)
		case int32:
			return x.(int32) | y.(int32)
		case int64:
			return x.(int64) | y.(int64)
		case uint:
			return x.(uint) | y.(uint)
		case uint8:
			return x.(uint8) | y.(uint8)
		case uint16:
			return x.(uint16) | y.(uint16)
		case uint32:
			return x.(uint32) | y.(uint32)
		case uint64:
			return x.(uint64) | y.(uint64)
		case uintptr:
			return x.(uintptr) | y.(uintptr)
		}

	case token.XOR:
		switch x.(type) {
		case int:
			return x.(int) ^ y.(int)
		case int8:
			return x.(int8) ^ y.(int8)
		case int16:
			return x.(int16) ^ y.(int16)
		case int32:
			return x.(int32) ^ y.(int32)
		case int64:
			return x.(int64) ^ y.(int64)
		case uint:
			return x.(uint) ^ y.(uint)
		case uint8:
			return x.(uint8) ^ y.(uint8)
		case uint16:
			return x.(uint16) ^ y.(uint16)
		case uint32:
			return x.(uint32) ^ y.(uint32)
		case uint64:
			return x.(uint64) ^ y.(uint64)
		case uintptr:
			return x.(uintptr) ^ y.(uintptr)
		}

	case token.AND_NOT:
		switch x.(type) {
		case int:
			return x.(int) &^ y.(int)
		case int8:
			return x.(int8) &^ y.(int8)
		case int16:
			return x.(int16) &^ y.(int16)
		case int32:
			return x.(int32) &^ y.(int32)
		case int64:
			return x.(int64) &^ y.(int64)
		case uint:
			return x.(uint) &^ y.(uint)
		case uint8:
			return x.(uint8) &^ y.(uint8)
		case uint16:
			return x.(uint16) &^ y.(uint16)
		case uint32:
			return x.(uint32) &^ y.(uint32)
		case uint64:
			return x.(uint64) &^ y.(uint64)
		case uintptr:
			return x.(uintptr) &^ y.(uintptr)
		}

	case token.SHL:
		u, ok := asUnsigned(y)
		if !ok {
			panic("negative shift amount")
		}
		y := asUint64(u)
		switch x.(type) {
		case int:
			return x.(int) << y
		case int8:
			return x.(int8) << y
		case int16:
			return x.(int16) << y
		case int32:
			return x.(int32) << y
		case int64:
			return x.(int64) << y
		case uint:
			return x.(uint) << y
		case uint8:
			return x.(uint8) << y
		case uint16:
			return x.(uint16) << y
		case uint32:
			return x.(uint32) << y
		case uint64:
			return x.(uint64) << y
		case uintptr:
			return x.(uintptr) << y
		}

	case token.SHR:
		u, ok := asUnsigned(y)
		if !ok {
			panic("negative shift amount")
		}
		y := asUint64(u)
		switch x.(type) {
		case int:
			return x.(int) >> y
		case int8:
			return x.(int8) >> y
		case int16:
			return x.(int16) >> y
		case int32:
			return x.(int32) >> y
		case int64:
			return x.(int64) >> y
		case uint:
			return x.(uint) >> y
		case uint8:
			return x.(uint8) >> y
		case uint16:
			return x.(uint16) >> y
		case uint32:
			return x.(uint32) >> y
		case uint64:
			return x.(uint64) >> y
		case uintptr:
			return x.(uintptr) >> y
		}

	case token.LSS:
		switch x.(type) {
		case int:
			return x.(int) < y.(int)
		case int8:
			return x.(int8) < y.(int8)
		case int16:
			return x.(int16) < y.(int16)
		case int32:
			return x.(int32) < y.(int32)
		case int64:
			return x.(int64) < y.(int64)
		case uint:
			return x.(uint) < y.(uint)
		case uint8:
			return x.(uint8) < y.(uint8)
		case uint16:
			return x.(uint16) < y.(uint16)
		case uint32:
			return x.(uint32) < y.(uint32)
		case uint64:
			return x.(uint64) < y.(uint64)
		case uintptr:
			return x.(uintptr) < y.(uintptr)
		case float32:
			return x.(float32) < y.(float32)
		case float64:
			return x.(float64) < y.(float64)
		case string:
			return x.(string) < y.(string)
		}

	case token.LEQ:
		switch x.(type) {
		case int:
			return x.(int) <= y.(int)
		case int8:
			return x.(int8) <= y.(int8)
		case int16:
			return x.(int16) <= y.(int16)
		case int32:
			return x.(int32) <= y.(int32)
		case int64:
			return x.(int64) <= y.(int64)
		case uint:
			return x.(uint) <= y.(uint)
		case uint8:
			return x.(uint8) <= y.(uint8)
		case uint16:
			return x.(uint16) <= y.(uint16)
		case uint32:
			return x.(uint32) <= y.(uint32)
		case uint64:
			return x.(uint64) <= y.(uint64)
		case uintptr:
			return x.(uintptr) <= y.(uintptr)
		case float32:
			return x.(float32) <= y.(float32)
		case float64:
			return x.(float64) <= y.(float64)
		case string:
			return x.(string) <= y.(string)
		}

	case token.EQL:
		return eqnil(t, x, y)

	case token.NEQ:
		return !eqnil(t, x, y)

	case token.GTR:
		switch x.(type) {
		case int:
			return x.(int) > y.(int)
		case int8:
			return x.(int8) > y.(int8)
		case int16:
			return x.(int16) > y.(int16)
		case int32:
			return x.(int32) > y.(int32)
		case int64:
			return x.(int64) > y.(int64)
		case uint:
			return x.(uint) > y.(uint)
		case uint8:
			return x.(uint8) > y.(uint8)
		case uint16:
			return x.(uint16) > y.(uint16)
		case uint32:
			return x.(uint32) > y.(uint32)
		case uint64:
			return x.(uint64) > y.(uint64)
		case uintptr:
			return x.(uintptr) > y.(uintptr)
		case float32:
			return x.(float32) > y.(float32)
		case float64:
			return x.(float64) > y.(float64)
		case string:
			return x.(string) > y.(string)
		}

	case token.GEQ:
		switch x.(type) {
		case int:
			return x.(int) >= y.(int)
		case int8:
			return x.(int8) >= y.(int8)
		case int16:
			return x.(int16) >= y.(int16)
		case int32:
			return x.(int32) >= y.(int32)
		case int64:
			return x.(int64) >= y.(int64)
		case uint:
			return x.(uint) >= y.(uint)
		case uint8:
			return x.(uint8) >= y.(uint8)
		case uint16:
			return x.(uint16) >= y.(uint16)
		case uint32:
			return x.(uint32) >= y.(uint32)
		case uint64:
			return x.(uint64) >= y.(uint64)
		case uintptr:
			return x.(uintptr) >= y.(uintptr)
		case float32:
			return x.(float32) >= y.(float32)
		case float64:
			return x.(float64) >= y.(float64)
		case string:
			return x.(string) >= y.(string)
		}
	}
	panic(fmt.Sprintf("invalid binary op: %T %s %T", x, op, y))
}

// eqnil returns the comparison x == y using the equivalence relation
// appropriate for type t.
// If t is a reference type, at most one of x or y may be a nil value
// of that type.
func eqnil(t types.Type, x, y value) bool {
	switch t.Underlying().(type) {
	case *types.Map, *types.Signature, *types.Slice:
		// Since these types don't support comparison,
		// one of the operands must be a literal nil.
		switch x := x.(type) {
		case *omap:
			return (x != nil) == (y.(*omap) != nil)
		case *ssa.Function:
			switch y := y.(type) {
			case *ssa.Function:
				return (x != nil) == (y != nil)
			case *closure:
				return true
			}
		case *closure:
			return (x != nil) == (y.(*ssa.Function) != nil)
		case []value:
			return (x != nil) == (y.([]value) != nil)
		}
		panic(fmt.Sprintf("eqnil(%s): illegal dynamic type: %T", t, x))
	}

	return equals(t, x, y)
}

func unop(fr *frame, instr *ssa.UnOp, x value) value {
	if sx, ok := x.(*Sym); ok {
		fr.i.curFn = fr.fn
		return symUnop(instr.Op, sx)
	}
	switch instr.Op {
	case token.ARROW: // receive
		v, ok := fr.i.chanRecv(x)
		if !ok {
			v = zero(instr.X.Type().Underlying().(*types.Chan).Elem())
		}
		if instr.CommaOk {
			v = tuple{v, ok}
		}
		return v
	case token.SUB:
		switch x := x.(type) {
		case int:
			return -x
		case int8:
			return -x
		case int16:
			return -x
		case int32:
			return -x
		case int64:
			return -x
		case uint:
			return -x
		case uint8:
			return -x
		case uint16:
			return -x
		case uint32:
			return -x
		case uint64:
			return -x
		case uintptr:
			return -x
		case float32:
			return -x
		case float64:
			return -x
		case complex64:
			return -x
		case complex128:
			return -x
		}
	case token.MUL:
		fr.i.curFn = fr.fn
		return fr.i.loadAt(mustDeref(instr.X.Type()), x)
	case token.NOT:
		return !x.(bool)
	case token.XOR:
		switch x := x.(type) {
		case int:
			return ^x
		case int8:
			return ^x
		case int16:
			return ^x
		case int32:
			return ^x
		case int64:
			return ^x
		case uint:
			return ^x
		case uint8:
			return ^x
		case uint16:
			return ^x
		case uint32:
			return ^x
		case uint64:
			return ^x
		case uintptr:
			return ^x
		}
	}
	panic(fmt.Sprintf("invalid unary op %s %T", instr.Op, x))
}

// typeAssert checks whether dynamic type of itf is instr.AssertedType.
// It returns the extracted value on success, and panics on failure,
// unless instr.CommaOk, in which case it always returns a "value,ok" tuple.
func typeAssert(instr *ssa.TypeAssert, itf iface) value {
	var v value
	err := ""
	if itf.t == nil {
		err = fmt.Sprintf("interface conversion: interface is nil, not %s", instr.AssertedType)

	} else if idst, ok := instr.AssertedType.Underlying().(*types.Interface); ok {
		v = itf
		err = checkInterface(idst, itf)

	} else if types.Identical(itf.t, instr.AssertedType) {
		v = itf.v // extract value

	} else {
		err = fmt.Sprintf("interface conversion: interface is %s, not %s", itf.t, instr.AssertedType)
	}
	// Note: if instr.Underlying==true ever becomes reachable from interp check that
	// types.Identical(itf.t.Underlying(), instr.AssertedType)

	if err != "" {
		if !instr.CommaOk {
			panic(err)
		}
		return tuple{zero(instr.AssertedType), false}
	}
	if instr.CommaOk {
		return tuple{v, true}
	}
	return v
}

// This variable is no longer used but remains to prevent build breakage.
var CapturedOutput *bytes.Buffer

// callBuiltin interprets a call to builtin fn with arguments args,
// returning its result.
func callBuiltin(caller *frame, fn *ssa.Builtin, args []value) value {
	switch fn.Name() {
	case "append":
		if len(args) == 1 {
			return args[0]
		}
		if isStrLike(args[1]) {
			// append([]byte, ...string) []byte
			sb, ok := strBytes(args[1])
			if !ok {
				panic(abort{kind: "inconclusive", msg: "opaque string appended to []byte"})
			}
			arg0 := args[0].([]value)
			return append(arg0, sb...)
		}
		// append([]T, ...[]T) []T
		return append(args[0].([]value), args[1].([]value)...)

	case "copy": // copy([]T, []T) int or copy([]byte, string) int
		src := args[1]
		if isStrLike(src) {
			sb, ok := strBytes(src)
			if !ok {
				panic(abort{kind: "inconclusive", msg: "opaque string copied"})
			}
			src = sb
		}
		dst := args[0].([]value)
		sv := src.([]value)
		n := len(dst)
		if len(sv) < n {
			n = len(sv)
		}
		for k := 0; k < n; k++ {
			caller.i.wr(&dst[k])
		}
		return copy(dst, sv)

	case "close": // close(chan T)
		caller.i.chanClose(args[0])
		return nil

	case "delete": // delete(map[K]value, K)
		switch m := args[0].(type) {
		case *omap:
			m.delete(caller.i, args[1])
		default:
			panic(fmt.Sprintf("illegal map type: %T", m))
		}
		return nil

	case "clear": // clear(map) / clear(slice)
		switch m := args[0].(type) {
		case *omap:
			if m != nil {
				for e := range m.ents {
					if m.ents[e].live {
						m.delete(caller.i, m.ents[e].key)
					}
				}
			}
		case []value:
			if len(m) > 0 {
				et := fn.Type().(*types.Signature).Params().At(0).Type().Underlying().(*types.Slice).Elem()
				for k := range m {
					old := m[k]
					k := k
					caller.i.logUndo(func() { m[k] = old })
					m[k] = zero(et)
				}
			}
		default:
			panic(fmt.Sprintf("clear of %T", m))
		}
		return nil

	case "print", "println": // print(any, ...)
		ln := fn.Name() == "println"
		var buf bytes.Buffer
		for i, arg := range args {
			if i > 0 && ln {
				buf.WriteRune(' ')
			}
			buf.WriteString(toString(arg))
		}
		if ln {
			buf.WriteRune('\n')
		}
		os.Stderr.Write(buf.Bytes())
		return nil

	case "len":
		switch x := args[0].(type) {
		case string:
			return len(x)
		case array:
			return len(x)
		case *value:
			return len((*x).(array))
		case []value:
			return len(x)
		case symstr:
			return len(x.b)
		case opaqueStr:
			panic(abort{kind: "inconclusive", msg: "len of opaque string"})
		case *omap:
			return x.len()
		case *schan:
			return caller.i.chanLen(x)
		default:
			panic(fmt.Sprintf("len: illegal operand: %T", x))
		}

	case "cap":
		switch x := args[0].(type) {
		case array:
			return cap(x)
		case *value:
			return cap((*x).(array))
		case []value:
			return cap(x)
		case *schan:
			if x == nil {
				return 0
			}
			return x.capacity
		default:
			panic(fmt.Sprintf("cap: illegal operand: %T", x))
		}

	case "min":
		return foldLeft(min, args)
	case "max":
		return foldLeft(max, args)

	case "real":
		switch c := args[0].(type) {
		case complex64:
			return real(c)
		case complex128:
			return real(c)
		default:
			panic(fmt.Sprintf("real: illegal operand: %T", c))
		}

	case "imag":
		switch c := args[0].(type) {
		case complex64:
			return imag(c)
		case complex128:
			return imag(c)
		default:
			panic(fmt.Sprintf("imag: illegal operand: %T", c))
		}

	case "complex":
		switch f := args[0].(type) {
		case float32:
			return complex(f, args[1].(float32))
		case float64:
			return complex(f, args[1].(float64))
		default:
			panic(fmt.Sprintf("complex: illegal operand: %T", f))
		}

	case "panic":
		// ssa.Panic handles most cases; this is only for "go
		// panic" or "defer panic".
		panic(targetPanic{args[0]})

	case "recover":
		return doRecover(caller)

	case "ssa:wrapnilchk":
		recv := args[0]
		if recv.(*value) == nil {
			recvType := args[1]
			methodName := args[2]
			panic(fmt.Sprintf("value method (%s).%s called using nil *%s pointer",
				recvType, methodName, recvType))
		}
		return recv

	case "ssa:deferstack":
		return &caller.defers
	}

	panic("unknown built-in: " + fn.Name())
}

func rangeIter(fr *frame, x value) iter {
	switch x := x.(type) {
	case *omap:
		return fr.i.mapRange(fr, x)
	case string:
		return &stringIter{fr: fr, s: x}
	case symstr:
		return &stringIter{fr: fr, s: x}
	}
	panic(fmt.Sprintf("cannot range over %T", x))
}

// widen widens a basic typed value x to the widest type of its
// category, one of:
//
//	bool, int64, uint64, float64, complex128, string.
//
// This is inefficient but reduces the size of the cross-product of
// cases we have to consider.
func widen(x value) value {
	switch y := x.(type) {
	case bool, int64, uint64, float64, complex128, string, unsafe.Pointer, symstr, opaqueStr:
		return x
	case int:
		return int64(y)
	case int8:
		return int64(y)
	case int16:
		return int64(y)
	case int32:
		return int64(y)
	case uint:
		return uint64(y)
	case uint8:
		return uint64(y)
	case uint16:
		return uint64(y)
	case uint32:
		return uint64(y)
	case uintptr:
		return uint64(y)
	case float32:
		return float64(y)
	case complex64:
		return complex128(y)
	}
	panic(fmt.Sprintf("cannot widen %T", x))
}

// conv converts the value x of type t_src to type t_dst and returns
// the result.
// Possible cases are described with the ssa.Convert operator.
func conv(t_dst, t_src types.Type, x value) value {
	ut_src := t_src.Underlying()
	ut_dst := t_dst.Underlying()

	// Destination type is not an "untyped" type.
	if b, ok := ut_dst.(*types.Basic); ok && b.Info()&types.IsUntyped != 0 {
		panic("oops: conversion to 'untyped' type: " + b.String())
	}

	// Nor is it an interface type.
	if _, ok := ut_dst.(*types.Interface); ok {
		if _, ok := ut_src.(*types.Interface); ok {
			panic("oops: Convert should be ChangeInterface")
		} else {
			panic("oops: Convert should be MakeInterface")
		}
	}

	// Remaining conversions:
	//    + untyped string/number/bool constant to a specific
	//      representation.
	//    + conversions between non-complex numeric types.
	//    + conversions between complex numeric types.
	//    + integer/[]byte/[]rune -> string.
	//    + string -> []byte/[]rune.
	//
	// All are treated the same: first we extract the value to the
	// widest representation (int64, uint64, float64, complex128,
	// or string), then we convert it to the desired type.

	// bool -> bool (a conversion between named and unnamed boolean types, e.g. through
	// reflect.Value.Convert) changes nothing
	if bd, ok := ut_dst.(*types.Basic); ok && bd.Info()&types.IsBoolean != 0 {
		if bs, ok := ut_src.(*types.Basic); ok && bs.Info()&types.IsBoolean != 0 {
			return x
		}
	}

	if r, ok := symConv(ut_dst, ut_src, x); ok {
		return r
	}

	switch ut_src := ut_src.(type) {
	case *types.Pointer:
		switch ut_dst := ut_dst.(type) {
		case *types.Basic:
			// *value to unsafe.Pointer?
			if ut_dst.Kind() == types.UnsafePointer {
				return unsafe.Pointer(x.(*value))
			}
		}

	case *types.Slice:
		// []byte or []rune -> string
		switch ut_src.Elem().Underlying().(*types.Basic).Kind() {
		case types.Byte:
			x := x.([]value)
			b := make([]byte, 0, len(x))
			for i := range x {
				b = append(b, x[i].(byte))
			}
			return string(b)

		case types.Rune:
			x := x.([]value)
			r := make([]rune, 0, len(x))
			for i := range x {
				r = append(r, x[i].(rune))
			}
			return string(r)
		}

	case *types.Basic:
		x = widen(x)

		// integer -> string?
		if ut_src.Info()&types.IsInteger != 0 {
			if ut_dst, ok := ut_dst.(*types.Basic); ok && ut_dst.Kind() == types.String {
				return fmt.Sprintf("%c", x)
			}
		}

		// string -> []rune, []byte or string?
		if s, ok := x.(string); ok {
			switch ut_dst := ut_dst.(type) {
			case *types.Slice:
				var res []value
				switch ut_dst.Elem().Underlying().(*types.Basic).Kind() {
				case types.Rune:
					for _, r := range []rune(s) {
						res = append(res, r)
					}
					return res
				case types.Byte:
					for _, b := range []byte(s) {
						res = append(res, b)
					}
					return res
				}
			case *types.Basic:
				if ut_dst.Kind() == types.String {
					return x.(string)
				}
			}
			break // fail: no other conversions for string
		}

		// unsafe.Pointer -> *value (sound here because every interpreter pointer is a *value)
		if ut_src.Kind() == types.UnsafePointer {
			if _, ok := ut_dst.(*types.Pointer); ok {
				return (*value)(x.(unsafe.Pointer))
			}
			if b, ok := ut_dst.(*types.Basic); ok && b.Kind() == types.UnsafePointer {
				return x
			}
			return zero(t_dst)
		}

		// Conversions between complex numeric types?
		if ut_src.Info()&types.IsComplex != 0 {
			switch ut_dst.(*types.Basic).Kind() {
			case types.Complex64:
				return complex64(x.(complex128))
			case types.Complex128:
				return x.(complex128)
			}
			break // fail: no other conversions for complex
		}

		// Conversions between non-complex numeric types?
		if ut_src.Info()&types.IsNumeric != 0 {
			kind := ut_dst.(*types.Basic).Kind()
			switch x := x.(type) {
			case int64: // signed integer -> numeric?
				switch kind {
				case types.Int:
					return int(x)
				case types.Int8:
					return int8(x)
				case types.Int16:
					return int16(x)
				case types.Int32:
					return int32(x)
				case types.Int64:
					return int64(x)
				case types.Uint:
					return uint(x)
				case types.Uint8:
					return uint8(x)
				case types.Uint16:
					return uint16(x)
				case types.Uint32:
					return uint32(x)
				case types.Uint64:
					return uint64(x)
				case types.Uintptr:
					return uintptr(x)
				case types.Float32:
					return float32(x)
				case types.Float64:
					return float64(x)
				}

			case uint64: // unsigned integer -> numeric?
				switch kind {
				case types.Int:
					return int(x)
				case types.Int8:
					return int8(x)
				case types.Int16:
					return int16(x)
				case types.Int32:
					return int32(x)
				case types.Int64:
					return int64(x)
				case types.Uint:
					return uint(x)
				case types.Uint8:
					return uint8(x)
				case types.Uint16:
					return uint16(x)
				case types.Uint32:
					return uint32(x)
				case types.Uint64:
					return uint64(x)
				case types.Uintptr:
					return uintptr(x)
				case types.Float32:
					return float32(x)
				case types.Float64:
					return float64(x)
				}

			case float64: // floating point -> numeric?
				switch kind {
				case types.Int:
					return int(x)
				case types.Int8:
					return int8(x)
				case types.Int16:
					return int16(x)
				case types.Int32:
					return int32(x)
				case types.Int64:
					return int64(x)
				case types.Uint:
					return uint(x)
				case types.Uint8:
					return uint8(x)
				case types.Uint16:
					return uint16(x)
				case types.Uint32:
					return uint32(x)
				case types.Uint64:
					return uint64(x)
				case types.Uintptr:
					return uintptr(x)
				case types.Float32:
					return float32(x)
				case types.Float64:
					return float64(x)
				}
			}
		}
	}

	panic(fmt.Sprintf("unsupported conversion: %s  -> %s, dynamic type %T", t_src, t_dst, x))
}

// sliceToArrayPointer converts the value x of type slice to type t_dst
// a pointer to array and returns the result.
func sliceToArrayPointer(t_dst, t_src types.Type, x value) value {
	if _, ok := t_src.Underlying().(*types.Slice); ok {
		if ptr, ok := t_dst.Underlying().(*types.Pointer); ok {
			if arr, ok := ptr.Elem().Underlying().(*types.Array); ok {
				x := x.([]value)
				if arr.Len() > int64(len(x)) {
					panic("array length is greater than slice length")
				}
				if x == nil {
					return zero(t_dst)
				}
				v := value(array(x[:arr.Len()]))
				return &v
			}
		}
	}

	panic(fmt.Sprintf("unsupported conversion: %s  -> %s, dynamic type %T", t_src, t_dst, x))
}

// checkInterface checks that the method set of x implements the
// interface itype.
// On success it returns "", on failure, an error message.
func checkInterface(itype *types.Interface, x iface) string {
	if meth, _ := types.MissingMethod(x.t, itype, true); meth != nil {
		return fmt.Sprintf("interface conversion: %v is not %v: missing method %s",
			x.t, itype, meth.Name())
	}
	return "" // ok
}

func foldLeft(op func(value, value) value, args []value) value {
	x := args[0]
	for _, arg := range args[1:] {
		x = op(x, arg)
	}
	return x
}

func min(x, y value) value {
	switch x := x.(type) {
	case float32:
		return fmin(x, y.(float32))
	case float64:
		return fmin(x, y.(float64))
	}

	// return (y < x) ? y : x
	if binop(token.LSS, nil, y, x).(bool) {
		return y
	}
	return x
}

func max(x, y value) value {
	switch x := x.(type) {
	case float32:
		return fmax(x, y.(float32))
	case float64:
		return fmax(x, y.(float64))
	}

	// return (y > x) ? y : x
	if binop(token.GTR, nil, y, x).(bool) {
		return y
	}
	return x
}

// copied from $GOROOT/src/runtime/minmax.go

type floaty interface{ ~float32 | ~float64 }

func fmin[F floaty](x, y F) F {
	if y != y || y < x {
		return y
	}
	if x != x || x < y || x != 0 {
		return x
	}
	// x and y are both ±0
	// if either is -0, return -0; else return +0
	return forbits(x, y)
}

func fmax[F floaty](x, y F) F {
	if y != y || y > x {
		return y
	}
	if x != x || x > y || x != 0 {
		return x
	}
	// x and y are both ±0
	// if both are -0, return -0; else return +0
	return fandbits(x, y)
}

func forbits[F floaty](x, y F) F {
	switch unsafe.Sizeof(x) {
	case 4:
		*(*uint32)(unsafe.Pointer(&x)) |= *(*uint32)(unsafe.Pointer(&y))
	case 8:
		*(*uint64)(unsafe.Pointer(&x)) |= *(*uint64)(unsafe.Pointer(&y))
	}
	return x
}

func fandbits[F floaty](x, y F) F {
	switch unsafe.Sizeof(x) {
	case 4:
		*(*uint32)(unsafe.Pointer(&x)) &= *(*uint32)(unsafe.Pointer(&y))
	case 8:
		*(*uint64)(unsafe.Pointer(&x)) &= *(*uint64)(unsafe.Pointer(&y))
	}
	return x
}
