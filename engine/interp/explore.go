package interp

// Path exploration: decision-prefix re-execution with a concolic model,
// one live SMT solver per worker, undo-log heap rollback between paths.

import (
	"fmt"
	"go/types"
	"sort"
	"strings"
	"sync"
	"time"

	"verif/engine/sym"
)

// abort ends the current path; it is never recoverable by the target program.
type abort struct {
	kind string // unsupported | fuel | inconclusive | violation | done | infeasible | exit
	msg  string
}

func (a abort) String() string { return a.kind + ": " + a.msg }

type DecKind uint8

const (
	DecBranch DecKind = iota
	DecChoose         // V = class index, Excl = class indexes excluded
	DecValue          // V = concrete value, Excl = values excluded
	DecSched          // V = thread chosen
	DecPick           // V = index chosen among equally enabled alternatives (ready select cases)
)

type Decision struct {
	Kind DecKind
	V    int64
	Excl []int64
}

type workItem struct {
	prefix []Decision
	model  sym.Model
}

// InputRec describes one nondeterministic input created by the harness.
type InputRec struct {
	Name string
	Kind string // int, int64, uint64, byte, bool, float64, choose
	W    int
}

// Violation is a counterexample found on some path.
type Violation struct {
	Label     string            `json:"label"`
	Kind      string            `json:"kind"` // assert | panic | fuel
	Msg       string            `json:"msg"`
	Site      string            `json:"site,omitempty"`
	Inputs    map[string]uint64 `json:"inputs"`
	InputList []InputRec        `json:"input_list"`
	Known     string            `json:"known,omitempty"` // id of the known finding it matches entirely
	Decisions int               `json:"decisions"`
	Observed  []string          `json:"observed,omitempty"`
}

type knownPanic struct {
	id   string
	site string
	cond *sym.Term
}

// pathState is the per-path exploration state of one interpreter.
type pathState struct {
	prefix      []Decision
	pos         int
	decisions   []Decision
	pc          []*sym.Term
	asserted    int
	model       sym.Model
	ev          *sym.Evaluator
	vars        []*sym.Term
	varSeen     map[string]bool
	inputs      []InputRec
	fuel        int64
	observed    []string
	printed     []value // everything origami wrote with fmt.Print*/Fprint* on this path (symx.PrintedAt)
	reached     map[string]bool
	knownP      []knownPanic
	solverFresh bool
	depth       int
}

// Stats are aggregated over all workers.
type Stats struct {
	Paths         int64
	Decisions     int64
	Queries       int64
	SolverNs      int64
	AssertsTotal  int64 // Assert calls executed
	Discharged    int64 // of which proved for all inputs on their path (solver unsat or concrete true)
	Inconclusive  int64
	SolverRetries int64 // queries answered "unknown" that were asked again on a rebuilt solver state
	Unsupported   int64
	FuelOut       int64
	Instr         int64
	MaxDepth      int
	Reached       map[string]int64
	AssertLabels  map[string]int64
	KnownSeen     map[string]int64
	InconclMsgs   map[string]int64
	UnsuppMsgs    map[string]int64
	Funcs         map[string]bool // functions executed with a symbolic operand
	Samples       []string
	Observed      []string
}

func newStats() *Stats {
	return &Stats{Reached: map[string]int64{}, AssertLabels: map[string]int64{}, KnownSeen: map[string]int64{},
		InconclMsgs: map[string]int64{}, UnsuppMsgs: map[string]int64{}, Funcs: map[string]bool{}}
}

// Explorer coordinates workers over a shared LIFO work list.
type Explorer struct {
	mu             sync.Mutex
	cond           *sync.Cond
	work           []workItem
	active         int
	stop           bool
	Stats          *Stats
	Violations     []Violation
	vioSeen        map[string]int
	firstVio       time.Time     // when the first violation outside the harness's known predicates was recorded
	StopAfterVio   time.Duration // >0: stop exploring this long after that violation (the verdict no longer depends on the rest)
	MaxPaths       int64
	MaxVioPerLabel int
	Deadline       time.Time
	Truncated      string
}

func NewExplorer() *Explorer {
	e := &Explorer{Stats: newStats(), vioSeen: map[string]int{}, MaxVioPerLabel: 3}
	e.cond = sync.NewCond(&e.mu)
	e.work = []workItem{{}}
	return e
}

func (e *Explorer) push(it workItem) {
	e.mu.Lock()
	e.work = append(e.work, it)
	e.mu.Unlock()
	e.cond.Signal()
}

func (e *Explorer) pop() (workItem, bool) {
	e.mu.Lock()
	defer e.mu.Unlock()
	for {
		if e.stop {
			return workItem{}, false
		}
		if n := len(e.work); n > 0 {
			it := e.work[n-1]
			e.work = e.work[:n-1]
			e.active++
			return it, true
		}
		if e.active == 0 {
			e.cond.Broadcast()
			return workItem{}, false
		}
		e.cond.Wait()
	}
}

func (e *Explorer) done() {
	e.mu.Lock()
	e.active--
	if e.active == 0 && len(e.work) == 0 {
		e.cond.Broadcast()
	}
	e.mu.Unlock()
}

// vioBudgetSpent: a violation was recorded at least StopAfterVio ago.
func (e *Explorer) vioBudgetSpent() bool {
	if e.StopAfterVio <= 0 {
		return false
	}
	e.mu.Lock()
	defer e.mu.Unlock()
	return !e.firstVio.IsZero() && time.Since(e.firstVio) > e.StopAfterVio
}

func (e *Explorer) truncate(why string) {
	e.mu.Lock()
	if e.Truncated == "" {
		e.Truncated = why
	}
	e.stop = true
	e.mu.Unlock()
	e.cond.Broadcast()
}

func (e *Explorer) addViolation(v Violation) {
	e.mu.Lock()
	defer e.mu.Unlock()
	key := v.Label + "|" + v.Site + "|" + v.Known
	if v.Known == "" && e.firstVio.IsZero() {
		e.firstVio = time.Now()
	}
	e.vioSeen[key]++
	if e.vioSeen[key] <= e.MaxVioPerLabel {
		e.Violations = append(e.Violations, v)
	}
}

// ---- undo log

func (i *interpreter) logUndo(f func()) {
	if i.undoOn {
		i.undo = append(i.undo, f)
	}
}

func (i *interpreter) rollback() {
	for n := len(i.undo) - 1; n >= 0; n-- {
		i.undo[n]()
	}
	i.undo = i.undo[:0]
}

// wr records the old content of *addr before it is overwritten.
func (i *interpreter) wr(addr *value) {
	if i.undoOn {
		old := *addr
		i.undo = append(i.undo, func() { *addr = old })
	}
}

// ---- solver interaction

func (i *interpreter) addPC(t *sym.Term) {
	if t == i.ctx.True {
		return
	}
	i.path.pc = append(i.path.pc, t)
}

func (i *interpreter) flushPC() {
	p := i.path
	if !p.solverFresh {
		i.solver.Reset()
		p.solverFresh = true
		p.asserted = 0
	}
	for ; p.asserted < len(p.pc); p.asserted++ {
		i.solver.Assert(p.pc[p.asserted])
	}
}

// query asks whether PC ∧ extra is satisfiable.
func (i *interpreter) query(extra *sym.Term) (sym.Result, sym.Model) {
	if extra == i.ctx.False {
		return sym.Unsat, nil
	}
	i.flushPC()
	r, m := i.solver.CheckWith(extra, i.path.vars)
	// "unknown" is usually the per-query time limit hit on a busy machine: ask again (twice at most) on a
	// solver state rebuilt from scratch; the query is the same, so the answer is as sound as the first would be
	for retry := 0; r == sym.Unknown && retry < 2; retry++ {
		i.stats.SolverRetries++
		i.path.solverFresh = false
		i.flushPC()
		r, m = i.solver.CheckWith(extra, i.path.vars)
	}
	if r == sym.Sat && m != nil {
		// validate the model against PC ∧ extra with our own evaluator (guards the
		// printer/evaluator pair; a mismatch is an engine defect, reported loudly)
		ev := sym.NewEvaluator(m)
		ok := ev.Eval(extra) != 0
		for _, c := range i.path.pc {
			if ev.Eval(c) == 0 {
				ok = false
				break
			}
		}
		if !ok {
			i.stats.InconclMsgs["model-eval-mismatch"]++
			return sym.Unknown, nil
		}
	}
	return r, m
}

func (i *interpreter) noteSymbolicFunc() {
	if i.curFn != nil {
		if !i.symFuncs[i.curFn] {
			i.symFuncs[i.curFn] = true
		}
	}
}

// branch decides a symbolic condition, forking the exploration.
func (i *interpreter) branch(cond *sym.Term) bool {
	c := i.ctx
	if cond == c.True {
		return true
	}
	if cond == c.False {
		return false
	}
	p := i.path
	if p == nil {
		panic(abort{kind: "unsupported", msg: "symbolic branch outside a path"})
	}
	i.noteSymbolicFunc()
	if p.pos < len(p.prefix) {
		d := p.prefix[p.pos]
		p.pos++
		if d.Kind != DecBranch {
			panic(abort{kind: "inconclusive", msg: fmt.Sprintf("nondeterministic replay: expected %d got branch", d.Kind)})
		}
		taken := d.V != 0
		p.decisions = append(p.decisions, d)
		if taken {
			i.addPC(cond)
		} else {
			i.addPC(c.Not(cond))
		}
		return taken
	}
	taken := p.ev.Eval(cond) != 0
	other := cond
	if taken {
		other = c.Not(cond)
	}
	r, m := i.query(other)
	switch r {
	case sym.Sat:
		np := make([]Decision, len(p.decisions)+1)
		copy(np, p.decisions)
		v := int64(1)
		if taken {
			v = 0
		}
		np[len(p.decisions)] = Decision{Kind: DecBranch, V: v}
		i.exp.push(workItem{prefix: np, model: m})
	case sym.Unknown:
		i.stats.Inconclusive++
		i.stats.InconclMsgs["branch feasibility unknown: "+i.solver.LastErr+" in "+i.curFnName()+" "+i.choiceSummary()]++
	}
	d := Decision{Kind: DecBranch}
	if taken {
		d.V = 1
		i.addPC(cond)
	} else {
		i.addPC(c.Not(cond))
	}
	p.decisions = append(p.decisions, d)
	return taken
}

// choose picks one of mutually exclusive classes conds[0..n-1], or n ("none").
func (i *interpreter) choose(conds []*sym.Term) int {
	c := i.ctx
	p := i.path
	if p == nil {
		panic(abort{kind: "unsupported", msg: "symbolic choice outside a path"})
	}
	i.noteSymbolicFunc()
	n := len(conds)
	classTerm := func(k int64) *sym.Term {
		if int(k) < n {
			return conds[k]
		}
		t := c.True
		for _, x := range conds {
			t = c.And(t, c.Not(x))
		}
		return t
	}
	var excl []int64
	var idx int64 = -1
	spawn := true
	if p.pos < len(p.prefix) {
		d := p.prefix[p.pos]
		p.pos++
		if d.Kind != DecChoose {
			panic(abort{kind: "inconclusive", msg: "nondeterministic replay: expected choose"})
		}
		idx = d.V
		excl = d.Excl
		spawn = p.pos == len(p.prefix) // only the freshly flipped decision spawns further siblings
	} else {
		idx = int64(n)
		for k, x := range conds {
			if p.ev.Eval(x) != 0 {
				idx = int64(k)
				break
			}
		}
	}
	if spawn {
		// sibling: none of excl ∪ {idx}
		t := c.Not(classTerm(idx))
		for _, e := range excl {
			t = c.And(t, c.Not(classTerm(e)))
		}
		r, m := i.query(t)
		switch r {
		case sym.Sat:
			ev := sym.NewEvaluator(m)
			nidx := int64(n)
			for k, x := range conds {
				if ev.Eval(x) != 0 {
					nidx = int64(k)
					break
				}
			}
			nex := append(append([]int64{}, excl...), idx)
			np := make([]Decision, len(p.decisions)+1)
			copy(np, p.decisions)
			np[len(p.decisions)] = Decision{Kind: DecChoose, V: nidx, Excl: nex}
			i.exp.push(workItem{prefix: np, model: m})
		case sym.Unknown:
			i.stats.Inconclusive++
			i.stats.InconclMsgs["choice feasibility unknown: "+i.solver.LastErr]++
		}
	}
	p.decisions = append(p.decisions, Decision{Kind: DecChoose, V: idx, Excl: excl})
	i.addPC(classTerm(idx))
	return int(idx)
}

const maxConcretize = 300

// concretize pins a symbolic integer to a concrete value, forking over all
// feasible values (bounded).
func (i *interpreter) concretize(s *Sym) int {
	return int(int64(i.concretizeBits(s)))
}

func (i *interpreter) concretizeBits(s *Sym) uint64 {
	c := i.ctx
	p := i.path
	if p == nil {
		panic(abort{kind: "unsupported", msg: "symbolic value concretised outside a path"})
	}
	i.noteSymbolicFunc()
	w, signed, _ := kindInfo(s.K)
	var excl []int64
	var v uint64
	spawn := true
	if p.pos < len(p.prefix) {
		d := p.prefix[p.pos]
		p.pos++
		if d.Kind != DecValue {
			panic(abort{kind: "inconclusive", msg: "nondeterministic replay: expected value"})
		}
		v = uint64(d.V)
		excl = d.Excl
		spawn = p.pos == len(p.prefix)
	} else {
		v = p.ev.Eval(s.T)
	}
	if spawn {
		if len(excl) >= maxConcretize {
			i.stats.Inconclusive++
			i.stats.InconclMsgs["wide concretisation in "+i.curFnName()]++
		} else {
			t := c.Not(c.Eq(s.T, c.BV(v, w)))
			for _, e := range excl {
				t = c.And(t, c.Not(c.Eq(s.T, c.BV(uint64(e), w))))
			}
			r, m := i.query(t)
			switch r {
			case sym.Sat:
				nv := sym.Eval(s.T, m)
				nex := append(append([]int64{}, excl...), int64(v))
				np := make([]Decision, len(p.decisions)+1)
				copy(np, p.decisions)
				np[len(p.decisions)] = Decision{Kind: DecValue, V: int64(nv), Excl: nex}
				i.exp.push(workItem{prefix: np, model: m})
			case sym.Unknown:
				i.stats.Inconclusive++
				i.stats.InconclMsgs["value feasibility unknown: "+i.solver.LastErr]++
			}
		}
	}
	p.decisions = append(p.decisions, Decision{Kind: DecValue, V: int64(v), Excl: excl})
	i.addPC(c.Eq(s.T, c.BV(v, w)))
	if signed && w < 64 {
		sh := uint(64 - w)
		return uint64(int64(v<<sh) >> sh)
	}
	return v
}

func (i *interpreter) curFnName() string {
	if i.curFn != nil {
		return i.curFn.String()
	}
	return "?"
}

// choiceSummary renders the structural (choose) inputs of the current path.
func (i *interpreter) choiceSummary() string {
	var sb strings.Builder
	for _, in := range i.path.inputs {
		if in.Kind == "choose" {
			fmt.Fprintf(&sb, "%s=%d ", in.Name, i.path.model[in.Name])
		}
	}
	return sb.String()
}

// ---- inputs

func (i *interpreter) newInput(name, kind string, w int) *sym.Term {
	p := i.path
	if p == nil {
		panic(abort{kind: "unsupported", msg: "symx input created outside Run (in Setup?)"})
	}
	if p.varSeen[name] {
		panic(abort{kind: "unsupported", msg: "duplicate symx input name " + name})
	}
	p.varSeen[name] = true
	t := i.ctx.Var(name, w)
	p.vars = append(p.vars, t)
	p.inputs = append(p.inputs, InputRec{Name: name, Kind: kind, W: w})
	return t
}

func (i *interpreter) modelSnapshot(m sym.Model) map[string]uint64 {
	out := map[string]uint64{}
	for _, v := range i.path.vars {
		w := v.W
		val := m[v.Name]
		if w == 0 {
			val &= 1
		} else if w < 64 {
			val &= (uint64(1) << uint(w)) - 1
		}
		out[v.Name] = val
	}
	return out
}

func (i *interpreter) violation(kind, label, msg, site string, m sym.Model, known string) {
	p := i.path
	v := Violation{Label: label, Kind: kind, Msg: msg, Site: site, Inputs: i.modelSnapshot(m),
		InputList: append([]InputRec{}, p.inputs...), Known: known, Decisions: len(p.decisions),
		Observed: append([]string{}, p.observed...)}
	i.exp.addViolation(v)
}

// assert implements symx.Assert / AssertKnown.
// known (may be nil) is the witness predicate of a recorded finding: inputs
// satisfying it are allowed to violate cond.
func (i *interpreter) assert(cond value, label string, known value, knownID string) {
	c := i.ctx
	p := i.path
	i.stats.AssertsTotal++
	i.stats.AssertLabels[label]++
	ct := i.termOf(cond)
	kt := c.False
	if known != nil {
		kt = i.termOf(known)
	}
	site := ""
	if kt != c.False && !OpenKnown[knownID] {
		kt = c.False // not (or no longer) a listed open finding: plain assertion
	}
	if kt != c.False {
		// is the known finding (still) present on this path?
		bad := c.And(kt, c.Not(ct))
		if bad != c.False {
			if p.ev.Eval(bad) != 0 {
				i.stats.KnownSeen[knownID]++
				i.violation("assert", label, "known finding", site, p.model, knownID)
			} else if r, m := i.query(bad); r == sym.Sat {
				i.stats.KnownSeen[knownID]++
				i.violation("assert", label, "known finding", site, m, knownID)
			}
		}
	}
	obl := c.Or(ct, kt) // must hold for every input on this path
	if obl == c.True {
		i.stats.Discharged++
		return
	}
	neg := c.Not(obl)
	if p.ev.Eval(neg) != 0 {
		i.violation("assert", label, "assertion fails", site, p.model, "")
		panic(abort{kind: "violation", msg: label})
	}
	r, m := i.query(neg)
	switch r {
	case sym.Unsat:
		i.stats.Discharged++
		i.addPC(obl)
	case sym.Sat:
		i.violation("assert", label, "assertion fails", site, m, "")
		// continue on the inputs that satisfy the obligation
		i.addPC(obl)
	default:
		i.stats.Inconclusive++
		i.stats.InconclMsgs["assert "+label+": solver unknown "+i.solver.LastErr]++
		i.addPC(obl)
	}
}

func (i *interpreter) assume(cond value) {
	t := i.termOf(cond)
	c := i.ctx
	if t == c.True {
		return
	}
	if t == c.False {
		panic(abort{kind: "infeasible", msg: "assume(false)"})
	}
	// Treated as a branch whose false side is dropped.
	if !i.branchAssume(t) {
		panic(abort{kind: "infeasible", msg: "assumption excluded path"})
	}
}

// branchAssume is branch() where the false side is not explored.
func (i *interpreter) branchAssume(cond *sym.Term) bool {
	p := i.path
	if p.ev.Eval(cond) != 0 {
		i.addPC(cond)
		return true
	}
	// model violates the assumption: need a new model
	r, m := i.query(cond)
	if r == sym.Sat {
		p.model = m
		p.ev = sym.NewEvaluator(m)
		i.addPC(cond)
		return true
	}
	if r == sym.Unknown {
		i.stats.Inconclusive++
		i.stats.InconclMsgs["assume feasibility unknown"]++
	}
	return false
}

// escapedPanic handles a Go panic that left the harness entry point.
func (i *interpreter) escapedPanic(msg, site string) {
	c := i.ctx
	p := i.path
	label := "panic@" + site
	// known-panic predicates registered by the harness
	for _, kp := range p.knownP {
		if strings.HasSuffix(kp.id, "@") {
			// per-site finding family: the id listed in known_findings.txt is "<family>@<site>"
			if !OpenKnown[kp.id+site] {
				continue
			}
			kp.id = kp.id + site
		} else if !OpenKnown[kp.id] {
			continue
		}
		if !matchPanicPattern(kp.site, msg, site) {
			continue
		}
		// entirely covered by the known predicate?
		r, m := i.query(c.Not(kp.cond))
		if kp.cond == c.True {
			r = sym.Unsat
		}
		switch r {
		case sym.Unsat:
			i.stats.KnownSeen[kp.id]++
			i.violation("panic", label, msg, site, p.model, kp.id)
			return
		case sym.Sat:
			if p.ev.Eval(kp.cond) != 0 {
				i.stats.KnownSeen[kp.id]++
				i.violation("panic", label, msg, site, p.model, kp.id)
			}
			i.violation("panic", label, msg, site, m, "")
			return
		default:
			i.stats.Inconclusive++
			i.stats.InconclMsgs["known-panic predicate unknown"]++
			return
		}
	}
	i.violation("panic", label, msg, site, p.model, "")
}

// fuelViolation reports instruction-budget exhaustion as a non-termination candidate,
// honouring known-finding predicates like escapedPanic does.
func (i *interpreter) fuelViolation(msg, site string) {
	p := i.path
	label := "nontermination@" + site
	for _, kp := range p.knownP {
		id := kp.id
		if strings.HasSuffix(id, "@") {
			id += site
		}
		if !OpenKnown[id] || !matchPanicPattern(kp.site, msg, site) {
			continue
		}
		i.stats.KnownSeen[id]++
		i.violation("fuel", label, msg, site, p.model, id)
		return
	}
	p.observed = append(p.observed, "stack at fuel exhaustion:\n"+i.panicStack)
	i.violation("fuel", label, msg, site, p.model, "")
}

// ---- worker loop

type RunConfig struct {
	Workers  int
	Fuel     int64
	MaxPaths int64
	Timeout  time.Duration
	// StopAfterVio > 0: exploration stops this long after the first violation outside the known predicates
	StopAfterVio time.Duration
	Solver       string
	SolverMs     int
	Debug        bool
}

// matchPanicPattern: pattern = "<msg substring>@<site1>,<site2>,..." (either part may
// be empty; without '@' the pattern is a substring of site or message).
func matchPanicPattern(pat, msg, site string) bool {
	if pat == "" {
		return true
	}
	at := strings.IndexByte(pat, '@')
	if at < 0 {
		return strings.Contains(site, pat) || strings.Contains(msg, pat)
	}
	if m := pat[:at]; m != "" && !strings.Contains(msg, m) {
		return false
	}
	sites := pat[at+1:]
	if sites == "" {
		return true
	}
	for _, s := range strings.Split(sites, ",") {
		if s != "" && strings.HasSuffix(strings.TrimSuffix(site, ")"), strings.TrimSuffix(s, ")")) || site == s {
			return true
		}
	}
	return false
}

// OpenKnown is the set of known-finding ids listed as open in known_findings.json.
// A harness predicate naming any other id is ignored (plain assertion).
var OpenKnown = map[string]bool{}

// sortedKeys is a helper for deterministic output.
func sortedKeys[V any](m map[string]V) []string {
	ks := make([]string, 0, len(m))
	for k := range m {
		ks = append(ks, k)
	}
	sort.Strings(ks)
	return ks
}

var _ = types.Bool
