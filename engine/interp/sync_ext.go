package interp

// Contract-level models of sync, sync/atomic.

import (
	"fmt"
	"go/token"
	"go/types"
	"os"
	"unsafe"

	"golang.org/x/tools/go/ssa"
)

type lockState struct {
	writer  bool
	readers int
	owner   int
	// waitingWriters: Lock calls that are blocked right now. As in sync.RWMutex a blocked writer
	// excludes NEW readers (so a goroutine that takes RLock again while it already holds it
	// deadlocks as soon as a writer queues between the two)
	waitingWriters int
}

func (i *interpreter) lockOf(p value) *lockState {
	addr := p.(*value)
	if i.locks == nil {
		i.locks = map[*value]*lockState{}
	}
	ls := i.locks[addr]
	if ls == nil {
		ls = &lockState{}
		i.locks[addr] = ls
		i.logUndo(func() { delete(i.locks, addr) })
	}
	return ls
}

func (i *interpreter) syncMapOf(p value) *omap {
	addr := p.(*value)
	if i.syncMaps == nil {
		i.syncMaps = map[*value]*omap{}
	}
	m := i.syncMaps[addr]
	if m == nil {
		m = makeMap(types.NewInterfaceType(nil, nil).Complete(), 0).(*omap)
		m.noRace = true
		i.syncMaps[addr] = m
		i.logUndo(func() { delete(i.syncMaps, addr) })
	}
	return m
}

type condWaiter struct{ woken bool }

func (i *interpreter) counterOf(p value) *int {
	addr := p.(*value)
	if i.counters == nil {
		i.counters = map[*value]*int{}
	}
	c := i.counters[addr]
	if c == nil {
		c = new(int)
		i.counters[addr] = c
		i.logUndo(func() { delete(i.counters, addr) })
	}
	return c
}

func initSyncExternals() {
	lock := func(fr *frame, a []value) value {
		i := fr.i
		if i.sched != nil && i.sched.enabled {
			i.sched.lock(i, a[0], true)
			return nil
		}
		ls := i.lockOf(a[0])
		if ls.writer || ls.readers > 0 {
			panic(abort{kind: "deadlock", msg: "Lock on a held mutex (single thread)"})
		}
		ls.writer = true
		i.logUndo(func() { ls.writer = false })
		return nil
	}
	unlock := func(fr *frame, a []value) value {
		i := fr.i
		if i.sched != nil && i.sched.enabled {
			i.sched.unlock(i, a[0], true)
			return nil
		}
		ls := i.lockOf(a[0])
		if !ls.writer {
			panic("sync: unlock of unlocked mutex")
		}
		ls.writer = false
		i.logUndo(func() { ls.writer = true })
		return nil
	}
	rlock := func(fr *frame, a []value) value {
		i := fr.i
		if i.sched != nil && i.sched.enabled {
			i.sched.lock(i, a[0], false)
			return nil
		}
		ls := i.lockOf(a[0])
		if ls.writer {
			panic(abort{kind: "deadlock", msg: "RLock on a write-held mutex (single thread)"})
		}
		ls.readers++
		i.logUndo(func() { ls.readers-- })
		return nil
	}
	runlock := func(fr *frame, a []value) value {
		i := fr.i
		if i.sched != nil && i.sched.enabled {
			i.sched.unlock(i, a[0], false)
			return nil
		}
		ls := i.lockOf(a[0])
		if ls.readers <= 0 {
			panic("sync: RUnlock of unlocked RWMutex")
		}
		ls.readers--
		i.logUndo(func() { ls.readers++ })
		return nil
	}
	trylock := func(fr *frame, a []value) value {
		i := fr.i
		ls := i.lockOf(a[0])
		if ls.writer || ls.readers > 0 {
			return false
		}
		ls.writer = true
		i.logUndo(func() { ls.writer = false })
		return true
	}
	// sync.Cond: waiters are kept in arrival order. Broadcast wakes all of them; Signal wakes ONE,
	// the longest-waiting (what the Go runtime's notifyList does: notifyListNotifyOne takes the
	// lowest ticket), and nobody if none waits: a wake-up that reaches the wrong waiter is LOST for
	// the others, which is how a Broadcast narrowed to Signal shows up (a deadlock).
	condWake := func(all bool) externalFn {
		return func(fr *frame, a []value) value {
			i := fr.i
			addr := a[0].(*value)
			ws := i.condWaiters[addr]
			n := len(ws)
			if !all && n > 1 {
				n = 1
			}
			if n > 0 {
				woken := ws[:n]
				for _, w := range woken {
					w.woken = true
				}
				i.condWaiters[addr] = ws[n:]
				i.logUndo(func() {
					for _, w := range woken {
						w.woken = false
					}
					i.condWaiters[addr] = ws
				})
			}
			if i.sched != nil && i.sched.enabled && i.path != nil {
				i.sched.wgRelease(addr) // not a schedule point of its own: L is held, nobody else can move
			}
			return nil
		}
	}
	m := map[string]externalFn{
		"(*sync.Mutex).Lock":      lock,
		"(*sync.Mutex).Unlock":    unlock,
		"(*sync.Mutex).TryLock":   trylock,
		"(*sync.RWMutex).Lock":    lock,
		"(*sync.RWMutex).Unlock":  unlock,
		"(*sync.RWMutex).RLock":   rlock,
		"(*sync.RWMutex).RUnlock": runlock,
		"(*sync.RWMutex).TryLock": trylock,
		// sync.Cond at contract level: Wait unlocks L, parks until a Signal/Broadcast issued after
		// the call began wakes it (see condWake), then re-locks L. Signal/Broadcast
		// happen-before the return of the Wait they wake.
		"(*sync.Cond).Wait": func(fr *frame, a []value) value {
			i := fr.i
			addr := a[0].(*value)
			mu := (*addr).(structure)[1].(iface).v
			if i.sched == nil || !i.sched.enabled || i.path == nil {
				panic(abort{kind: "deadlock", msg: "Cond.Wait (single thread)"})
			}
			if i.condWaiters == nil {
				i.condWaiters = map[*value][]*condWaiter{}
			}
			w := &condWaiter{}
			before := i.condWaiters[addr]
			i.condWaiters[addr] = append(before[:len(before):len(before)], w)
			i.logUndo(func() { i.condWaiters[addr] = before })
			i.sched.unlock(i, mu, true)
			i.sched.block(i, func() bool { return !w.woken }, "Cond.Wait")
			i.sched.cur.vc.join(i.sched.wgvc[addr])
			i.sched.lock(i, mu, true)
			return nil
		},
		"(*sync.Cond).Broadcast": condWake(true),
		"(*sync.Cond).Signal":    condWake(false),
		"(*sync.WaitGroup).Add": func(fr *frame, a []value) value {
			c := fr.i.counterOf(a[0])
			d := int(asInt64(a[1]))
			*c += d
			fr.i.logUndo(func() { *c -= d })
			if *c < 0 {
				panic("sync: negative WaitGroup counter")
			}
			return nil
		},
		"(*sync.WaitGroup).Done": func(fr *frame, a []value) value {
			c := fr.i.counterOf(a[0])
			if fr.i.sched != nil && fr.i.sched.enabled && fr.i.path != nil {
				fr.i.sched.wgRelease(a[0].(*value))
			}
			*c--
			fr.i.logUndo(func() { *c++ })
			if *c < 0 {
				panic("sync: negative WaitGroup counter")
			}
			return nil
		},
		"(*sync.WaitGroup).Wait": func(fr *frame, a []value) value {
			i := fr.i
			c := i.counterOf(a[0])
			if i.sched != nil && i.sched.enabled {
				i.sched.waitUntil(i, a[0].(*value), func() bool { return *c == 0 }, "WaitGroup.Wait")
				return nil
			}
			if *c != 0 {
				panic(abort{kind: "deadlock", msg: "WaitGroup.Wait with pending count (single thread)"})
			}
			return nil
		},
		// sync.Pool: the contract lets Get return any item previously Put (or call New). The model
		// retains every item and hands back the most recent one: that is what the runtime does on a
		// single P, and it is the behaviour under which "object still in use after Put" defects
		// (double Put, use after Put) become visible. Put happens-before the Get that returns it.
		"(*sync.Pool).Get": func(fr *frame, a []value) value {
			i := fr.i
			addr := a[0].(*value)
			if i.sched != nil && i.sched.enabled {
				i.sched.tick()
				i.sched.yield(i, "sync.Pool.Get")
			}
			if items := i.pools[addr]; len(items) > 0 {
				it := items[len(items)-1]
				i.pools[addr] = items[:len(items)-1]
				i.logUndo(func() { i.pools[addr] = append(i.pools[addr], it) })
				if i.sched != nil && i.sched.enabled {
					i.sched.cur.vc.join(i.sched.wgvc[addr])
					if os.Getenv("SYMGO_POOLDBG") != "" {
						fmt.Fprintf(os.Stderr, "pool get retained by thread %d (%d left)\n", i.sched.cur.id, len(i.pools[addr]))
					}
				}
				return it
			}
			p := (*addr).(structure)
			// New is the last field
			newf := p[len(p)-1]
			if isNilFunc(newf) {
				return iface{}
			}
			return call(fr.i, fr, token.NoPos, newf, nil)
		},
		"(*sync.Pool).Put": func(fr *frame, a []value) value {
			i := fr.i
			addr := a[0].(*value)
			if i.pools == nil {
				i.pools = map[*value][]value{}
			}
			if i.sched != nil && i.sched.enabled {
				i.sched.wgRelease(addr)
				i.sched.tick()
				i.sched.yield(i, "sync.Pool.Put")
			}
			i.pools[addr] = append(i.pools[addr], a[1])
			i.logUndo(func() { l := i.pools[addr]; i.pools[addr] = l[:len(l)-1] })
			return nil
		},

		"(*sync.Map).Load": func(fr *frame, a []value) value {
			v, ok := fr.i.syncMapOf(a[0]).lookup(fr.i, a[1])
			if !ok {
				return tuple{iface{}, false}
			}
			return tuple{v, true}
		},
		"(*sync.Map).Store": func(fr *frame, a []value) value {
			fr.i.syncMapOf(a[0]).insert(fr.i, a[1], a[2])
			return nil
		},
		"(*sync.Map).LoadOrStore": func(fr *frame, a []value) value {
			m := fr.i.syncMapOf(a[0])
			if v, ok := m.lookup(fr.i, a[1]); ok {
				return tuple{v, true}
			}
			m.insert(fr.i, a[1], a[2])
			return tuple{a[2], false}
		},
		"(*sync.Map).LoadAndDelete": func(fr *frame, a []value) value {
			m := fr.i.syncMapOf(a[0])
			v, ok := m.lookup(fr.i, a[1])
			if !ok {
				return tuple{iface{}, false}
			}
			m.delete(fr.i, a[1])
			return tuple{v, true}
		},
		"(*sync.Map).Delete": func(fr *frame, a []value) value {
			fr.i.syncMapOf(a[0]).delete(fr.i, a[1])
			return nil
		},
		"(*sync.Map).Swap": func(fr *frame, a []value) value {
			m := fr.i.syncMapOf(a[0])
			v, ok := m.lookup(fr.i, a[1])
			m.insert(fr.i, a[1], a[2])
			if !ok {
				return tuple{iface{}, false}
			}
			return tuple{v, true}
		},
		"(*sync.Map).Range": func(fr *frame, a []value) value {
			m := fr.i.syncMapOf(a[0])
			for k := 0; k < len(m.ents); k++ {
				e := m.ents[k]
				if !e.live {
					continue
				}
				r := call(fr.i, fr, token.NoPos, a[1], []value{e.key, e.val})
				if b, ok := r.(bool); ok && !b {
					break
				}
			}
			return nil
		},
		"(*sync.Map).Clear": func(fr *frame, a []value) value {
			m := fr.i.syncMapOf(a[0])
			for k := range m.ents {
				if m.ents[k].live {
					m.delete(fr.i, m.ents[k].key)
				}
			}
			return nil
		},
		"(*sync/atomic.Value).Load": func(fr *frame, a []value) value {
			return (*a[0].(*value)).(structure)[0]
		},
		"(*sync/atomic.Value).Store": func(fr *frame, a []value) value {
			s := (*a[0].(*value)).(structure)
			fr.i.wr(&s[0])
			s[0] = a[1]
			return nil
		},
		"(*sync/atomic.Value).Swap": func(fr *frame, a []value) value {
			s := (*a[0].(*value)).(structure)
			old := s[0]
			fr.i.wr(&s[0])
			s[0] = a[1]
			return old
		},
		"(*sync/atomic.Value).CompareAndSwap": func(fr *frame, a []value) value {
			s := (*a[0].(*value)).(structure)
			if !equals(types.NewInterfaceType(nil, nil), s[0], a[1]) {
				return false
			}
			fr.i.wr(&s[0])
			s[0] = a[2]
			return true
		},
	}
	for _, t := range []string{"Int32", "Int64", "Uint32", "Uint64", "Uintptr", "Pointer"} {
		m["sync/atomic.Load"+t] = func(fr *frame, a []value) value { fr.i.atomicAccess(a[0], false); return *a[0].(*value) }
		m["sync/atomic.Store"+t] = func(fr *frame, a []value) value {
			fr.i.atomicAccess(a[0], true)
			p := a[0].(*value)
			fr.i.wr(p)
			*p = a[1]
			return nil
		}
		m["sync/atomic.Swap"+t] = func(fr *frame, a []value) value {
			fr.i.atomicAccess(a[0], true)
			p := a[0].(*value)
			old := *p
			fr.i.wr(p)
			*p = a[1]
			return old
		}
		m["sync/atomic.CompareAndSwap"+t] = func(fr *frame, a []value) value {
			fr.i.atomicAccess(a[0], true)
			p := a[0].(*value)
			var eq bool
			if up, ok := (*p).(unsafe.Pointer); ok {
				eq = up == a[1].(unsafe.Pointer)
			} else {
				eq = equals(nil, *p, a[1])
			}
			if !eq {
				return false
			}
			fr.i.wr(p)
			*p = a[2]
			return true
		}
		if t != "Pointer" {
			m["sync/atomic.Add"+t] = func(fr *frame, a []value) value {
				fr.i.atomicAccess(a[0], true)
				p := a[0].(*value)
				nv := binop(token.ADD, nil, *p, a[1])
				fr.i.wr(p)
				*p = nv
				return nv
			}
			m["sync/atomic.And"+t] = func(fr *frame, a []value) value {
				p := a[0].(*value)
				old := *p
				fr.i.wr(p)
				*p = binop(token.AND, nil, old, a[1])
				return old
			}
			m["sync/atomic.Or"+t] = func(fr *frame, a []value) value {
				p := a[0].(*value)
				old := *p
				fr.i.wr(p)
				*p = binop(token.OR, nil, old, a[1])
				return old
			}
		}
	}
	for k, v := range m {
		externals2[k] = v
	}
}

func (i *interpreter) atomicAccess(p value, write bool) {
	if i.sched != nil && i.sched.enabled {
		i.sched.visible(i, "atomic", p)
		// Go memory model: atomic operations behave as if sequentially consistent; an atomic write
		// is synchronised before every atomic read of the same variable that observes it. The model
		// orders all atomic operations on one variable: every operation acquires the variable's
		// clock, a write also releases into it (sync.Once's fast path `done.Load() == 1` gets its
		// happens-before edge from here).
		if addr, ok := p.(*value); ok && i.sched.cur != nil {
			i.sched.cur.vc.join(i.sched.wgvc[addr])
			if write {
				i.sched.wgRelease(addr)
			}
		}
	}
}

func isNilFunc(f value) bool {
	switch f := f.(type) {
	case *closure:
		return f == nil
	case *ssa.Function:
		return f == nil
	}
	return false
}
