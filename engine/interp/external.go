// Copyright 2013 The Go Authors. All rights reserved.
// Use of this source code is governed by a BSD-style
// license that can be found in the LICENSE file.

package interp

// Emulated functions that we cannot interpret because they are
// external or because they use "unsafe" or "reflect" operations.

import (
	"bytes"
	"maps"
	"math"
	"os"
	"runtime"
	"slices"
	"sort"
	"strconv"
	"strings"
	"time"
	"unicode/utf8"
)

type externalFn func(fr *frame, args []value) value

// TODO(adonovan): fix: reflect.Value abstracts an lvalue or an
// rvalue; Set() causes mutations that can be observed via aliases.
// We have not captured that correctly here.

// Key strings are from Function.String().
var externals = make(map[string]externalFn)

func init() {
	// That little dot ۰ is an Arabic zero numeral (U+06F0), categories [Nd].
	maps.Copy(externals, map[string]externalFn{
		"(reflect.Value).Bool":         ext۰reflect۰Value۰Bool,
		"(reflect.Value).CanAddr":      ext۰reflect۰Value۰CanAddr,
		"(reflect.Value).CanInterface": ext۰reflect۰Value۰CanInterface,
		"(reflect.Value).Elem":         ext۰reflect۰Value۰Elem,
		"(reflect.Value).Field":        ext۰reflect۰Value۰Field,
		"(reflect.Value).Float":        ext۰reflect۰Value۰Float,
		"(reflect.Value).Index":        ext۰reflect۰Value۰Index,
		"(reflect.Value).Int":          ext۰reflect۰Value۰Int,
		"(reflect.Value).Interface":    ext۰reflect۰Value۰Interface,
		"(reflect.Value).IsNil":        ext۰reflect۰Value۰IsNil,
		"(reflect.Value).IsValid":      ext۰reflect۰Value۰IsValid,
		"(reflect.Value).Kind":         ext۰reflect۰Value۰Kind,
		"(reflect.Value).Len":          ext۰reflect۰Value۰Len,
		"(reflect.Value).MapIndex":     ext۰reflect۰Value۰MapIndex,
		"(reflect.Value).MapKeys":      ext۰reflect۰Value۰MapKeys,
		"(reflect.Value).NumField":     ext۰reflect۰Value۰NumField,
		"(reflect.Value).NumMethod":    ext۰reflect۰Value۰NumMethod,
		"(reflect.Value).Pointer":      ext۰reflect۰Value۰Pointer,
		"(reflect.Value).Set":          ext۰reflect۰Value۰Set,
		"(reflect.Value).String":       ext۰reflect۰Value۰String,
		"(reflect.Value).Type":         ext۰reflect۰Value۰Type,
		"(reflect.Value).Uint":         ext۰reflect۰Value۰Uint,
		"(reflect.error).Error":        ext۰reflect۰error۰Error,
		"(reflect.rtype).Bits":         ext۰reflect۰rtype۰Bits,
		"(reflect.rtype).Elem":         ext۰reflect۰rtype۰Elem,
		"(reflect.rtype).Field":        ext۰reflect۰rtype۰Field,
		"(reflect.rtype).In":           ext۰reflect۰rtype۰In,
		"(reflect.rtype).Kind":         ext۰reflect۰rtype۰Kind,
		"(reflect.rtype).NumField":     ext۰reflect۰rtype۰NumField,
		"(reflect.rtype).NumIn":        ext۰reflect۰rtype۰NumIn,
		"(reflect.rtype).NumMethod":    ext۰reflect۰rtype۰NumMethod,
		"(reflect.rtype).NumOut":       ext۰reflect۰rtype۰NumOut,
		"(reflect.rtype).Out":          ext۰reflect۰rtype۰Out,
		"(reflect.rtype).Size":         ext۰reflect۰rtype۰Size,
		"(reflect.rtype).PkgPath":      ext۰reflect۰rtype۰PkgPath,
		"(reflect.rtype).Method":       ext۰reflect۰rtype۰Method,
		"(reflect.rtype).Name":         ext۰reflect۰rtype۰Name,
		"(reflect.Value).IsZero":       ext۰reflect۰Value۰IsZero,
		"(reflect.rtype).String":       ext۰reflect۰rtype۰String,
		"math.Abs":                     ext۰math۰Abs,
		"math.Copysign":                ext۰math۰Copysign,
		"math.Exp":                     ext۰math۰Exp,
		"math.Float32bits":             ext۰math۰Float32bits,
		"math.Float32frombits":         ext۰math۰Float32frombits,
		"math.Float64bits":             ext۰math۰Float64bits,
		"math.Float64frombits":         ext۰math۰Float64frombits,
		"math.Inf":                     ext۰math۰Inf,
		"math.IsNaN":                   ext۰math۰IsNaN,
		"math.Ldexp":                   ext۰math۰Ldexp,
		"math.Log":                     ext۰math۰Log,
		"math.Min":                     ext۰math۰Min,
		"math.NaN":                     ext۰math۰NaN,
		"math.Sqrt":                    ext۰math۰Sqrt,
		"reflect.New":                  ext۰reflect۰New,
		"reflect.SliceOf":              ext۰reflect۰SliceOf,
		"reflect.TypeOf":               ext۰reflect۰TypeOf,
		"reflect.ValueOf":              ext۰reflect۰ValueOf,
		"reflect.Zero":                 ext۰reflect۰Zero,
		"runtime.Breakpoint":           ext۰runtime۰Breakpoint,
		"runtime.GC":                   ext۰runtime۰GC,
		"runtime.GOMAXPROCS":           ext۰runtime۰GOMAXPROCS,
		"runtime.GOROOT":               ext۰runtime۰GOROOT,
		"runtime.Gosched":              ext۰runtime۰Gosched,
		"runtime.NumCPU":               ext۰runtime۰NumCPU,
	})
}

func ext۰bytes۰Equal(fr *frame, args []value) value {
	// func Equal(a, b []byte) bool
	a := args[0].([]value)
	b := args[1].([]value)
	return slices.Equal(a, b)
}

func ext۰bytes۰IndexByte(fr *frame, args []value) value {
	// func IndexByte(s []byte, c byte) int
	s := args[0].([]value)
	c := args[1].(byte)
	for i, b := range s {
		if b.(byte) == c {
			return i
		}
	}
	return -1
}

func ext۰math۰Float64frombits(fr *frame, args []value) value {
	return math.Float64frombits(args[0].(uint64))
}

func ext۰math۰Float64bits(fr *frame, args []value) value {
	return math.Float64bits(args[0].(float64))
}

func ext۰math۰Float32frombits(fr *frame, args []value) value {
	return math.Float32frombits(args[0].(uint32))
}

func ext۰math۰Abs(fr *frame, args []value) value {
	return math.Abs(args[0].(float64))
}

func ext۰math۰Copysign(fr *frame, args []value) value {
	return math.Copysign(args[0].(float64), args[1].(float64))
}

func ext۰math۰Exp(fr *frame, args []value) value {
	return math.Exp(args[0].(float64))
}

func ext۰math۰Float32bits(fr *frame, args []value) value {
	return math.Float32bits(args[0].(float32))
}

func ext۰math۰Min(fr *frame, args []value) value {
	return math.Min(args[0].(float64), args[1].(float64))
}

func ext۰math۰NaN(fr *frame, args []value) value {
	return math.NaN()
}

func ext۰math۰IsNaN(fr *frame, args []value) value {
	return math.IsNaN(args[0].(float64))
}

func ext۰math۰Inf(fr *frame, args []value) value {
	return math.Inf(args[0].(int))
}

func ext۰math۰Ldexp(fr *frame, args []value) value {
	return math.Ldexp(args[0].(float64), args[1].(int))
}

func ext۰math۰Log(fr *frame, args []value) value {
	return math.Log(args[0].(float64))
}

func ext۰math۰Sqrt(fr *frame, args []value) value {
	return math.Sqrt(args[0].(float64))
}

func ext۰runtime۰Breakpoint(fr *frame, args []value) value {
	runtime.Breakpoint()
	return nil
}

func ext۰sort۰Ints(fr *frame, args []value) value {
	x := args[0].([]value)
	sort.Slice(x, func(i, j int) bool {
		return x[i].(int) < x[j].(int)
	})
	return nil
}
func ext۰sort۰Strings(fr *frame, args []value) value {
	x := args[0].([]value)
	sort.Slice(x, func(i, j int) bool {
		return x[i].(string) < x[j].(string)
	})
	return nil
}
func ext۰sort۰Float64s(fr *frame, args []value) value {
	x := args[0].([]value)
	sort.Slice(x, func(i, j int) bool {
		return x[i].(float64) < x[j].(float64)
	})
	return nil
}

func ext۰strconv۰Atoi(fr *frame, args []value) value {
	i, e := strconv.Atoi(args[0].(string))
	if e != nil {
		if fr.i.runtimeErrorString != nil {
			return tuple{i, iface{fr.i.runtimeErrorString, e.Error()}}
		}
		return tuple{i, e.Error()}
	}
	return tuple{i, iface{}}
}
func ext۰strconv۰Itoa(fr *frame, args []value) value {
	return strconv.Itoa(args[0].(int))
}
func ext۰strconv۰FormatFloat(fr *frame, args []value) value {
	return strconv.FormatFloat(args[0].(float64), args[1].(byte), args[2].(int), args[3].(int))
}

func ext۰strings۰Count(fr *frame, args []value) value {
	return strings.Count(args[0].(string), args[1].(string))
}

func ext۰strings۰EqualFold(fr *frame, args []value) value {
	return strings.EqualFold(args[0].(string), args[1].(string))
}
func ext۰strings۰IndexByte(fr *frame, args []value) value {
	return strings.IndexByte(args[0].(string), args[1].(byte))
}

func ext۰strings۰Index(fr *frame, args []value) value {
	return strings.Index(args[0].(string), args[1].(string))
}

func ext۰strings۰Replace(fr *frame, args []value) value {
	// func Replace(s, old, new string, n int) string
	s := args[0].(string)
	new := args[1].(string)
	old := args[2].(string)
	n := args[3].(int)
	return strings.Replace(s, old, new, n)
}

func ext۰strings۰ToLower(fr *frame, args []value) value {
	return strings.ToLower(args[0].(string))
}

func ext۰runtime۰GOMAXPROCS(fr *frame, args []value) value {
	// Ignore args[0]; don't let the interpreted program
	// set the interpreter's GOMAXPROCS!
	return runtime.GOMAXPROCS(0)
}

func ext۰runtime۰Goexit(fr *frame, args []value) value {
	// TODO(adonovan): don't kill the interpreter's main goroutine.
	runtime.Goexit()
	return nil
}

func ext۰runtime۰GOROOT(fr *frame, args []value) value {
	return runtime.GOROOT()
}

func ext۰runtime۰GC(fr *frame, args []value) value {
	runtime.GC()
	return nil
}

func ext۰runtime۰Gosched(fr *frame, args []value) value {
	runtime.Gosched()
	return nil
}

func ext۰runtime۰NumCPU(fr *frame, args []value) value {
	return runtime.NumCPU()
}

func ext۰time۰Sleep(fr *frame, args []value) value {
	time.Sleep(time.Duration(args[0].(int64)))
	return nil
}

func ext۰os۰Getenv(fr *frame, args []value) value {
	name := args[0].(string)
	switch name {
	case "GOSSAINTERP":
		return "1"
	}
	return os.Getenv(name)
}

func ext۰os۰Exit(fr *frame, args []value) value {
	panic(exitPanic(args[0].(int)))
}

func ext۰unicode۰utf8۰DecodeRuneInString(fr *frame, args []value) value {
	r, n := utf8.DecodeRuneInString(args[0].(string))
	return tuple{r, n}
}

// A fake function for turning an arbitrary value into a string.
// Handles only the cases needed by the tests.
// Uses same logic as 'print' built-in.
func ext۰fmt۰Sprint(fr *frame, args []value) value {
	buf := new(bytes.Buffer)
	wasStr := false
	for i, arg := range args[0].([]value) {
		x := arg.(iface).v
		_, isStr := x.(string)
		if i > 0 && !wasStr && !isStr {
			buf.WriteByte(' ')
		}
		wasStr = isStr
		buf.WriteString(toString(x))
	}
	return buf.String()
}
