// Copyright 2013 The Go Authors. All rights reserved.
// Use of this source code is governed by a BSD-style
// license that can be found in the LICENSE file.

// Package ssa/interp defines an interpreter for the SSA
// representation of Go programs.
//
// This interpreter is provided as an adjunct for testing the SSA
// construction algorithm.  Its purpose is to provide a minimal
// metacircular implementation of the dynamic semantics of each SSA
// instruction.  It is not, and will never be, a production-quality Go
// interpreter.
//
// The following is a partial list of Go features that are currently
// unsupported or incomplete in the interpreter.
//
// * Unsafe operations, including all uses of unsafe.Pointer, are
// impossible to support given the "boxed" value representation we
// have chosen.
//
// * The reflect package is only partially implemented.
//
// * The "testing" package is no longer supported because it
// depends on low-level details that change too often.
//
// * "sync/atomic" operations are not atomic due to the "boxed" value
// representation: it is not possible to read, modify and write an
// interface value atomically. As a consequence, Mutexes are currently
// broken.
//
// * recover is only partially implemented.  Also, the interpreter
// makes no attempt to distinguish target panics from interpreter
// crashes.
//
// * the sizes of the int, uint and uintptr types in the target
// program are assumed to be the same as those of the interpreter
// itself.
//
// * all values occupy space, even those of types defined by the spec
// to have zero size, e.g. struct{}.  This can cause asymptotic
// performance degradation.
//
// * os.Exit is implemented using panic, causing deferred functions to
// run.
package interp // import "golang.org/x/tools/go/ssa/interp"

import (
	"fmt"
	"go/token"
	"go/types"
	"log"
	"os"
	"runtime"
	"runtime/debug"
	"slices"
	"strings"
	_ "unsafe"

	"golang.org/x/tools/go/ssa"
	"verif/engine/sym"
)

type continuation int

const (
	kNext continuation = iota
	kReturn
	kJump
)

// Mode is a bitmask of options affecting the interpreter.
type Mode uint

const (
	DisableRecover Mode = 1 << iota // Disable recover() in target programs; show interpreter crash instead.
	EnableTracing                   // Print a trace of all instructions as they are interpreted.
)

type methodSet map[string]*ssa.Function

// State shared between all interpreted goroutines.
type interpreter struct {
	zeroSizeCell       *value                 // shared address of all zero-size heap allocations (gc: runtime.zerobase)
	osArgs             []value                // the value of os.Args
	prog               *ssa.Program           // the SSA program
	globals            map[*ssa.Global]*value // addresses of global variables (immutable)
	mode               Mode                   // interpreter options
	reflectPackage     *ssa.Package           // the fake reflect package
	errorMethods       methodSet              // the method set of reflect.error, which implements the error interface.
	rtypeMethods       methodSet              // the method set of rtype, which implements the reflect.Type interface.
	runtimeErrorString types.Type             // the runtime.errorString type (iff "runtime" is present)
	sizes              types.Sizes            // the effective type-sizing function
	goroutines         int32                  // atomically updated

	// symbolic engine state (one interpreter per worker)
	ctx             *sym.Ctx
	solver          *sym.Solver
	exp             *Explorer
	path            *pathState
	stats           *Stats
	undo            []func()
	undoOn          bool
	curFn           *ssa.Function
	panicSite       string
	panicStack      string
	symFuncs        map[*ssa.Function]bool
	extCache        map[*ssa.Function]externalFn
	initAllow       func(pkgPath string) bool
	initDone        map[*ssa.Package]bool
	fuel            int64
	depth           int
	hooks           *Hooks
	sched           *scheduler
	locks           map[*value]*lockState
	syncMaps        map[*value]*omap
	counters        map[*value]*int
	condWaiters     map[*value][]*condWaiter // goroutines parked in (*sync.Cond).Wait, in arrival order
	symxPkg         *ssa.Package       // verif/symx of the loaded program (virtual file system entry points)
	fuelStart       int64              // fuel at the start of the current path (symx.Cost)
	pools           map[*value][]value // sync.Pool model: retained items per pool (LIFO)
	wrapped         map[*value]iface
	params          map[string]int
	softFuelAt      int64
	mapOrderSym     bool
	softOpaque      bool
	collectObserved bool
	mapOrderUsed    int
	fuelIsViolation bool
}

type deferred struct {
	fn    value
	args  []value
	instr *ssa.Defer
	tail  *deferred
}

type frame struct {
	i                *interpreter
	caller           *frame
	fn               *ssa.Function
	block, prevBlock *ssa.BasicBlock
	env              map[ssa.Value]value // dynamic values of SSA variables
	locals           []value
	defers           *deferred
	result           value
	panicking        bool
	panic            any
	phitemps         []value // temporaries for parallel phi assignment
}

func (fr *frame) get(key ssa.Value) value {
	switch key := key.(type) {
	case nil:
		// Hack; simplifies handling of optional attributes
		// such as ssa.Slice.{Low,High}.
		return nil
	case *ssa.Function, *ssa.Builtin:
		return key
	case *ssa.Const:
		return constValue(key)
	case *ssa.Global:
		return fr.i.global(key)
	}
	if r, ok := fr.env[key]; ok {
		return r
	}
	panic(fmt.Sprintf("get: no value for %T: %v", key, key.Name()))
}

// runDefer runs a deferred call d.
// It always returns normally, but may set or clear fr.panic.
func (fr *frame) runDefer(d *deferred) {
	if fr.i.mode&EnableTracing != 0 {
		fmt.Fprintf(os.Stderr, "%s: invoking deferred function call\n",
			fr.i.prog.Fset.Position(d.instr.Pos()))
	}
	var ok bool
	defer func() {
		if !ok {
			// Deferred call created a new state of panic.
			fr.panicking = true
			fr.panic = recover()
			if a, isAbort := fr.panic.(abort); isAbort {
				panic(a)
			}
		}
	}()
	call(fr.i, fr, d.instr.Pos(), d.fn, d.args)
	ok = true
}

// runDefers executes fr's deferred function calls in LIFO order.
//
// On entry, fr.panicking indicates a state of panic; if
// true, fr.panic contains the panic value.
//
// On completion, if a deferred call started a panic, or if no
// deferred call recovered from a previous state of panic, then
// runDefers itself panics after the last deferred call has run.
//
// If there was no initial state of panic, or it was recovered from,
// runDefers returns normally.
func (fr *frame) runDefers() {
	for d := fr.defers; d != nil; d = d.tail {
		fr.runDefer(d)
	}
	fr.defers = nil
	if fr.panicking {
		panic(fr.panic) // new panic, or still panicking
	}
}

// lookupMethod returns the method set for type typ, which may be one
// of the interpreter's fake types.
func lookupMethod(i *interpreter, typ types.Type, meth *types.Func) *ssa.Function {
	switch typ {
	case rtypeType:
		return i.rtypeMethods[meth.Id()]
	case errorType:
		return i.errorMethods[meth.Id()]
	}
	return i.prog.LookupMethod(typ, meth.Pkg(), meth.Name())
}

// visitInstr interprets a single ssa.Instruction within the activation
// record frame.  It returns a continuation value indicating where to
// read the next instruction from.
func visitInstr(fr *frame, instr ssa.Instruction) continuation {
	switch instr := instr.(type) {
	case *ssa.DebugRef:
		// no-op

	case *ssa.UnOp:
		fr.env[instr] = unop(fr, instr, fr.get(instr.X))

	case *ssa.BinOp:
		fr.i.curFn = fr.fn
		fr.env[instr] = binop(instr.Op, instr.X.Type(), fr.get(instr.X), fr.get(instr.Y))

	case *ssa.Call:
		fn, args := prepareCall(fr, &instr.Call)
		fr.env[instr] = call(fr.i, fr, instr.Pos(), fn, args)

	case *ssa.ChangeInterface:
		fr.env[instr] = fr.get(instr.X)

	case *ssa.ChangeType:
		fr.env[instr] = fr.get(instr.X) // (can't fail)

	case *ssa.Convert:
		fr.i.curFn = fr.fn
		fr.env[instr] = conv(instr.Type(), instr.X.Type(), fr.get(instr.X))

	case *ssa.SliceToArrayPointer:
		fr.env[instr] = sliceToArrayPointer(instr.Type(), instr.X.Type(), fr.get(instr.X))

	case *ssa.MakeInterface:
		fr.env[instr] = iface{t: instr.X.Type(), v: fr.get(instr.X)}

	case *ssa.Extract:
		fr.env[instr] = fr.get(instr.Tuple).(tuple)[instr.Index]

	case *ssa.Slice:
		fr.i.curFn = fr.fn
		fr.env[instr] = slice(fr.get(instr.X), fr.get(instr.Low), fr.get(instr.High), fr.get(instr.Max))

	case *ssa.Return:
		switch len(instr.Results) {
		case 0:
		case 1:
			fr.result = fr.get(instr.Results[0])
		default:
			var res []value
			for _, r := range instr.Results {
				res = append(res, fr.get(r))
			}
			fr.result = tuple(res)
		}
		fr.block = nil
		return kReturn

	case *ssa.RunDefers:
		fr.runDefers()

	case *ssa.Panic:
		panic(targetPanic{fr.get(instr.X)})

	case *ssa.Send:
		fr.i.chanSend(fr.get(instr.Chan), fr.get(instr.X))

	case *ssa.Store:
		fr.i.curFn = fr.fn
		fr.i.storeAt(mustDeref(instr.Addr.Type()), fr.get(instr.Addr), fr.get(instr.Val))

	case *ssa.If:
		succ := 1
		switch c := fr.get(instr.Cond).(type) {
		case bool:
			if c {
				succ = 0
			}
		case *Sym:
			fr.i.curFn = fr.fn
			if fr.i.branch(c.T) {
				succ = 0
			}
		}
		fr.prevBlock, fr.block = fr.block, fr.block.Succs[succ]
		return kJump

	case *ssa.Jump:
		fr.prevBlock, fr.block = fr.block, fr.block.Succs[0]
		return kJump

	case *ssa.Defer:
		fn, args := prepareCall(fr, &instr.Call)
		defers := &fr.defers
		if into := fr.get(instr.DeferStack); into != nil {
			defers = into.(**deferred)
		}
		*defers = &deferred{
			fn:    fn,
			args:  args,
			instr: instr,
			tail:  *defers,
		}

	case *ssa.Go:
		fn, args := prepareCall(fr, &instr.Call)
		fr.i.spawn(fr, instr.Pos(), fn, args)

	case *ssa.MakeChan:
		fr.env[instr] = fr.i.makeChan(int(asInt64(fr.get(instr.Size))))

	case *ssa.Alloc:
		var addr *value
		if instr.Heap {
			// new. Like the gc runtime (runtime.zerobase), every heap allocation of a zero-size
			// type yields the same address: code that compares such pointers (origami's
			// `lv == rv` shortcut on *NullValue) behaves under the engine as it does natively.
			if st, ok := mustDeref(instr.Type()).Underlying().(*types.Struct); ok && st.NumFields() == 0 {
				if fr.i.zeroSizeCell == nil {
					fr.i.zeroSizeCell = new(value)
				}
				addr = fr.i.zeroSizeCell
			} else {
				addr = new(value)
			}
			fr.env[instr] = addr
		} else {
			// local
			addr = fr.env[instr].(*value)
		}
		*addr = zero(mustDeref(instr.Type()))

	case *ssa.MakeSlice:
		// sizes as the Go runtime treats them: beyond maxAlloc the program panics; merely huge
		// allocations (which the runtime would hand out lazily) are beyond the engine
		if n, l := asInt64(fr.get(instr.Cap)), asInt64(fr.get(instr.Len)); n < 0 || l < 0 || l > n || n > (1<<48)/16 {
			if l < 0 || (l > n && n >= 0) || l > (1<<48)/16 {
				panic("runtime error: makeslice: len out of range")
			}
			panic("runtime error: makeslice: cap out of range")
		} else if n > 1<<24 {
			panic(abort{kind: "inconclusive", msg: fmt.Sprintf("allocation of %d slice elements is beyond the engine", n)})
		}
		slice := make([]value, asInt64(fr.get(instr.Cap)))
		tElt := instr.Type().Underlying().(*types.Slice).Elem()
		for i := range slice {
			slice[i] = zero(tElt)
		}
		fr.env[instr] = slice[:asInt64(fr.get(instr.Len))]

	case *ssa.MakeMap:
		var reserve int64
		if instr.Reserve != nil {
			reserve = asInt64(fr.get(instr.Reserve))
		}
		if !fitsInt(reserve, fr.i.sizes) {
			panic(fmt.Sprintf("ssa.MakeMap.Reserve value %d does not fit in int", reserve))
		}
		fr.env[instr] = makeMap(instr.Type().Underlying().(*types.Map).Key(), reserve)

	case *ssa.Range:
		fr.env[instr] = rangeIter(fr, fr.get(instr.X))

	case *ssa.Next:
		fr.env[instr] = fr.get(instr.Iter).(iter).next()

	case *ssa.FieldAddr:
		fr.env[instr] = &(*fr.i.ptr(fr.get(instr.X))).(structure)[instr.Field]

	case *ssa.Field:
		fr.env[instr] = fr.get(instr.X).(structure)[instr.Field]

	case *ssa.IndexAddr:
		x := fr.get(instr.X)
		idx := fr.get(instr.Index)
		fr.i.curFn = fr.fn
		switch x := x.(type) {
		case []value:
			if si, ok := idx.(*Sym); ok {
				fr.i.boundsCheck(si, len(x))
				fr.env[instr] = symptr{elems: x, idx: si}
			} else {
				fr.env[instr] = &x[asInt64(idx)]
			}
		case *value: // *array
			a := (*x).(array)
			if si, ok := idx.(*Sym); ok {
				fr.i.boundsCheck(si, len(a))
				fr.env[instr] = symptr{elems: a, idx: si}
			} else {
				fr.env[instr] = &a[asInt64(idx)]
			}
		case symptr:
			a := (*fr.i.ptr(x)).(array)
			fr.env[instr] = &a[asInt64(idx)]
		default:
			panic(fmt.Sprintf("unexpected x type in IndexAddr: %T", x))
		}

	case *ssa.Index:
		x := fr.get(instr.X)
		idx := fr.get(instr.Index)

		fr.i.curFn = fr.fn
		fr.env[instr] = fr.i.indexValue(x, idx)

	case *ssa.Lookup:
		fr.i.curFn = fr.fn
		fr.env[instr] = lookup(fr.i, instr, fr.get(instr.X), fr.get(instr.Index))

	case *ssa.MapUpdate:
		m := fr.get(instr.Map)
		key := fr.get(instr.Key)
		v := fr.get(instr.Value)
		switch m := m.(type) {
		case *omap:
			fr.i.curFn = fr.fn
			m.insert(fr.i, key, v)
		default:
			panic(fmt.Sprintf("illegal map type: %T", m))
		}

	case *ssa.TypeAssert:
		fr.env[instr] = typeAssert(instr, fr.get(instr.X).(iface))

	case *ssa.MakeClosure:
		var bindings []value
		for _, binding := range instr.Bindings {
			bindings = append(bindings, fr.get(binding))
		}
		fr.env[instr] = &closure{instr.Fn.(*ssa.Function), bindings}

	case *ssa.Phi:
		log.Fatal("unreachable") // phis are processed at block entry

	case *ssa.Select:
		fr.env[instr] = fr.i.doSelect(fr, instr)

	default:
		panic(fmt.Sprintf("unexpected instruction: %T", instr))
	}

	// if val, ok := instr.(ssa.Value); ok {
	// 	fmt.Println(toString(fr.env[val])) // debugging
	// }

	return kNext
}

// prepareCall determines the function value and argument values for a
// function call in a Call, Go or Defer instruction, performing
// interface method lookup if needed.
func prepareCall(fr *frame, call *ssa.CallCommon) (fn value, args []value) {
	v := fr.get(call.Value)
	if call.Method == nil {
		// Function call.
		fn = v
	} else {
		// Interface method invocation.
		recv := v.(iface)
		if recv.t == nil {
			panic("method invoked on nil interface")
		}
		if f := lookupMethod(fr.i, recv.t, call.Method); f == nil {
			// Unreachable in well-typed programs.
			panic(fmt.Sprintf("method set for dynamic type %v does not contain %s", recv.t, call.Method))
		} else {
			fn = f
		}
		args = append(args, recv.v)
	}
	for _, arg := range call.Args {
		args = append(args, fr.get(arg))
	}
	return
}

// call interprets a call to a function (function, builtin or closure)
// fn with arguments args, returning its result.
// callpos is the position of the callsite.
func call(i *interpreter, caller *frame, callpos token.Pos, fn value, args []value) value {
	switch fn := fn.(type) {
	case *ssa.Function:
		if fn == nil {
			panic("call of nil function") // nil of func type
		}
		return callSSA(i, caller, callpos, fn, args, nil)
	case *closure:
		return callSSA(i, caller, callpos, fn.Fn, args, fn.Env)
	case *ssa.Builtin:
		return callBuiltin(caller, fn, args)
	}
	panic(fmt.Sprintf("cannot call %T", fn))
}

func loc(fset *token.FileSet, pos token.Pos) string {
	if pos == token.NoPos {
		return ""
	}
	return " at " + fset.Position(pos).String()
}

// callSSA interprets a call to function fn with arguments args,
// and lexical environment env, returning its result.
// callpos is the position of the callsite.
func callSSA(i *interpreter, caller *frame, callpos token.Pos, fn *ssa.Function, args []value, env []value) value {
	if i.mode&EnableTracing != 0 {
		fset := fn.Prog.Fset
		// TODO(adonovan): fix: loc() lies for external functions.
		fmt.Fprintf(os.Stderr, "Entering %s%s.\n", fn, loc(fset, fn.Pos()))
		suffix := ""
		if caller != nil {
			suffix = ", resuming " + caller.fn.String() + loc(fset, callpos)
		}
		defer fmt.Fprintf(os.Stderr, "Leaving %s%s.\n", fn, suffix)
	}
	fr := &frame{
		i:      i,
		caller: caller, // for panic/recover
		fn:     fn,
	}
	if fn.Parent() == nil {
		ext, seen := i.extCache[fn]
		if !seen {
			ext = i.lookupExternal(fn)
			i.extCache[fn] = ext
		}
		if ext != nil {
			i.curFn = fn
			return ext(fr, args)
		}
		if fn.Blocks == nil {
			panic(abort{kind: "unsupported", msg: "no code for function: " + fn.String()})
		}
		if fn.Synthetic == "package initializer" && !i.initAllowed(fn.Pkg) {
			return nil
		}
	}
	i.depth++
	if i.depth > maxCallDepth {
		i.depth = 0
		panic(abort{kind: "depth", msg: "call depth exceeds " + fmt.Sprint(maxCallDepth) + " in " + fn.String()})
	}
	defer func() { i.depth-- }()

	// generic function body?
	if fn.TypeParams().Len() > 0 && len(fn.TypeArgs()) == 0 {
		panic("interp requires ssa.BuilderMode to include InstantiateGenerics to execute generics")
	}

	fr.env = make(map[ssa.Value]value)
	fr.block = fn.Blocks[0]
	fr.locals = make([]value, len(fn.Locals))
	for i, l := range fn.Locals {
		fr.locals[i] = zero(mustDeref(l.Type()))
		fr.env[l] = &fr.locals[i]
	}
	for i, p := range fn.Params {
		fr.env[p] = args[i]
	}
	for i, fv := range fn.FreeVars {
		fr.env[fv] = env[i]
	}
	for fr.block != nil {
		runFrame(fr)
	}
	// Destroy the locals to avoid accidental use after return.
	for i := range fn.Locals {
		fr.locals[i] = bad{}
	}
	return fr.result
}

// runFrame executes SSA instructions starting at fr.block and
// continuing until a return, a panic, or a recovered panic.
//
// After a panic, runFrame panics.
//
// After a normal return, fr.result contains the result of the call
// and fr.block is nil.
//
// A recovered panic in a function without named return parameters
// (NRPs) becomes a normal return of the zero value of the function's
// result type.
//
// After a recovered panic in a function with NRPs, fr.result is
// undefined and fr.block contains the block at which to resume
// control.
func runFrame(fr *frame) {
	defer func() {
		if fr.block == nil {
			return // normal return
		}
		if fr.i.mode&DisableRecover != 0 {
			return // let interpreter crash
		}
		fr.panicking = true
		fr.panic = recover()
		if a, ok := fr.panic.(abort); ok {
			panic(a) // engine abort: unwind without running target defers
		}
		if fr.i.mode&EnableTracing != 0 {
			fmt.Fprintf(os.Stderr, "Panicking: %T %v.\n", fr.panic, fr.panic)
		}
		if fr.i.panicSite == "" {
			fr.i.panicSite = fr.fn.String()
			fr.i.panicStack = fr.stackString()
			if os.Getenv("VERIF_DEBUG") != "" {
				if _, isTarget := fr.panic.(targetPanic); !isTarget {
					fmt.Fprintf(os.Stderr, "ENGINE-LEVEL PANIC %v\n%s\n%s\n", fr.panic, fr.i.panicStack, firstLines(string(debug.Stack()), 14))
				}
			}
		}
		fr.runDefers()
		fr.block = fr.fn.Recover
	}()

	for {
		if fr.i.mode&EnableTracing != 0 {
			fmt.Fprintf(os.Stderr, ".%s:\n", fr.block)
		}

		nonPhis := executePhis(fr)
		for _, instr := range nonPhis {
			if fr.i.mode&EnableTracing != 0 {
				if v, ok := instr.(ssa.Value); ok {
					fmt.Fprintln(os.Stderr, "\t", v.Name(), "=", instr)
				} else {
					fmt.Fprintln(os.Stderr, "\t", instr)
				}
			}
			fr.i.fuel--
			if fr.i.fuel < fr.i.softFuelAt {
				panic(abort{kind: "done", msg: "soft budget reached (outcome: still running)"})
			}
			if fr.i.fuel < 0 {
				fr.i.panicStack = fr.stackString()
				panic(abort{kind: "fuel", msg: "instruction budget exhausted in " + fr.loopSite()})
			}
			if visitInstr(fr, instr) == kReturn {
				return
			}
			// Inv: kNext (continue) or kJump (last instr)
		}
	}
}

// executePhis executes the phi-nodes at the start of the current
// block and returns the non-phi instructions.
func executePhis(fr *frame) []ssa.Instruction {
	firstNonPhi := -1
	for i, instr := range fr.block.Instrs {
		if _, ok := instr.(*ssa.Phi); !ok {
			firstNonPhi = i
			break
		}
	}
	// Inv: 0 <= firstNonPhi; every block contains a non-phi.

	nonPhis := fr.block.Instrs[firstNonPhi:]
	if firstNonPhi > 0 {
		phis := fr.block.Instrs[:firstNonPhi]
		// Execute parallel assignment of phis.
		//
		// See "the swap problem" in Briggs et al's "Practical Improvements
		// to the Construction and Destruction of SSA Form" for discussion.
		predIndex := slices.Index(fr.block.Preds, fr.prevBlock)
		fr.phitemps = fr.phitemps[:0]
		for _, phi := range phis {
			phi := phi.(*ssa.Phi)
			if fr.i.mode&EnableTracing != 0 {
				fmt.Fprintln(os.Stderr, "\t", phi.Name(), "=", phi)
			}
			fr.phitemps = append(fr.phitemps, fr.get(phi.Edges[predIndex]))
		}
		for i, phi := range phis {
			fr.env[phi.(*ssa.Phi)] = fr.phitemps[i]
		}
	}
	return nonPhis
}

// doRecover implements the recover() built-in.
func doRecover(caller *frame) value {
	// recover() must be exactly one level beneath the deferred
	// function (two levels beneath the panicking function) to
	// have any effect.  Thus we ignore both "defer recover()" and
	// "defer f() -> g() -> recover()".
	if caller.i.mode&DisableRecover == 0 &&
		caller != nil && !caller.panicking &&
		caller.caller != nil && caller.caller.panicking {
		caller.caller.panicking = false
		p := caller.caller.panic
		caller.caller.panic = nil
		caller.i.panicSite = ""

		// TODO(adonovan): support runtime.Goexit.
		switch p := p.(type) {
		case targetPanic:
			// The target program explicitly called panic().
			return p.v
		case runtime.Error:
			// The interpreter encountered a runtime error.
			return iface{caller.i.runtimeErrorString, p.Error()}
		case string:
			// The interpreter explicitly called panic().
			return iface{caller.i.runtimeErrorString, p}
		case error:
			return iface{caller.i.runtimeErrorString, p.Error()}
		default:
			panic(fmt.Sprintf("unexpected panic type %T in target call to recover()", p))
		}
	}
	return iface{}
}

func (fr *frame) stackString() string {
	var sb strings.Builder
	n := 0
	for f := fr; f != nil && n < 40; f = f.caller {
		sb.WriteString("  at ")
		sb.WriteString(f.fn.String())
		sb.WriteString("\n")
		n++
	}
	return sb.String()
}

func firstLines(s string, n int) string {
	lines := strings.Split(s, "\n")
	var out []string
	for _, l := range lines {
		if strings.HasPrefix(l, "\t") || strings.HasPrefix(l, "runtime") || strings.HasPrefix(l, "panic(") {
			continue
		}
		out = append(out, l)
		if len(out) >= n {
			break
		}
	}
	return strings.Join(out, "\n")
}

// loopSite names the outermost-but-one interesting frame at fuel exhaustion:
// the first parse*/Parse/Tokenize/Process frame walking outwards, else the current function.
func (fr *frame) loopSite() string {
	for f := fr; f != nil; f = f.caller {
		n := f.fn.Name()
		if strings.HasPrefix(n, "parse") || strings.HasPrefix(n, "Parse") || strings.HasPrefix(n, "Tokenize") || n == "Process" || strings.HasPrefix(n, "handle") {
			return f.fn.String()
		}
	}
	return fr.fn.String()
}
