package interp

// Engine glue: program loading, worker interpreters, memory access helpers,
// string helpers, channels (sequential model; the scheduler extends it).

import (
	"fmt"
	"go/token"
	"go/types"
	"os"
	"runtime"
	"strings"
	"sync"
	"sync/atomic"
	"time"
	"unsafe"

	"golang.org/x/tools/go/ssa"
	"verif/engine/sym"
)

const maxCallDepth = 3000

func mustDeref(t types.Type) types.Type {
	if p, ok := t.Underlying().(*types.Pointer); ok {
		return p.Elem()
	}
	if p, ok := types.Unalias(t).(*types.Pointer); ok {
		return p.Elem()
	}
	panic(fmt.Sprintf("mustDeref: %v is not a pointer", t))
}

// Hooks lets the driver observe harness events.
type Hooks struct{}

// Program is the shared, read-only SSA program plus engine configuration.
type Program struct {
	Prog      *ssa.Program
	Sizes     types.Sizes
	InitAllow func(pkgPath string) bool
	once      sync.Once
	reflPkg   *ssa.Package
	rtypeM    methodSet
	errorM    methodSet
	rtErr     types.Type
}

// Worker is one interpreter instance with its own heap, term context and solver.
type Worker struct {
	i *interpreter
	P *Program
}

func (p *Program) NewWorker(solverName string, solverMs int) (*Worker, error) {
	i := &interpreter{
		prog:     p.Prog,
		globals:  make(map[*ssa.Global]*value),
		sizes:    p.Sizes,
		ctx:      sym.NewCtx(),
		stats:    newStats(),
		symFuncs: map[*ssa.Function]bool{},
		extCache: map[*ssa.Function]externalFn{},
		initDone: map[*ssa.Package]bool{},
		fuel:     1 << 60,
	}
	i.ctx.Owner = i
	i.initAllow = p.InitAllow
	p.once.Do(func() {
		if rp := p.Prog.ImportedPackage("runtime"); rp != nil {
			p.rtErr = rp.Type("errorString").Object().Type()
		}
		initReflect(i)
		p.reflPkg, p.rtypeM, p.errorM = i.reflectPackage, i.rtypeMethods, i.errorMethods
	})
	i.reflectPackage, i.rtypeMethods, i.errorMethods = p.reflPkg, p.rtypeM, p.errorM
	i.runtimeErrorString = p.rtErr
	if solverName != "" {
		s, err := sym.NewSolver(solverName, solverMs)
		if err != nil {
			return nil, err
		}
		i.solver = s
	}
	return &Worker{i: i, P: p}, nil
}

func (w *Worker) Close() {
	if w.i.solver != nil {
		w.i.solver.Close()
	}
}

func (i *interpreter) initAllowed(pkg *ssa.Package) bool {
	if pkg == nil {
		return true
	}
	if ok, seen := i.initDone[pkg]; seen {
		return ok
	}
	ok := i.initAllow == nil || i.initAllow(pkg.Pkg.Path())
	i.initDone[pkg] = ok
	return ok
}

// global returns the address of a package-level variable, allocating lazily.
func (i *interpreter) global(g *ssa.Global) *value {
	if r, ok := i.globals[g]; ok {
		return r
	}
	if g.Pkg != nil && !i.initAllowed(g.Pkg) && !strings.HasPrefix(g.Name(), "init$") {
		if !zeroInitOK(g) {
			panic(abort{kind: "unsupported", msg: "global of uninitialised package: " + g.String()})
		}
	}
	cell := zero(mustDeref(g.Type()))
	p := &cell
	i.globals[g] = p
	if i.undoOn {
		i.undo = append(i.undo, func() { delete(i.globals, g) })
	}
	return p
}

// zeroInitOK: globals of non-initialised packages that are correct as zero values.
func zeroInitOK(g *ssa.Global) bool {
	return ZeroOKPackages[g.Pkg.Pkg.Path()]
}

// ZeroOKPackages lists packages whose init is not run and whose globals may be
// read as zero values (each is part of the trusted environment model).
var ZeroOKPackages = map[string]bool{
	"errors": true, "internal/cpu": true, "internal/bytealg": true, "sync": true, "sync/atomic": true,
	"internal/race": true, "internal/sync": true, "runtime": true, "os": true, "syscall": true,
	"internal/godebug": true, "internal/poll": true, "time": true, "reflect": true, "fmt": true,
	"google.golang.org/protobuf/internal/detrand": true, "internal/testlog": true, "internal/abi": true,
}

// RunInits runs the package initialisers of every allow-listed package.
func (w *Worker) RunInits(main *ssa.Package) (err error) {
	defer func() {
		if r := recover(); r != nil {
			err = fmt.Errorf("init failed: %v", describePanic(r))
		}
	}()
	call(w.i, nil, token.NoPos, main.Func("init"), nil)
	return nil
}

func describePanic(r any) string {
	switch p := r.(type) {
	case abort:
		return p.String()
	case targetPanic:
		return "panic: " + panicString(p.v)
	case runtime.Error:
		return "runtime error (engine-level): " + p.Error()
	case string:
		return "panic: " + p
	case error:
		return "panic: " + p.Error()
	}
	return fmt.Sprintf("panic: %v", r)
}

// panicString renders a target panic value (error/Stringer payloads by structure).
func panicString(v value) string {
	if itf, ok := v.(iface); ok {
		if s, ok := itf.v.(string); ok {
			return s
		}
		if itf.t != nil {
			return fmt.Sprintf("(%s) %s", itf.t, toString(itf.v))
		}
	}
	return toString(v)
}

// ---- memory access

func (i *interpreter) ptr(p value) *value {
	switch p := p.(type) {
	case *value:
		return p
	case symptr:
		return &p.elems[i.concretize(p.idx)]
	}
	panic(fmt.Sprintf("ptr: unexpected %T", p))
}

func (i *interpreter) storeAt(T types.Type, addr value, v value) {
	a := i.ptr(addr)
	if i.sched != nil && i.sched.enabled && i.path != nil {
		if name, ok := i.sched.shared[a]; ok {
			here := i.curFnName()
			i.sched.visible(i, "store "+name, a)
			i.sched.accessCheckAt(i, a, true, name, here)
		} else if a != nil {
			i.sched.heapStore(i, a)
		}
	}
	if a == nil {
		rtPanic("invalid memory address or nil pointer dereference")
	}
	i.store(T, a, v)
}

func (i *interpreter) store(T types.Type, addr *value, v value) {
	switch T := T.Underlying().(type) {
	case *types.Struct:
		lhs := (*addr).(structure)
		rhs := v.(structure)
		for k := range lhs {
			i.store(T.Field(k).Type(), &lhs[k], rhs[k])
		}
	case *types.Array:
		lhs := (*addr).(array)
		rhs := v.(array)
		for k := range lhs {
			i.store(T.Elem(), &lhs[k], rhs[k])
		}
	default:
		if i.undoOn {
			old := *addr
			i.undo = append(i.undo, func() { *addr = old })
		}
		*addr = v
	}
}

func (i *interpreter) loadAt(T types.Type, addr value) value {
	switch a := addr.(type) {
	case *value:
		if a == nil {
			rtPanic("invalid memory address or nil pointer dereference")
		}
		if i.sched != nil && i.sched.enabled && i.path != nil {
			if name, ok := i.sched.shared[a]; ok {
				here := i.curFnName()
				i.sched.visible(i, "load "+name, a)
				i.sched.accessCheckAt(i, a, false, name, here)
			} else {
				i.sched.heapLoad(i, a)
			}
		}
		return load(T, a)
	case symptr:
		vals := make([]value, len(a.elems))
		for k := range a.elems {
			vals[k] = load(T, &a.elems[k])
		}
		return i.selectValue(vals, a.idx)
	}
	panic(fmt.Sprintf("loadAt: unexpected %T", addr))
}

// indexValue implements x[idx] for arrays and strings (value context).
func (i *interpreter) indexValue(x, idx value) value {
	switch x := x.(type) {
	case array:
		if si, ok := idx.(*Sym); ok {
			i.boundsCheck(si, len(x))
			return i.selectValue(x, si)
		}
		return x[asInt64(idx)]
	case string:
		if si, ok := idx.(*Sym); ok {
			i.boundsCheck(si, len(x))
			b, _ := strBytes(x)
			return i.selectValue(b, si)
		}
		return x[asInt64(idx)]
	case symstr:
		if si, ok := idx.(*Sym); ok {
			i.boundsCheck(si, len(x.b))
			return i.selectValue(x.b, si)
		}
		return x.b[asInt64(idx)]
	case opaqueStr:
		panic(abort{kind: "inconclusive", msg: "opaque string indexed"})
	}
	panic(fmt.Sprintf("unexpected x type in Index: %T", x))
}

// symConv handles conversions involving symbolic values; ok=false → not handled.
func symConv(ut_dst, ut_src types.Type, x value) (value, bool) {
	switch xs := x.(type) {
	case *Sym:
		db, ok := ut_dst.(*types.Basic)
		if !ok {
			return nil, false
		}
		if db.Kind() == types.String {
			// string(rune) with a symbolic rune
			return ownerOf(x).runeToString(xs), true
		}
		return symConvNum(xs, db.Kind()), true
	case symstr:
		switch d := ut_dst.(type) {
		case *types.Basic:
			if d.Kind() == types.String {
				return x, true
			}
		case *types.Slice:
			switch d.Elem().Underlying().(*types.Basic).Kind() {
			case types.Byte:
				out := make([]value, len(xs.b))
				copy(out, xs.b)
				return out, true
			case types.Rune:
				i := ownerOf(x)
				var out []value
				for p := 0; p < len(xs.b); {
					r, n := i.decodeRune(nil, mkStr(xs.b[p:]))
					out = append(out, r)
					p += n
				}
				return out, true
			}
		}
	case opaqueStr:
		if d, ok := ut_dst.(*types.Basic); ok && d.Kind() == types.String {
			return x, true
		}
		panic(abort{kind: "inconclusive", msg: "opaque string converted"})
	case []value:
		// []byte / []rune -> string with symbolic elements
		if sl, ok := ut_src.(*types.Slice); ok {
			if d, ok := ut_dst.(*types.Basic); ok && d.Kind() == types.String {
				anySym := false
				for _, e := range xs {
					if isSym(e) {
						anySym = true
						break
					}
				}
				if !anySym {
					return nil, false
				}
				switch sl.Elem().Underlying().(*types.Basic).Kind() {
				case types.Byte:
					out := make([]value, len(xs))
					copy(out, xs)
					return mkStr(out), true
				case types.Rune:
					i := ownerOf(xs...)
					var out []value
					for _, e := range xs {
						switch e := e.(type) {
						case *Sym:
							b, _ := strBytes(i.runeToString(e))
							out = append(out, b...)
						default:
							b, _ := strBytes(string(e.(rune)))
							out = append(out, b...)
						}
					}
					return mkStr(out), true
				}
			}
		}
	}
	return nil, false
}

// runeToString encodes a symbolic rune as UTF-8, forking on the length class.
func (i *interpreter) runeToString(r *Sym) value {
	c := i.ctx
	_, rsigned, _ := kindInfo(r.K)
	t := c.Resize(r.T, 32, rsigned)
	if r.T.W > 32 {
		// string(int64) with a value outside int32 is "\uFFFD"
		w := r.T.W
		if i.branch(c.Not(c.Eq(c.Resize(t, w, true), r.T))) {
			return "\uFFFD"
		}
	}
	k := func(v uint64) *sym.Term { return c.BV(v, 32) }
	b8 := func(x *sym.Term) value { return mkSym(c.Extract(7, 0, x), types.Uint8) }
	or := func(x *sym.Term, v uint64) *sym.Term { return c.Bin(sym.OpBOr, x, k(v)) }
	and := func(x *sym.Term, v uint64) *sym.Term { return c.Bin(sym.OpBAnd, x, k(v)) }
	shr := func(x *sym.Term, n uint64) *sym.Term { return c.Bin(sym.OpLShr, x, k(n)) }
	if i.branch(c.Bin(sym.OpUlt, t, k(0x80))) {
		return mkStr([]value{b8(t)})
	}
	if i.branch(c.Bin(sym.OpUlt, t, k(0x800))) {
		return mkStr([]value{b8(or(shr(t, 6), 0xC0)), b8(or(and(t, 0x3F), 0x80))})
	}
	bad := c.Or(c.Not(c.Bin(sym.OpUle, t, k(0x10FFFF))), c.And(c.Bin(sym.OpUle, k(0xD800), t), c.Bin(sym.OpUle, t, k(0xDFFF))))
	if i.branch(bad) {
		return "�"
	}
	if i.branch(c.Bin(sym.OpUlt, t, k(0x10000))) {
		return mkStr([]value{b8(or(shr(t, 12), 0xE0)), b8(or(and(shr(t, 6), 0x3F), 0x80)), b8(or(and(t, 0x3F), 0x80))})
	}
	return mkStr([]value{b8(or(shr(t, 18), 0xF0)), b8(or(and(shr(t, 12), 0x3F), 0x80)), b8(or(and(shr(t, 6), 0x3F), 0x80)), b8(or(and(t, 0x3F), 0x80))})
}

// decodeRune decodes the first rune of s by interpreting the real
// unicode/utf8.DecodeRuneInString from source (forks happen there).
func (i *interpreter) decodeRune(fr *frame, s value) (value, int) {
	if str, ok := s.(string); ok {
		r, n := decodeRuneNative(str)
		return r, n
	}
	pkg := i.prog.ImportedPackage("unicode/utf8")
	if pkg == nil {
		panic(abort{kind: "unsupported", msg: "unicode/utf8 not in program"})
	}
	fn := pkg.Func("DecodeRuneInString")
	res := call(i, fr, token.NoPos, fn, []value{s}).(tuple)
	return res[0], int(asInt64(res[1]))
}

// mapRange iterates a Go map. Go randomises map iteration order; with
// symx.MapOrder(true) every range over a map with 2..3 live entries inside
// origami code takes its order from a fresh symbolic choice (all n! orders are
// explored as sibling paths), up to mapOrderCap ranges per path; otherwise
// insertion order (deterministic replay).
func (i *interpreter) mapRange(fr *frame, m *omap) iter {
	if !i.mapOrderSym || i.path == nil || m == nil || fr == nil || fr.fn.Pkg == nil {
		return &omapIter{m: m}
	}
	if !strings.HasPrefix(fr.fn.Pkg.Pkg.Path(), "github.com/php-any/origami") {
		return &omapIter{m: m}
	}
	var live []int
	for k, e := range m.ents {
		if e.live {
			live = append(live, k)
		}
	}
	n := len(live)
	if n < 2 || n > 3 || i.mapOrderUsed >= mapOrderCap {
		return &omapIter{m: m}
	}
	i.mapOrderUsed++
	nperm := 2
	if n == 3 {
		nperm = 6
	}
	t := i.newInput(fmt.Sprintf("maporder%d", i.mapOrderUsed), "choose", 64)
	c := i.ctx
	i.assume(mkSym(c.Bin(sym.OpUlt, t, c.BV(uint64(nperm), 64)), types.Bool))
	p := i.concretize(&Sym{T: t, K: types.Int})
	perms2 := [][]int{{0, 1}, {1, 0}}
	perms3 := [][]int{{0, 1, 2}, {0, 2, 1}, {1, 0, 2}, {1, 2, 0}, {2, 0, 1}, {2, 1, 0}}
	var perm []int
	if n == 2 {
		perm = perms2[p]
	} else {
		perm = perms3[p]
	}
	ord := make([]int, n)
	for k, pi := range perm {
		ord[k] = live[pi]
	}
	i.curFn = fr.fn
	return &omapIter{m: m, ord: ord}
}

const mapOrderCap = 4

// ---- channels (sequential model; scheduler.go adds threads)

type schan struct {
	capacity int
	buf      []value
	closed   bool
	id       int
	offers   []*offer   // parked senders, plain or registered by a parked select (scheduler mode)
	waiters  []*rwaiter // parked receivers, plain or registered by a parked select (scheduler mode)
}

func (i *interpreter) makeChan(n int) *schan {
	return &schan{capacity: n}
}

func (i *interpreter) chanLen(c *schan) int {
	if c == nil {
		return 0
	}
	if i.sched != nil {
		i.sched.visible(i, "len", c)
	}
	return len(c.buf)
}

// ---- engine entry points used by the driver

// PathResult summarises one explored path.
type PathResult struct {
	Kind string // done | violation | unsupported | fuel | inconclusive | infeasible | panic | depth
	Msg  string
}

// Setup runs fn concretely (no path, no undo log) and then switches the undo log on.
func (w *Worker) Setup(fn *ssa.Function) (err error) {
	i := w.i
	defer func() {
		if r := recover(); r != nil {
			err = fmt.Errorf("setup failed: %v", describePanic(r))
		}
	}()
	i.fuel = 1 << 60
	if fn != nil {
		call(i, nil, token.NoPos, fn, nil)
	}
	i.undoOn = true
	return nil
}

// runPath executes fn once following the given work item.
func (w *Worker) runPath(fn *ssa.Function, it workItem, fuel int64, exp *Explorer) (res PathResult) {
	i := w.i
	p := &pathState{prefix: it.prefix, model: it.model, varSeen: map[string]bool{}, reached: map[string]bool{}}
	if p.model == nil {
		p.model = sym.Model{}
	}
	p.ev = sym.NewEvaluator(p.model)
	i.path = p
	i.exp = exp
	i.fuel = fuel
	i.fuelStart = fuel
	i.softFuelAt = -1
	i.mapOrderSym = false
	i.softOpaque = false
	i.mapOrderUsed = 0
	i.depth = 0
	i.panicSite = ""
	if i.sched != nil {
		i.sched.reset()
	}
	defer func() {
		r := recover()
		if i.sched != nil && i.sched.enabled {
			// stop every engine thread before touching the heap again
			f, site := i.sched.drain()
			if a, ok := r.(abort); ok && a.kind == "killed" {
				r = f
				if site != "" {
					i.panicSite = site
				}
			} else if r == nil && f != nil {
				r = f
				if site != "" {
					i.panicSite = site
				}
			}
		}
		if r != nil {
			switch a := r.(type) {
			case abort:
				res = PathResult{Kind: a.kind, Msg: a.msg}
				if a.kind == "inconclusive" && i.softOpaque && strings.Contains(a.msg, "opaque string") {
					// inside a symx.SoftOpaque scope: the path simply stops here (outcome: still running)
					res = PathResult{Kind: "done", Msg: "stopped at an opaque (formatted symbolic number) string"}
				}
				if a.kind == "unsupported" && i.softOpaque && strings.HasPrefix(a.msg, "math.") {
					// same scope: the run reached a transcendental function of a symbolic number (math.Pow,
					// math.Mod): the path stops there, like a run that used up its soft budget
					res = PathResult{Kind: "done", Msg: "stopped at " + a.msg}
				}
				if a.kind == "deadlock" && (strings.HasPrefix(a.msg, "all threads blocked") || strings.Contains(a.msg, "held mutex")) {
					// every thread of the harness is blocked in the code under test (a lock that is never
					// released, a recursive read lock behind a queued writer, a send nobody receives): the
					// calls never return. Reported as a violation with the blocked operations.
					func() {
						defer func() { recover() }()
						i.violation("deadlock", "deadlock: every goroutine is blocked, the calls never return", a.msg, i.curFnName(), i.path.model, "")
					}()
					res.Kind = "deadlock-violation"
				}
				if a.kind == "fuel" && i.fuelIsViolation {
					site := strings.TrimPrefix(a.msg, "instruction budget exhausted in ")
					func() {
						defer func() { recover() }()
						i.fuelViolation(a.msg, site)
					}()
					res.Kind = "fuel-violation"
				}
			default:
				// a Go panic escaped the harness entry point
				msg := describePanic(r)
				site := i.panicSite
				if site == "" {
					site = "?"
				}
				func() {
					defer func() {
						if r2 := recover(); r2 != nil {
							res = PathResult{Kind: "inconclusive", Msg: fmt.Sprint("while reporting panic: ", r2)}
						}
					}()
					i.escapedPanic(msg, site)
				}()
				if res.Kind == "" {
					res = PathResult{Kind: "panic", Msg: msg + " @ " + site}
				}
			}
		}
		// stats
		st := i.stats
		st.Paths++
		st.Decisions += int64(len(p.decisions))
		if len(p.decisions) > st.MaxDepth {
			st.MaxDepth = len(p.decisions)
		}
		st.Instr += fuel - i.fuel
		for l := range p.reached {
			st.Reached[l]++
		}
		switch res.Kind {
		case "unsupported":
			st.Unsupported++
			st.UnsuppMsgs[res.Msg]++
		case "inconclusive":
			st.Inconclusive++
			st.InconclMsgs[res.Msg]++
			if os.Getenv("SYMGO_VERBOSE") != "" {
				fmt.Fprintf(os.Stderr, "inconclusive path: %s [%s]\n", res.Msg, i.choiceSummary())
			}
		case "exit", "deadlock":
			st.Inconclusive++
			st.InconclMsgs["path ended by "+res.Kind+" ("+res.Msg+") before the harness finished"]++
		case "fuel", "depth":
			st.FuelOut++
			st.InconclMsgs[res.Kind+": "+res.Msg]++
		}
		if i.collectObserved {
			st.Observed = append(st.Observed, p.observed...)
		}
		if len(st.Samples) < 6 && len(p.inputs) > 0 {
			st.Samples = append(st.Samples, fmt.Sprintf("%s decisions=%d inputs=%v", res.Kind, len(p.decisions), i.modelSnapshot(p.model)))
		}
		i.path = nil
		i.rollback()
	}()
	call(i, nil, token.NoPos, fn, nil)
	if i.sched != nil {
		i.sched.finishMain(i)
	}
	return PathResult{Kind: "done"}
}

// Explore runs the harness function fn to exhaustion (within cfg) on n workers.
// mk creates a fully set-up worker (inits + Setup done).
func Explore(mk func() (*Worker, error), fnOf func(*Worker) *ssa.Function, cfg RunConfig) (*Explorer, error) {
	exp := NewExplorer()
	exp.MaxPaths = cfg.MaxPaths
	exp.StopAfterVio = cfg.StopAfterVio
	if cfg.Timeout > 0 {
		exp.Deadline = time.Now().Add(cfg.Timeout)
	}
	n := cfg.Workers
	if n <= 0 {
		n = 1
	}
	var wg sync.WaitGroup
	var firstErr atomic.Value
	var paths int64
	var mu sync.Mutex
	workers := make([]*Worker, 0, n)
	for k := 0; k < n; k++ {
		wg.Add(1)
		go func(k int) {
			defer wg.Done()
			w, err := mk()
			if err != nil {
				firstErr.CompareAndSwap(nil, err)
				exp.truncate("worker setup failed: " + err.Error())
				return
			}
			mu.Lock()
			workers = append(workers, w)
			mu.Unlock()
			fn := fnOf(w)
			for {
				it, ok := exp.pop()
				if !ok {
					return
				}
				res := w.runPath(fn, it, cfg.Fuel, exp)
				if cfg.Debug {
					fmt.Fprintf(os.Stderr, "[w%d] path %v prefix=%d -> %s %s\n", k, len(it.prefix), len(it.prefix), res.Kind, res.Msg)
				}
				exp.done()
				np := atomic.AddInt64(&paths, 1)
				if cfg.MaxPaths > 0 && np >= cfg.MaxPaths {
					exp.truncate(fmt.Sprintf("path cap %d reached", cfg.MaxPaths))
				}
				if !exp.Deadline.IsZero() && time.Now().After(exp.Deadline) {
					exp.truncate("time budget exhausted")
				}
				if exp.vioBudgetSpent() {
					exp.truncate("stopped after a violation was found (remaining paths not explored)")
				}
			}
		}(k)
	}
	wg.Wait()
	if e := firstErr.Load(); e != nil {
		return exp, e.(error)
	}
	// merge stats
	for _, w := range workers {
		mergeStats(exp.Stats, w.i.stats)
		if w.i.solver != nil {
			exp.Stats.Queries += int64(w.i.solver.Queries)
			exp.Stats.SolverNs += int64(w.i.solver.Time)
			if w.i.solver.Errors > 0 {
				exp.Stats.InconclMsgs["solver errors: "+w.i.solver.LastErr] += int64(w.i.solver.Errors)
			}
		}
		for f := range w.i.symFuncs {
			exp.Stats.Funcs[f.String()] = true
		}
		w.Close()
	}
	exp.mu.Lock()
	left := len(exp.work)
	exp.mu.Unlock()
	if left > 0 && exp.Truncated == "" {
		exp.Truncated = fmt.Sprintf("%d work items left", left)
	}
	return exp, nil
}

func mergeStats(dst, src *Stats) {
	dst.Paths += src.Paths
	dst.Decisions += src.Decisions
	dst.AssertsTotal += src.AssertsTotal
	dst.Discharged += src.Discharged
	dst.Inconclusive += src.Inconclusive
	dst.SolverRetries += src.SolverRetries
	dst.Unsupported += src.Unsupported
	dst.FuelOut += src.FuelOut
	dst.Instr += src.Instr
	if src.MaxDepth > dst.MaxDepth {
		dst.MaxDepth = src.MaxDepth
	}
	for k, v := range src.Reached {
		dst.Reached[k] += v
	}
	for k, v := range src.AssertLabels {
		dst.AssertLabels[k] += v
	}
	for k, v := range src.KnownSeen {
		dst.KnownSeen[k] += v
	}
	for k, v := range src.InconclMsgs {
		dst.InconclMsgs[k] += v
	}
	for k, v := range src.UnsuppMsgs {
		dst.UnsuppMsgs[k] += v
	}
	if len(dst.Samples) < 12 {
		dst.Samples = append(dst.Samples, src.Samples...)
	}
	dst.Observed = append(dst.Observed, src.Observed...)
}

func ptrInt(p *value) uintptr { return uintptr(unsafe.Pointer(p)) }

func (w *Worker) SetParams(p map[string]int) { w.i.params = p }

// FuelIsViolation: exhausting the instruction budget is reported as a
// non-termination candidate (replayed natively under a watchdog) instead of inconclusive.
func (w *Worker) FuelIsViolation(b bool) { w.i.fuelIsViolation = b }

// CollectObserved keeps every symx.Observe line of every path in Stats.Observed (selftest).
func (w *Worker) CollectObserved(b bool) { w.i.collectObserved = b }

// EnableScheduler switches on the bounded thread scheduler for this worker.
func (w *Worker) EnableScheduler(maxPreempt int) {
	if maxPreempt <= 0 {
		maxPreempt = 2
	}
	w.i.sched = &scheduler{enabled: true, maxPreempt: maxPreempt}
}
