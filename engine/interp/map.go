// Insertion-ordered map used for every Go map in the interpreted program.
//
// Replaces both the builtin map[value]value and the custom hashmap of the stock
// interpreter: iteration order is insertion order (so a path is a deterministic
// function of its decision list), every mutation is recorded in the undo log,
// and keys may be symbolic (lookups then case-split over the present keys).

package interp

import (
	"go/types"
)

type hashable interface {
	hash(t types.Type) int
	eq(t types.Type, x any) bool
}

type omapEntry struct {
	key, val value
	live     bool
}

type omap struct {
	kt      types.Type
	ents    []omapEntry
	idx     map[int][]int // hash -> entry indices (concrete keys only)
	n       int           // live entries
	symKeys []int         // indices of entries whose key is symbolic
	noRace  bool          // internally synchronised container (sync.Map model): no race bookkeeping
}

func makeMap(kt types.Type, reserve int64) value {
	return &omap{kt: kt, idx: make(map[int][]int)}
}

func isSymbolicKey(k value) bool {
	switch k := k.(type) {
	case *Sym, symstr:
		return true
	case iface:
		return isSymbolicKey(k.v)
	case structure:
		for _, f := range k {
			if isSymbolicKey(f) {
				return true
			}
		}
	case array:
		for _, f := range k {
			if isSymbolicKey(f) {
				return true
			}
		}
	}
	return false
}

// find returns the index of the live entry equal to k, or -1.
// With symbolic keys involved the comparison forks the path.
func (m *omap) find(i *interpreter, k value) int {
	if m == nil {
		return -1
	}
	if !isSymbolicKey(k) {
		h := hash(m.kt, m.kt, k)
		for _, e := range m.idx[h] {
			if m.ents[e].live && equals(m.kt, m.ents[e].key, k) {
				return e
			}
		}
		for _, e := range m.symKeys {
			if m.ents[e].live && i.symEquals(m.kt, m.ents[e].key, k) {
				return e
			}
		}
		return -1
	}
	// symbolic probe: compare against every live entry (forks)
	for e := range m.ents {
		if m.ents[e].live && i.symEquals(m.kt, m.ents[e].key, k) {
			return e
		}
	}
	return -1
}

func (m *omap) lookup(i *interpreter, k value) (value, bool) {
	if i.sched != nil && m != nil && !m.noRace {
		i.sched.accessCheck(i, m, false, "Go map")
	}
	e := m.find(i, k)
	if e < 0 {
		return nil, false
	}
	return m.ents[e].val, true
}

func (m *omap) insert(i *interpreter, k, v value) {
	if m == nil {
		panic("assignment to entry in nil map")
	}
	if i.sched != nil && !m.noRace {
		i.sched.accessCheck(i, m, true, "Go map")
	}
	if e := m.find(i, k); e >= 0 {
		old := m.ents[e].val
		i.logUndo(func() { m.ents[e].val = old })
		m.ents[e].val = v
		return
	}
	e := len(m.ents)
	m.ents = append(m.ents, omapEntry{key: k, val: v, live: true})
	m.n++
	if isSymbolicKey(k) {
		m.symKeys = append(m.symKeys, e)
		i.logUndo(func() {
			m.ents = m.ents[:e]
			m.n--
			m.symKeys = m.symKeys[:len(m.symKeys)-1]
		})
	} else {
		h := hash(m.kt, m.kt, k)
		m.idx[h] = append(m.idx[h], e)
		i.logUndo(func() {
			m.ents = m.ents[:e]
			m.n--
			l := m.idx[h]
			m.idx[h] = l[:len(l)-1]
		})
	}
}

func (m *omap) delete(i *interpreter, k value) {
	if m == nil {
		return
	}
	if i.sched != nil && !m.noRace {
		i.sched.accessCheck(i, m, true, "Go map")
	}
	e := m.find(i, k)
	if e < 0 {
		return
	}
	m.ents[e].live = false
	m.n--
	i.logUndo(func() { m.ents[e].live = true; m.n++ })
}

func (m *omap) len() int {
	if m == nil {
		return 0
	}
	return m.n
}

type omapIter struct {
	m   *omap
	pos int
	ord []int // optional explicit order (C20: symbolic permutation)
}

func (it *omapIter) next() tuple {
	if it.m == nil {
		return tuple{false, nil, nil}
	}
	if it.ord != nil {
		for it.pos < len(it.ord) {
			e := it.m.ents[it.ord[it.pos]]
			it.pos++
			if e.live {
				return tuple{true, e.key, e.val}
			}
		}
		return tuple{false, nil, nil}
	}
	for it.pos < len(it.m.ents) {
		e := it.m.ents[it.pos]
		it.pos++
		if e.live {
			return tuple{true, e.key, e.val}
		}
	}
	return tuple{false, nil, nil}
}
