package interp

// Symbolic scalars and byte strings for the forked interpreter.

import (
	"fmt"
	"go/token"
	"go/types"
	"math"

	"verif/engine/sym"
)

// Sym is a symbolic scalar of basic kind K (bool, intN, uintN, floatN).
type Sym struct {
	T *sym.Term
	K types.BasicKind
}

// symstr is a string some of whose bytes are symbolic. Length is concrete.
// Invariant: at least one element is *Sym (otherwise it is a Go string).
type symstr struct{ b []value }

// opaqueStr is the result of formatting a symbolic number. It can be carried
// around and concatenated; inspecting it ends the path as inconclusive.
type opaqueStr struct{ desc string }

// symptr is &arr[idx] with a symbolic idx into a concrete array/slice.
type symptr struct {
	elems []value
	idx   *Sym
	et    types.Type
}

func isSym(v value) bool { _, ok := v.(*Sym); return ok }

func kindOf(v value) types.BasicKind {
	switch v := v.(type) {
	case bool:
		return types.Bool
	case int:
		return types.Int
	case int8:
		return types.Int8
	case int16:
		return types.Int16
	case int32:
		return types.Int32
	case int64:
		return types.Int64
	case uint:
		return types.Uint
	case uint8:
		return types.Uint8
	case uint16:
		return types.Uint16
	case uint32:
		return types.Uint32
	case uint64:
		return types.Uint64
	case uintptr:
		return types.Uintptr
	case float32:
		return types.Float32
	case float64:
		return types.Float64
	case *Sym:
		return v.K
	}
	return types.Invalid
}

// kindInfo returns (bit width, signed, float).
func kindInfo(k types.BasicKind) (int, bool, bool) {
	switch k {
	case types.Bool:
		return 0, false, false
	case types.Int, types.Int64:
		return 64, true, false
	case types.Int8:
		return 8, true, false
	case types.Int16:
		return 16, true, false
	case types.Int32:
		return 32, true, false
	case types.Uint, types.Uint64, types.Uintptr:
		return 64, false, false
	case types.Uint8:
		return 8, false, false
	case types.Uint16:
		return 16, false, false
	case types.Uint32:
		return 32, false, false
	case types.Float32:
		return 32, false, true
	case types.Float64:
		return 64, false, true
	}
	panic(fmt.Sprintf("kindInfo: kind %d", k))
}

// rawBits returns the bit pattern of a concrete basic value.
func rawBits(v value) uint64 {
	switch v := v.(type) {
	case bool:
		if v {
			return 1
		}
		return 0
	case int:
		return uint64(v)
	case int8:
		return uint64(uint8(v))
	case int16:
		return uint64(uint16(v))
	case int32:
		return uint64(uint32(v))
	case int64:
		return uint64(v)
	case uint:
		return uint64(v)
	case uint8:
		return uint64(v)
	case uint16:
		return uint64(v)
	case uint32:
		return uint64(v)
	case uint64:
		return v
	case uintptr:
		return uint64(v)
	case float32:
		return uint64(math.Float32bits(v))
	case float64:
		return math.Float64bits(v)
	}
	panic(fmt.Sprintf("rawBits: %T", v))
}

// fromBits builds a concrete Go value of kind k from a bit pattern.
func fromBits(k types.BasicKind, b uint64) value {
	switch k {
	case types.Bool:
		return b != 0
	case types.Int:
		return int(b)
	case types.Int8:
		return int8(b)
	case types.Int16:
		return int16(b)
	case types.Int32:
		return int32(b)
	case types.Int64:
		return int64(b)
	case types.Uint:
		return uint(b)
	case types.Uint8:
		return uint8(b)
	case types.Uint16:
		return uint16(b)
	case types.Uint32:
		return uint32(b)
	case types.Uint64:
		return b
	case types.Uintptr:
		return uintptr(b)
	case types.Float32:
		return math.Float32frombits(uint32(b))
	case types.Float64:
		return math.Float64frombits(b)
	}
	panic(fmt.Sprintf("fromBits: kind %d", k))
}

func (i *interpreter) termOf(v value) *sym.Term {
	if s, ok := v.(*Sym); ok {
		return s.T
	}
	k := kindOf(v)
	w, _, fl := kindInfo(k)
	switch {
	case k == types.Bool:
		return i.ctx.Bool(v.(bool))
	case fl:
		return i.ctx.FPConst(rawBits(v), w)
	}
	return i.ctx.BV(rawBits(v), w)
}

// mkSym wraps t as a value of kind k; constants become concrete Go values.
func mkSym(t *sym.Term, k types.BasicKind) value {
	if t.IsConst() {
		return fromBits(k, t.C)
	}
	return &Sym{T: t, K: k}
}

func ownerOf(vs ...value) *interpreter {
	for _, v := range vs {
		switch v := v.(type) {
		case *Sym:
			return v.T.Ctx.Owner.(*interpreter)
		case symstr:
			for _, b := range v.b {
				if s, ok := b.(*Sym); ok {
					return s.T.Ctx.Owner.(*interpreter)
				}
			}
		}
	}
	panic("ownerOf: no symbolic operand")
}

func rtPanic(msg string) {
	panic("runtime error: " + msg)
}

// symBinop implements binop when at least one scalar operand is symbolic.
func symBinop(op token.Token, x, y value) value {
	i := ownerOf(x, y)
	c := i.ctx
	k := kindOf(x)
	if k == types.Invalid {
		k = kindOf(y)
	}
	// shifts: operands may have different kinds
	if op == token.SHL || op == token.SHR {
		k = kindOf(x)
		w, signed, _ := kindInfo(k)
		yk := kindOf(y)
		yw, ysigned, _ := kindInfo(yk)
		yt := i.termOf(y)
		if ysigned {
			if i.branch(c.Bin(sym.OpSlt, yt, c.BV(0, yw))) {
				panic("negative shift amount")
			}
		}
		var amt *sym.Term
		switch {
		case yw == w:
			amt = yt
		case yw < w:
			amt = c.ZExt(w-yw, yt)
		default:
			big := c.Not(c.Bin(sym.OpUlt, yt, c.BV(uint64(w), yw)))
			amt = c.Ite(big, c.BV(uint64(w), w), c.Extract(w-1, 0, yt))
		}
		xt := i.termOf(x)
		switch {
		case op == token.SHL:
			return mkSym(c.Bin(sym.OpShl, xt, amt), k)
		case signed:
			return mkSym(c.Bin(sym.OpAShr, xt, amt), k)
		default:
			return mkSym(c.Bin(sym.OpLShr, xt, amt), k)
		}
	}
	w, signed, fl := kindInfo(k)
	xt, yt := i.termOf(x), i.termOf(y)
	if k == types.Bool {
		switch op {
		case token.EQL:
			return mkSym(c.Eq(xt, yt), types.Bool)
		case token.NEQ:
			return mkSym(c.Not(c.Eq(xt, yt)), types.Bool)
		case token.AND, token.LAND:
			return mkSym(c.And(xt, yt), types.Bool)
		case token.OR, token.LOR:
			return mkSym(c.Or(xt, yt), types.Bool)
		}
		panic(fmt.Sprintf("symBinop: bool op %s", op))
	}
	if fl {
		switch op {
		case token.ADD:
			return mkSym(c.Bin(sym.OpFAdd, xt, yt), k)
		case token.SUB:
			return mkSym(c.Bin(sym.OpFSub, xt, yt), k)
		case token.MUL:
			return mkSym(c.Bin(sym.OpFMul, xt, yt), k)
		case token.QUO:
			return mkSym(c.Bin(sym.OpFDiv, xt, yt), k)
		case token.LSS:
			return mkSym(c.Bin(sym.OpFLt, xt, yt), types.Bool)
		case token.LEQ:
			return mkSym(c.Bin(sym.OpFLe, xt, yt), types.Bool)
		case token.GTR:
			return mkSym(c.Bin(sym.OpFLt, yt, xt), types.Bool)
		case token.GEQ:
			return mkSym(c.Bin(sym.OpFLe, yt, xt), types.Bool)
		case token.EQL:
			return mkSym(c.Bin(sym.OpFEq, xt, yt), types.Bool)
		case token.NEQ:
			return mkSym(c.Not(c.Bin(sym.OpFEq, xt, yt)), types.Bool)
		}
		panic(fmt.Sprintf("symBinop: float op %s", op))
	}
	_ = w
	switch op {
	case token.ADD:
		return mkSym(c.Bin(sym.OpAdd, xt, yt), k)
	case token.SUB:
		return mkSym(c.Bin(sym.OpSub, xt, yt), k)
	case token.MUL:
		return mkSym(c.Bin(sym.OpMul, xt, yt), k)
	case token.QUO, token.REM:
		if i.branch(c.Eq(yt, c.BV(0, w))) {
			rtPanic("integer divide by zero")
		}
		var o sym.Op
		switch {
		case op == token.QUO && signed:
			o = sym.OpSDiv
		case op == token.QUO:
			o = sym.OpUDiv
		case signed:
			o = sym.OpSRem
		default:
			o = sym.OpURem
		}
		return mkSym(c.Bin(o, xt, yt), k)
	case token.AND:
		return mkSym(c.Bin(sym.OpBAnd, xt, yt), k)
	case token.OR:
		return mkSym(c.Bin(sym.OpBOr, xt, yt), k)
	case token.XOR:
		return mkSym(c.Bin(sym.OpBXor, xt, yt), k)
	case token.AND_NOT:
		return mkSym(c.Bin(sym.OpBAnd, xt, c.Un(sym.OpBNot, yt)), k)
	case token.LSS, token.LEQ, token.GTR, token.GEQ:
		a, b := xt, yt
		if op == token.GTR || op == token.GEQ {
			a, b = yt, xt
		}
		var o sym.Op
		strict := op == token.LSS || op == token.GTR
		switch {
		case strict && signed:
			o = sym.OpSlt
		case strict:
			o = sym.OpUlt
		case signed:
			o = sym.OpSle
		default:
			o = sym.OpUle
		}
		return mkSym(c.Bin(o, a, b), types.Bool)
	case token.EQL:
		return mkSym(c.Eq(xt, yt), types.Bool)
	case token.NEQ:
		return mkSym(c.Not(c.Eq(xt, yt)), types.Bool)
	}
	panic(fmt.Sprintf("symBinop: int op %s", op))
}

func symUnop(op token.Token, x *Sym) value {
	c := x.T.Ctx
	_, _, fl := kindInfo(x.K)
	switch op {
	case token.SUB:
		if fl {
			return mkSym(c.Un(sym.OpFNeg, x.T), x.K)
		}
		return mkSym(c.Un(sym.OpNeg, x.T), x.K)
	case token.NOT:
		return mkSym(c.Not(x.T), types.Bool)
	case token.XOR:
		return mkSym(c.Un(sym.OpBNot, x.T), x.K)
	}
	panic(fmt.Sprintf("symUnop: %s", op))
}

// symConvNum converts symbolic numeric x to basic kind dk.
func symConvNum(x *Sym, dk types.BasicKind) value {
	c := x.T.Ctx
	sw, ssigned, sfl := kindInfo(x.K)
	dw, dsigned, dfl := kindInfo(dk)
	switch {
	case !sfl && !dfl:
		return mkSym(c.Resize(x.T, dw, ssigned), dk)
	case !sfl && dfl:
		if ssigned {
			return mkSym(c.SBVToF(x.T, dw), dk)
		}
		return mkSym(c.UBVToF(x.T, dw), dk)
	case sfl && dfl:
		return mkSym(c.FToF(x.T, dw), dk)
	default: // float -> int. GOARCH=amd64 semantics.
		f := c.FToF(x.T, 64)
		mk := func(bits int, signed bool) *sym.Term {
			if signed {
				lo := c.FPConst(math.Float64bits(-math.Ldexp(1, bits-1)), 64)
				hi := c.FPConst(math.Float64bits(math.Ldexp(1, bits-1)), 64)
				in := c.And(c.Bin(sym.OpFLe, lo, f), c.Bin(sym.OpFLt, f, hi))
				return c.Ite(in, c.FToSBV(f, bits), c.BV(uint64(1)<<uint(bits-1), bits))
			}
			// uint64(f): amd64 sequence: f < 2^63 ? cvttsd2sq(f) : cvttsd2sq(f-2^63) ^ 1<<63
			two63 := c.FPConst(math.Float64bits(math.Ldexp(1, 63)), 64)
			small := c.Bin(sym.OpFLt, f, two63)
			a := mkInt64(c, f)
			b := c.Bin(sym.OpBXor, mkInt64(c, c.Bin(sym.OpFSub, f, two63)), c.BV(uint64(1)<<63, 64))
			return c.Ite(small, a, b)
		}
		_ = sw
		var t *sym.Term
		switch {
		case dw == 64 && dsigned:
			t = mk(64, true)
		case dw == 64:
			t = mk(64, false)
		case dw == 32 && dsigned:
			t = mk(32, true)
		default:
			// via int64 then truncate (what gc emits for the narrow kinds)
			t = c.Extract(dw-1, 0, mk(64, true))
		}
		return mkSym(t, dk)
	}
}

func mkInt64(c *sym.Ctx, f *sym.Term) *sym.Term {
	lo := c.FPConst(math.Float64bits(-math.Ldexp(1, 63)), 64)
	hi := c.FPConst(math.Float64bits(math.Ldexp(1, 63)), 64)
	in := c.And(c.Bin(sym.OpFLe, lo, f), c.Bin(sym.OpFLt, f, hi))
	return c.Ite(in, c.FToSBV(f, 64), c.BV(uint64(1)<<63, 64))
}

// ---- symbolic strings

func byteTerm(i *interpreter, b value) *sym.Term {
	if s, ok := b.(*Sym); ok {
		return s.T
	}
	return i.ctx.BV(uint64(b.(uint8)), 8)
}

// strBytes returns the byte view of a string-like value.
func strBytes(s value) ([]value, bool) {
	switch s := s.(type) {
	case string:
		b := make([]value, len(s))
		for i := 0; i < len(s); i++ {
			b[i] = s[i]
		}
		return b, true
	case symstr:
		return s.b, true
	}
	return nil, false
}

// mkStr normalises a byte list to a Go string when fully concrete.
func mkStr(b []value) value {
	for _, x := range b {
		if _, ok := x.(*Sym); ok {
			return symstr{b}
		}
	}
	bs := make([]byte, len(b))
	for i, x := range b {
		bs[i] = x.(uint8)
	}
	return string(bs)
}

func isStrLike(v value) bool {
	switch v.(type) {
	case string, symstr, opaqueStr:
		return true
	}
	return false
}

func (i *interpreter) strEqTerm(x, y []value) *sym.Term {
	c := i.ctx
	if len(x) != len(y) {
		return c.False
	}
	t := c.True
	for j := range x {
		t = c.And(t, c.Eq(byteTerm(i, x[j]), byteTerm(i, y[j])))
	}
	return t
}

// strLtTerm: lexicographic x < y.
func (i *interpreter) strLtTerm(x, y []value) *sym.Term {
	c := i.ctx
	n := len(x)
	if len(y) < n {
		n = len(y)
	}
	// build from the end
	t := c.Bool(len(x) < len(y))
	for j := n - 1; j >= 0; j-- {
		a, b := byteTerm(i, x[j]), byteTerm(i, y[j])
		t = c.Or(c.Bin(sym.OpUlt, a, b), c.And(c.Eq(a, b), t))
	}
	return t
}

func symStrBinop(op token.Token, x, y value) value {
	if _, ok := x.(opaqueStr); ok {
		return opaqueOp(op, x, y)
	}
	if _, ok := y.(opaqueStr); ok {
		return opaqueOp(op, x, y)
	}
	xb, _ := strBytes(x)
	yb, _ := strBytes(y)
	if op == token.ADD {
		r := make([]value, 0, len(xb)+len(yb))
		r = append(r, xb...)
		r = append(r, yb...)
		return mkStr(r)
	}
	i := ownerOf(x, y)
	c := i.ctx
	switch op {
	case token.EQL:
		return mkSym(i.strEqTerm(xb, yb), types.Bool)
	case token.NEQ:
		return mkSym(c.Not(i.strEqTerm(xb, yb)), types.Bool)
	case token.LSS:
		return mkSym(i.strLtTerm(xb, yb), types.Bool)
	case token.GTR:
		return mkSym(i.strLtTerm(yb, xb), types.Bool)
	case token.LEQ:
		return mkSym(c.Not(i.strLtTerm(yb, xb)), types.Bool)
	case token.GEQ:
		return mkSym(c.Not(i.strLtTerm(xb, yb)), types.Bool)
	}
	panic(fmt.Sprintf("symStrBinop: %s", op))
}

func opaqueOp(op token.Token, x, y value) value {
	if op == token.ADD {
		return opaqueStr{"concat"}
	}
	panic(abort{kind: "inconclusive", msg: "opaque string inspected (" + op.String() + ")"})
}

// symEquals decides x == y where either may contain symbolic parts, forking.
func (i *interpreter) symEquals(t types.Type, x, y value) bool {
	if isStrLike(x) || isStrLike(y) {
		if _, ok := x.(opaqueStr); ok {
			panic(abort{kind: "inconclusive", msg: "opaque string compared"})
		}
		if _, ok := y.(opaqueStr); ok {
			panic(abort{kind: "inconclusive", msg: "opaque string compared"})
		}
		xb, _ := strBytes(x)
		yb, _ := strBytes(y)
		return i.branch(i.strEqTerm(xb, yb))
	}
	if isSym(x) || isSym(y) {
		r := symBinop(token.EQL, x, y)
		if b, ok := r.(bool); ok {
			return b
		}
		return i.branch(r.(*Sym).T)
	}
	return equals(t, x, y)
}

// selectValue builds the value of elems[idx] for symbolic idx (bounds already
// established: 0 <= idx < len(elems)).
func (i *interpreter) selectValue(elems []value, idx *Sym) value {
	c := i.ctx
	if len(elems) == 0 {
		panic("selectValue: empty")
	}
	switch e0 := elems[0].(type) {
	case structure:
		out := make(structure, len(e0))
		for f := range e0 {
			col := make([]value, len(elems))
			for j := range elems {
				col[j] = elems[j].(structure)[f]
			}
			out[f] = i.selectValue(col, idx)
		}
		return out
	case array:
		out := make(array, len(e0))
		for f := range e0 {
			col := make([]value, len(elems))
			for j := range elems {
				col[j] = elems[j].(array)[f]
			}
			out[f] = i.selectValue(col, idx)
		}
		return out
	}
	k := kindOf(elems[0])
	if k == types.Invalid {
		// non-scalar: all identical? else concretise
		same := true
		for _, e := range elems[1:] {
			if e != elems[0] {
				same = false
				break
			}
		}
		if same {
			return elems[0]
		}
		return elems[i.concretize(idx)]
	}
	iw, _, _ := kindInfo(idx.K)
	// group indices by term identity
	type class struct {
		t    *sym.Term
		idxs []int
	}
	var classes []*class
	byID := map[int]*class{}
	for j, e := range elems {
		t := i.termOf(e)
		cl := byID[t.ID]
		if cl == nil {
			cl = &class{t: t}
			byID[t.ID] = cl
			classes = append(classes, cl)
		}
		cl.idxs = append(cl.idxs, j)
	}
	if len(classes) == 1 {
		return mkSym(classes[0].t, k)
	}
	// largest class becomes the default arm
	big := 0
	for n, cl := range classes {
		if len(cl.idxs) > len(classes[big].idxs) {
			big = n
		}
	}
	res := classes[big].t
	for n, cl := range classes {
		if n == big {
			continue
		}
		// ranges
		cond := c.False
		for a := 0; a < len(cl.idxs); {
			b := a
			for b+1 < len(cl.idxs) && cl.idxs[b+1] == cl.idxs[b]+1 {
				b++
			}
			lo, hi := uint64(cl.idxs[a]), uint64(cl.idxs[b])
			var r *sym.Term
			if lo == hi {
				r = c.Eq(idx.T, c.BV(lo, iw))
			} else {
				r = c.And(c.Bin(sym.OpUle, c.BV(lo, iw), idx.T), c.Bin(sym.OpUle, idx.T, c.BV(hi, iw)))
			}
			cond = c.Or(cond, r)
			a = b + 1
		}
		res = c.Ite(cond, cl.t, res)
	}
	return mkSym(res, k)
}

// boundsCheck forks on idx being inside [0,n); panics (Go runtime error) otherwise.
func (i *interpreter) boundsCheck(idx *Sym, n int) {
	c := i.ctx
	w, _, _ := kindInfo(idx.K)
	// unsigned comparison covers negative signed values too
	var in *sym.Term
	if w < 64 && uint64(n) > (uint64(1)<<uint(w))-1 {
		_, signed, _ := kindInfo(idx.K)
		if !signed {
			return // always in range (e.g. uint8 index into [256]T)
		}
		in = c.Not(c.Bin(sym.OpSlt, idx.T, c.BV(0, w)))
	} else {
		in = c.Bin(sym.OpUlt, idx.T, c.BV(uint64(n), w))
	}
	if !i.branch(in) {
		rtPanic(fmt.Sprintf("index out of range [symbolic] with length %d", n))
	}
}
