package interp

// fmt / errors / strconv models.

import (
	"fmt"
	"go/token"
	"go/types"
	nethttp "net/http"
	"strconv"
	"strings"

	"golang.org/x/tools/go/ssa"
)

// methodOf finds a method by name on the dynamic type t (value or pointer receiver as given).
func (i *interpreter) methodOf(t types.Type, name string) *ssa.Function {
	if t == nil {
		return nil
	}
	mset := i.prog.MethodSets.MethodSet(t)
	for k := 0; k < mset.Len(); k++ {
		sel := mset.At(k)
		if sel.Obj().Name() == name {
			return i.prog.MethodValue(sel)
		}
	}
	return nil
}

// goArg converts an interpreter value to a native Go value for formatting.
// ok=false → a symbolic part is involved.
func (i *interpreter) goArg(fr *frame, v value, depth int) (any, bool) {
	switch x := v.(type) {
	case iface:
		if x.t == nil {
			return nil, true
		}
		if depth < 3 {
			if _, isIface := x.t.Underlying().(*types.Interface); !isIface {
				if m := i.methodOf(x.t, "Error"); m != nil && m.Signature.Params().Len() == 0 {
					s := call(i, fr, token.NoPos, m, []value{x.v})
					g, ok := i.goArg(fr, s, depth+1)
					if !ok {
						return nil, false
					}
					return fmtError{fmt.Sprint(g)}, true
				}
				if m := i.methodOf(x.t, "String"); m != nil && m.Signature.Params().Len() == 0 && m.Signature.Results().Len() == 1 {
					s := call(i, fr, token.NoPos, m, []value{x.v})
					g, ok := i.goArg(fr, s, depth+1)
					if !ok {
						return nil, false
					}
					return fmtStringer{fmt.Sprint(g)}, true
				}
			}
		}
		return i.goArg(fr, x.v, depth+1)
	case *Sym, symstr, opaqueStr:
		return nil, false
	case bool, int, int8, int16, int32, int64, uint, uint8, uint16, uint32, uint64, uintptr, float32, float64, string, complex64, complex128:
		return x, true
	case []value:
		allBytes := len(x) > 0
		for _, e := range x {
			if _, ok := e.(uint8); !ok {
				allBytes = false
				break
			}
		}
		if allBytes {
			b := make([]byte, len(x))
			for k, e := range x {
				b[k] = e.(uint8)
			}
			return b, true
		}
		out := make([]any, len(x))
		for k, e := range x {
			g, ok := i.goArg(fr, e, depth+1)
			if !ok {
				return nil, false
			}
			out[k] = g
		}
		return out, true
	case *value:
		if x == nil {
			return nil, true
		}
		return fmt.Sprintf("0x%x", uintptrOf(x)), true
	case structure:
		return "{struct}", true
	case *omap:
		return "map[...]", true
	case rtype:
		return x.t.String(), true
	}
	return fmt.Sprintf("<%T>", v), true
}

type fmtError struct{ s string }

func (e fmtError) Error() string { return e.s }

type fmtStringer struct{ s string }

func (e fmtStringer) String() string { return e.s }

func uintptrOf(p *value) uintptr { return uintptr(ptrInt(p)) }

// sprintf formats natively when every argument is concrete; with symbolic
// string arguments and only %s/%v/%q-free verbs it concatenates symbolically;
// otherwise the result is an opaque string.
func (i *interpreter) sprintf(fr *frame, format string, args []value) value {
	gargs := make([]any, len(args))
	allConcrete := true
	for k, a := range args {
		g, ok := i.goArg(fr, a, 0)
		if !ok {
			allConcrete = false
		}
		gargs[k] = g
	}
	if allConcrete {
		return fmt.Sprintf(format, gargs...)
	}
	// symbolic: split format on verbs; support %s %v for symstr, %d/%v for Sym → opaque
	var out []value
	argi := 0
	opaque := false
	for p := 0; p < len(format); p++ {
		ch := format[p]
		if ch != '%' {
			out = append(out, ch)
			continue
		}
		if p+1 < len(format) && format[p+1] == '%' {
			out = append(out, uint8('%'))
			p++
			continue
		}
		// parse verb
		q := p + 1
		for q < len(format) && strings.IndexByte("+-# 0123456789.", format[q]) >= 0 {
			q++
		}
		if q >= len(format) || argi >= len(args) {
			opaque = true
			break
		}
		verb := format[q]
		spec := format[p : q+1]
		a := args[argi]
		argi++
		if g, ok := i.goArg(fr, a, 0); ok {
			b, _ := strBytes(fmt.Sprintf(spec, g))
			out = append(out, b...)
		} else {
			u := a
			if itf, ok := a.(iface); ok {
				u = itf.v
			}
			if ss, ok := u.(symstr); ok && (verb == 's' || verb == 'v') && q == p+1 {
				out = append(out, ss.b...)
			} else if ss, ok := u.(symstr); ok && len(ss.b) <= 2 {
				// any other verb (%q, %x, width/flags) over a short symbolic string: case split over
				// every feasible value of each symbolic byte (complete, at most 256 values per byte),
				// then format natively
				bs := make([]byte, len(ss.b))
				for k, e := range ss.b {
					switch x := e.(type) {
					case uint8:
						bs[k] = x
					case *Sym:
						bs[k] = byte(i.concretizeBits(x))
					}
				}
				b, _ := strBytes(fmt.Sprintf(spec, string(bs)))
				out = append(out, b...)
			} else {
				opaque = true
				break
			}
		}
		p = q
	}
	if opaque {
		return opaqueStr{"Sprintf(" + format + ")"}
	}
	return mkStr(out)
}

func (i *interpreter) sprint(fr *frame, args []value, ln bool) value {
	var out []value
	for k, a := range args {
		if ln && k > 0 {
			out = append(out, uint8(' '))
		}
		if g, ok := i.goArg(fr, a, 0); ok {
			b, _ := strBytes(fmt.Sprint(g))
			out = append(out, b...)
			continue
		}
		u := a
		if itf, ok := a.(iface); ok {
			u = itf.v
		}
		if ss, ok := u.(symstr); ok {
			out = append(out, ss.b...)
			continue
		}
		return opaqueStr{"Sprint"}
	}
	if ln {
		out = append(out, uint8('\n'))
	}
	return mkStr(out)
}

// newError builds an *errors.errorString-like error value carrying msg.
func (i *interpreter) newError(fr *frame, msg value) value {
	pkg := i.prog.ImportedPackage("errors")
	return call(i, fr, token.NoPos, pkg.Func("New"), []value{msg})
}

func initFmtExternals() {
	m := map[string]externalFn{
		"fmt.Sprintf": func(fr *frame, a []value) value {
			f, ok := a[0].(string)
			if !ok {
				return opaqueStr{"Sprintf(symbolic format)"}
			}
			return fr.i.sprintf(fr, f, a[1].([]value))
		},
		"fmt.Sprint":   func(fr *frame, a []value) value { return fr.i.sprint(fr, a[0].([]value), false) },
		"fmt.Sprintln": func(fr *frame, a []value) value { return fr.i.sprint(fr, a[0].([]value), true) },
		"fmt.Errorf": func(fr *frame, a []value) value {
			f, _ := a[0].(string)
			args := a[1].([]value)
			msg := fr.i.sprintf(fr, strings.ReplaceAll(f, "%w", "%v"), args)
			// keep the wrapped error reachable for errors.Is/As/Unwrap
			if strings.Contains(f, "%w") {
				for _, x := range args {
					if itf, ok := x.(iface); ok && itf.t != nil && fr.i.methodOf(itf.t, "Error") != nil {
						return fr.i.wrapError(fr, msg, itf)
					}
				}
			}
			return fr.i.newError(fr, msg)
		},
		"fmt.Print": func(fr *frame, a []value) value {
			fr.i.stdout(fr.i.sprint(fr, a[0].([]value), false))
			return tuple{0, iface{}}
		},
		"fmt.Println": func(fr *frame, a []value) value {
			fr.i.stdout(fr.i.sprint(fr, a[0].([]value), true))
			return tuple{0, iface{}}
		},
		"fmt.Printf": func(fr *frame, a []value) value {
			fr.i.stdout(fr.i.sprintf(fr, goStr(a[0]), a[1].([]value)))
			return tuple{0, iface{}}
		},
		"fmt.Fprint": func(fr *frame, a []value) value {
			fr.i.stdout(fr.i.sprint(fr, a[1].([]value), false))
			return tuple{0, iface{}}
		},
		"fmt.Fprintln": func(fr *frame, a []value) value {
			fr.i.stdout(fr.i.sprint(fr, a[1].([]value), true))
			return tuple{0, iface{}}
		},
		"fmt.Fprintf": func(fr *frame, a []value) value {
			fr.i.stdout(fr.i.sprintf(fr, goStr(a[1]), a[2].([]value)))
			return tuple{0, iface{}}
		},

		"strconv.FormatFloat": func(fr *frame, a []value) value {
			f, ok := a[0].(float64)
			if !ok {
				return opaqueStr{"FormatFloat"}
			}
			return strconv.FormatFloat(f, byte(asInt64(a[1])), int(asInt64(a[2])), int(asInt64(a[3])))
		},
		"errors.Is":     extErrorsIs,
		"errors.As":     func(fr *frame, a []value) value { panic(abort{kind: "unsupported", msg: "errors.As"}) },
		"errors.Unwrap": func(fr *frame, a []value) value { return fr.i.unwrap(fr, a[0].(iface)) },
	}
	for k, v := range m {
		externals2[k] = v
	}
}

func (i *interpreter) stdout(s value) {
	if i.path != nil {
		i.path.printed = append(i.path.printed, s)
	}
	if i.path != nil && len(i.path.observed) < 64 {
		i.path.observed = append(i.path.observed, "stdout: "+goStr(s))
	}
}

// wrapError: engine-level wrapped error = struct{msg, inner} kept in a side table.
func (i *interpreter) wrapError(fr *frame, msg value, inner iface) value {
	e := i.newError(fr, msg).(iface)
	if i.wrapped == nil {
		i.wrapped = map[*value]iface{}
	}
	if p, ok := e.v.(*value); ok {
		i.wrapped[p] = inner
		i.logUndo(func() { delete(i.wrapped, p) })
	}
	return e
}

func (i *interpreter) unwrap(fr *frame, e iface) value {
	if e.t == nil {
		return iface{}
	}
	if p, ok := e.v.(*value); ok {
		if in, ok := i.wrapped[p]; ok {
			return in
		}
	}
	if m := i.methodOf(e.t, "Unwrap"); m != nil && m.Signature.Results().Len() == 1 {
		r := call(i, fr, token.NoPos, m, []value{e.v})
		if itf, ok := r.(iface); ok {
			return itf
		}
	}
	return iface{}
}

func extErrorsIs(fr *frame, a []value) value {
	i := fr.i
	err, target := a[0].(iface), a[1].(iface)
	for n := 0; n < 64; n++ {
		if err.t == nil {
			return target.t == nil
		}
		if sameType(err.t, target.t) && types.Comparable(err.t) && equals(err.t, err.v, target.v) {
			return true
		}
		if m := i.methodOf(err.t, "Is"); m != nil && m.Signature.Params().Len() == 1 {
			if r, ok := call(i, fr, token.NoPos, m, []value{err.v, target}).(bool); ok && r {
				return true
			}
		}
		next, _ := i.unwrap(fr, err).(iface)
		err = next
	}
	return false
}

// sortSlice models sort.Slice / sort.SliceStable / slices.SortFunc-like calls:
// stable insertion sort on the interpreter slice, calling the interpreted less.
func sortSlice(fr *frame, a []value) value {
	var sl []value
	switch x := a[0].(type) {
	case iface:
		sl, _ = x.v.([]value)
	case []value:
		sl = x
	}
	less := a[1]
	i := fr.i
	lt := func(p, q int) bool {
		r := call(i, fr, token.NoPos, less, []value{p, q})
		switch r := r.(type) {
		case bool:
			return r
		case *Sym:
			return i.branch(r.T)
		}
		panic("sortSlice: less returned non-bool")
	}
	for p := 1; p < len(sl); p++ {
		for q := p; q > 0 && lt(q, q-1); q-- {
			i.wr(&sl[q])
			i.wr(&sl[q-1])
			sl[q], sl[q-1] = sl[q-1], sl[q]
		}
	}
	return nil
}

func init() {
	externals2["sort.SliceStable"] = sortSlice
	externals2["sort.Slice"] = sortSlice
}

// (*net/http.Cookie).String: net/http's package initialiser is not run (its cookie sanitiser
// tables are package-level values), so the formatting of a cookie is delegated to the native
// net/http: the interpreter struct is copied field by field (by name) into a native http.Cookie.
func extCookieString(fr *frame, a []value) value {
	p, ok := a[0].(*value)
	if !ok || p == nil {
		return ""
	}
	st := (*p).(structure)
	t := fr.fn.Signature.Recv().Type()
	ptr, _ := t.Underlying().(*types.Pointer)
	var sty *types.Struct
	if ptr != nil {
		sty, _ = ptr.Elem().Underlying().(*types.Struct)
	}
	if sty == nil {
		panic(abort{kind: "unsupported", msg: "Cookie.String: unexpected receiver type"})
	}
	var c nethttp.Cookie
	for k := 0; k < sty.NumFields(); k++ {
		v := st[k]
		switch sty.Field(k).Name() {
		case "Name":
			c.Name = mustGoString(v)
		case "Value":
			c.Value = mustGoString(v)
		case "Path":
			c.Path = mustGoString(v)
		case "Domain":
			c.Domain = mustGoString(v)
		case "MaxAge":
			c.MaxAge = int(asInt64(v))
		case "Secure":
			c.Secure, _ = v.(bool)
		case "HttpOnly":
			c.HttpOnly, _ = v.(bool)
		}
	}
	return c.String()
}

func mustGoString(v value) string {
	if s, ok := v.(string); ok {
		return s
	}
	panic(abort{kind: "inconclusive", msg: "symbolic string handed to a natively modelled function"})
}

func init() {
	externals2["(*net/http.Cookie).String"] = extCookieString
}
