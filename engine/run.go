package engine

import (
	"fmt"
	"time"

	"golang.org/x/tools/go/ssa"

	"verif/engine/interp"
)

// RunSpec is one harness exploration.
type RunSpec struct {
	Fn            string         `json:"fn"`     // harness function name, e.g. H_parse
	Setup         string         `json:"setup"`  // optional setup function (run once per worker, concretely)
	Params        map[string]int `json:"params"` // concrete bounds
	Fuel          int64          `json:"fuel"`
	MaxPaths      int64          `json:"max_paths"`
	Timeout       time.Duration  `json:"timeout"`
	StopAfterVio  time.Duration  `json:"stop_after_violation"` // >0: stop this long after the first violation outside the known predicates
	Workers       int            `json:"workers"`
	Sched         bool           `json:"sched"`
	Preempt       int            `json:"preempt"`
	FuelViolation bool           `json:"fuel_violation"`
	Collect       bool           `json:"-"`
	Debug         bool           `json:"-"`
}

// Run explores one harness function exhaustively within spec.
func (l *Loaded) Run(spec RunSpec, solver string, solverMs int) (*interp.Explorer, error) {
	fn := l.Main.Func(spec.Fn)
	if fn == nil {
		return nil, fmt.Errorf("harness function %s not found in %s", spec.Fn, l.Main.Pkg.Path())
	}
	var setup *ssa.Function
	if spec.Setup != "" {
		setup = l.Main.Func(spec.Setup)
		if setup == nil {
			return nil, fmt.Errorf("setup function %s not found", spec.Setup)
		}
	}
	if spec.Fuel == 0 {
		spec.Fuel = 3_000_000
	}
	mk := func() (*interp.Worker, error) {
		w, err := l.P.NewWorker(solver, solverMs)
		if err != nil {
			return nil, err
		}
		w.SetParams(spec.Params)
		w.FuelIsViolation(spec.FuelViolation)
		w.CollectObserved(spec.Collect)
		if spec.Sched {
			w.EnableScheduler(spec.Preempt)
		}
		if err := w.RunInits(l.Main); err != nil {
			return nil, err
		}
		if err := w.Setup(setup); err != nil {
			return nil, err
		}
		return w, nil
	}
	cfg := interp.RunConfig{Workers: spec.Workers, Fuel: spec.Fuel, MaxPaths: spec.MaxPaths, Timeout: spec.Timeout, StopAfterVio: spec.StopAfterVio, Debug: spec.Debug}
	return interp.Explore(mk, func(*interp.Worker) *ssa.Function { return fn }, cfg)
}
