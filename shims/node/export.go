package node

// Export shim for /verif harnesses (overlay only).

// VerifSuperglobalCells returns the addresses of the package-level superglobal caches.
func VerifSuperglobalCells() []any {
	return []any{&getValue, &postValue, &serverValue, &requestValue, &cookieValue}
}
