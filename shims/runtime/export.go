package runtime

// Export shim for /verif harnesses (overlay only).

// VerifRegistryMaps returns the VM's registry maps (for marking them as shared in the scheduler).
func (vm *VM) VerifRegistryMaps() []any {
	// the list of map-typed fields of VM is generated from runtime's current source (engine/load.go expandShim)
	return []any{ /*verif:mapfields vm VM*/ nil}
}
