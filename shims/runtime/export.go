package runtime

// Export shim for /verif harnesses (overlay only).

// VerifRegistryMaps returns the VM's registry maps (for marking them as shared in the scheduler).
func (vm *VM) VerifRegistryMaps() []any {
	return []any{vm.classMap, vm.interfaceMap, vm.funcMap, vm.constantMap, vm.globalVars}
}
