package http

import (
	httpsrc "net/http"

	"github.com/php-any/origami/data"
)

// Export shim for /verif harnesses (injected as an overlay; never written to /repo).

type BufferedWriter = bufferedWriter

func NewBufferedWriterForVerif(w httpsrc.ResponseWriter) *bufferedWriter { return newBufferedWriter(w) }
func (b *bufferedWriter) VerifState() (status int, statusSet, headerSent bool) {
	return b.status, b.statusSet, b.headerSent
}
func (b *bufferedWriter) VerifSetState(status int, statusSet, headerSent bool) {
	b.status, b.statusSet, b.headerSent = status, statusSet, headerSent
}
func (b *bufferedWriter) VerifCommitPending() { b.commitPending() }

// VerifApplyMiddlewares runs the real applyMiddlewares on entries built from
// (priority, fn) pairs.
func VerifApplyMiddlewares(final httpsrc.Handler, prio []int, fns []MiddlewareFunc) httpsrc.Handler {
	var es []middlewareEntry
	for i := range prio {
		es = append(es, middlewareEntry{priority: prio[i], fn: fns[i]})
	}
	return applyMiddlewares(final, es)
}

// VerifNewMiddleware builds the closure-middleware wrapper exactly as Server::middleware() does.
func VerifNewMiddleware(v data.FuncStmt, ctx data.Context) (MiddlewareFunc, error) {
	return newMiddleware(v, ctx)
}

// VerifWithErrorHandler wraps next exactly as a server with an onError callback does.
func VerifWithErrorHandler(fn data.FuncStmt, ctx data.Context, next httpsrc.Handler) httpsrc.Handler {
	return withErrorHandler(&ServerClass{errorHandler: &errorHandlerSlot{fn: fn, ctx: ctx}}, next)
}
