package channel

// Export shim for /verif harnesses (overlay only).

func (c *Channel) VerifClosedPtr() *bool { return &c.closed }
