#!/bin/bash
# usage: run_check.sh <Cxx> <quick|thorough>
# Rebuilds the driver from /verif sources, regenerates the SSA encoding from
# /repo's current working tree and decides the property with the SMT solver.
cd "$(dirname "$0")" || exit 2
. ./env.sh
export GOCACHE=${GOCACHE:-$HOME/.cache/go-build}
mkdir -p bin
go build -o bin/vcheck ./cmd/vcheck || { echo "driver build failed"; exit 2; }
exec ./bin/vcheck check --tier "${2:-quick}" "$1"
