#!/bin/bash
# Offline build of the framework + engine conformance self-test.
cd "$(dirname "$0")" || exit 2
. ./env.sh
mkdir -p bin evidence replay
go build -o bin/vcheck ./cmd/vcheck || exit 1
for s in z3-new /usr/bin/z3 cvc5; do command -v $s >/dev/null || { echo "missing solver $s"; exit 1; }; done
./bin/vcheck selftest || exit 1
echo setup ok
