package main

var checks = map[string]Check{}

func init() {
	reg := func(c Check) { checks[c.ID] = c }
	n := func(k int) map[string]int { return map[string]int{"n": k} }

	reg(Check{
		ID:  "C14",
		Pkg: "verif/harness/c14",
		Runs: []RunDef{
			{Fn: "H_parse_nil", Params: n(0), Tier: "quick"},
			{Fn: "H_parse_nil", Params: n(1), Tier: "quick"},
			{Fn: "H_parse_nil", Params: n(2), Tier: "quick"},
			{Fn: "H_parse_nil", Params: n(3), Tier: "quick"},
			{Fn: "H_parse_nil", Params: n(4), Tier: "quick"},
			{Fn: "H_parse", Params: n(1), Tier: "quick", Reach: []string{"rejected"}},
			{Fn: "H_parse", Params: n(2), Tier: "quick", Reach: []string{"accepted", "rejected"}},
			{Fn: "H_parse", Params: n(3), Tier: "quick", Reach: []string{"accepted", "rejected"}},
			{Fn: "H_parse", Params: n(4), Tier: "quick", Reach: []string{"accepted", "rejected"}},
			{Fn: "H_parse", Params: n(5), Tier: "thorough", Reach: []string{"accepted", "rejected"}},
			{Fn: "H_parse", Params: n(6), Tier: "thorough", Reach: []string{"accepted", "rejected"}},
		},
		Rule: "one state = one feasible path of the real code over a fully symbolic input of the stated length; " +
			"an assertion is discharged by an unsat answer for PC ∧ ¬assertion (all inputs on the path), " +
			"distinct paths have pairwise disjoint path conditions",
	})
}
