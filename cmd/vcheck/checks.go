package main

var checks = map[string]Check{}

func init() {
	reg := func(c Check) { checks[c.ID] = c }
	n := func(k int) map[string]int { return map[string]int{"n": k} }

	k := func(v int) map[string]int { return map[string]int{"k": v} }
	rule := "one state = one feasible path of the real code over symbolic inputs; an assertion is discharged by an unsat answer " +
		"for PC ∧ ¬assertion, i.e. for every input following that path; distinct paths have disjoint path conditions"

	reg(Check{
		ID:  "C13",
		Pkg: "verif/harness/c13",
		Runs: []RunDef{
			{Fn: "H_hist", Params: k(1), Tier: "quick", Reach: []string{"end"}},
			{Fn: "H_hist", Params: k(2), Tier: "quick", Reach: []string{"end"}},
			{Fn: "H_hist", Params: k(3), Tier: "quick", Reach: []string{"end"}},
			{Fn: "H_hist", Params: k(4), Tier: "thorough", Reach: []string{"end"}},
			{Fn: "H_step", Tier: "quick", Reach: []string{"end"}},
			{Fn: "H_script_hist", Params: k(1), Fuel: 30_000_000, Tier: "quick", Reach: []string{"end"}},
			{Fn: "H_script_hist", Params: k(2), Fuel: 30_000_000, Tier: "quick", Reach: []string{"end"}},
			{Fn: "H_script_hist", Params: k(3), Fuel: 60_000_000, Tier: "thorough", Reach: []string{"end"}},
			{Fn: "H_layers", Fuel: 30_000_000, Tier: "quick", Reach: []string{"end"}},
			{Fn: "H_onerror", Params: k(1), Fuel: 30_000_000, Tier: "quick", Reach: []string{"end"}},
			{Fn: "H_onerror", Params: k(2), Fuel: 30_000_000, Tier: "quick", Reach: []string{"end"}},
			{Fn: "H_mw", Params: n(1), Tier: "quick", Reach: []string{"end"}},
			{Fn: "H_mw", Params: n(2), Tier: "quick", Reach: []string{"end"}},
			{Fn: "H_mw", Params: n(3), Tier: "quick", Reach: []string{"end"}},
			{Fn: "H_mw", Params: n(4), Tier: "quick", Reach: []string{"end"}},
			{Fn: "H_mw", Params: n(5), Tier: "thorough", Reach: []string{"end"}},
		},
		Rule:        rule + "; H_step is the inductive step from an arbitrary state satisfying the representation invariant (covers histories of any length), H_hist enumerates all operation sequences of length k from the initial state with symbolic status codes/payloads; H_script_hist assembles a script handler from k operations out of {status, header, write, html(±code), redirect(±code), noContent(±code), writeHeader, cookie}, parses it with the real parser and serves it through the real Handler.ServeHTTP and ResponseWriter*Method wrappers (argument binding, parameter defaults) with symbolic status codes; H_layers spreads four operations over a closure middleware (before / after $next()) and the handler it wraps; H_onerror lets the handler throw after k operations and an onError callback answer; H_mw checks the middleware order for every priority assignment",
		Assumptions: []string{"status codes in [100,999] (net/http's own precondition)", "recorder commits on first Write like net/http"},
		Outside:     []string{"SendFile, Hijack, Flush, response formatter closures (success/error/format/view/file)", "script-level json() (needs encoding/json) and script histories longer than 3", "histories longer than 4 outside the inductive argument"},
	})

	c03 := func(fn string, p map[string]int) RunDef {
		return RunDef{Fn: fn, Params: p, Tier: "quick", Reach: []string{"end"}}
	}
	reg(Check{
		ID:  "C03",
		Pkg: "verif/harness/c03",
		Runs: []RunDef{
			c03("H_int_arith", nil), c03("H_int_unary", nil), c03("H_int_div", nil), c03("H_float_arith", nil), c03("H_float_rem", nil),
			c03("H_mixed_arith", nil), c03("H_shift", nil), c03("H_cmp_int", nil), c03("H_cmp_float", nil), c03("H_cmp_mixed", nil), c03("H_cmp_bool", nil),
			c03("H_cmp_numeric_strings", nil), c03("H_cmp_literal", nil),
			c03("H_cmp_string", map[string]int{"n": 0, "m": 0}), c03("H_cmp_string", map[string]int{"n": 1, "m": 0}), c03("H_cmp_string", map[string]int{"n": 0, "m": 1}),
			c03("H_cmp_string", map[string]int{"n": 1, "m": 1}), c03("H_cmp_string", map[string]int{"n": 2, "m": 1}), c03("H_cmp_string", map[string]int{"n": 1, "m": 2}),
			c03("H_cmp_string", map[string]int{"n": 2, "m": 2}),
			c03("H_truth_int", nil), c03("H_truth_float", nil), c03("H_truth_bool", nil), c03("H_truth_null", nil),
			c03("H_truth_string", n(0)), c03("H_truth_string", n(1)), c03("H_truth_string", n(2)),
			c03("H_nocrash", nil), c03("H_nocrash_unary", nil),
			{Fn: "H_eq_laws", Fuel: 30_000_000, Tier: "quick", Reach: []string{"end"}}, c03("H_int_pow", nil),
		},
		Rule:        rule + "; operand payloads are full 64-bit ints / full IEEE doubles (FP theory), strings are symbolic byte tuples of the stated length; templates are parsed by the real lexer+parser on every path",
		Assumptions: []string{"string comparison domain: non-numeric strings (leading byte >= 'A'); NaN ordering excluded", "truthiness of the string \"0\" is only checked for context independence (docs are silent on its value)"},
		Outside:     []string{"casts (int)/(float)/(string)/(bool): need package std, whose import drags database drivers into the SSA program", "string<->number juggling beyond the concrete pool", "** and . with symbolic numbers (number formatting / math.Pow are not encoded): concrete boundary pools there", "strings longer than 2 bytes"},
	})

	c02 := func(fn string) RunDef { return RunDef{Fn: fn, Tier: "quick", Reach: []string{"end"}} }
	reg(Check{
		ID:  "C02",
		Pkg: "verif/harness/c02",
		Runs: []RunDef{c02("H_for_nested"), c02("H_while_nested"), c02("H_foreach"), c02("H_switch_in_for"), c02("H_func_defaults"), c02("H_static_counter"),
			c02("H_locals_isolated"), c02("H_if_chain"), c02("H_match"), c02("H_counter_escapes"), c02("H_return_from_loop"), c02("H_repeated_statements"),
			c02("H_loop_body_exits"), {Fn: "H_static_forms", Fuel: 30_000_000, Tier: "quick", Reach: []string{"end"}}, c02("H_static_recursion"), c02("H_switch_labels"), c02("H_foreach_object_write"), c02("H_for_forms"), c02("H_no_return"), c02("H_foreach_body_writes"), c02("H_foreach_nested_same"), c02("H_match_kinds")},
		Rule:        rule + "; each template is parsed by the real parser on every path and run by the real evaluators with symbolic loop limits/trigger indexes in [-1,3] (unbounded ints where no loop depends on them); exit statement kind and level are enumerated by solver-driven case split; the oracle is the same algorithm in Go executed in the same path; H_loop_body_exits puts break/continue under an if in the middle of the body of every loop kind; H_static_forms: 6 update forms x 3 ways of leaving the function x 3 placements of the static declaration; H_static_recursion: frames of a recursive function share the static; H_switch_labels: duplicate / expression labels and default in every position; H_foreach_object_write: a foreach over an object whose body writes that object terminates and enumerates the entries present at its start",
		Assumptions: []string{"switch fall-through into the next case and a bare 'continue' directly inside switch are not asserted (docs are silent / PHP-specific)"},
		Outside:     []string{"programs outside the 16 templates (H_switch_labels: three cases with labels drawn from {1,2,3} with repetition, default clause in every position, literal and expression labels, symbolic subject)", "loop counts > 3, nesting depth > 2", "generators, goto, strings in conditions"},
	})

	reg(Check{
		ID:  "C04",
		Pkg: "verif/harness/c04",
		Runs: []RunDef{
			{Fn: "H_special", Tier: "quick", Reach: []string{"end"}},
			{Fn: "H_pairs", Tier: "quick", Reach: []string{"end"}},
			{Fn: "H_signed_literals", Fuel: 30_000_000, Tier: "quick", Reach: []string{"end"}},
			{Fn: "H_casts", Fuel: 30_000_000, Tier: "quick", Reach: []string{"end"}},
			{Fn: "H_prefix_chains", Fuel: 30_000_000, Tier: "quick", Reach: []string{"end"}},
			{Fn: "H_triples", Tier: "thorough", Reach: []string{"end"}},
		},
		Rule:        rule + "; all ordered pairs (quick) and triples (thorough) of the 23 binary operators of the table plus 38 unary/ternary/??/assignment/concatenation forms and 4 shapes x 23 operators of sign-fused number literals (`$a -3 * $c`, `$a-3*$c`, `-2 ** $c`, `$a B -2 ** $c`) and 5 cast shapes x 2 casts x 23 operators (`(T)$a B $c`, `$a B (T)$c`, `-(T)$a B $c`, `(T)-$a B $c`, `!(T)$a B $c`) and runs of two or three prefix operators out of {-, !, ~} alone, before and after every binary operator; each is printed with minimal and with full parentheses, both parsed by the real parser and evaluated on symbolic 64-bit ints: two different parse trees are separated by a solver-chosen operand assignment",
		Assumptions: []string{"operands are ints (concrete pool {0,1,2,3,-1} where ** or . is involved: math.Pow / number formatting are not encoded)", "chains inside the non-associative comparison/equality classes are not part of the table", "chains of ?: group to the right (the behaviour of the pinned tree; the table gives only the level of ?:)"},
		Outside:     []string{"the conversion performed by the cast functions of package std (casts are checked for their place in the parse tree with stand-in bool/int conversion functions registered under the names the cast syntax resolves)", "depth 4-5 trees", "float/bool/string operands"},
	})

	reg(Check{
		ID:  "C05",
		Pkg: "verif/harness/c05",
		Runs: []RunDef{
			{Fn: "H_try1", Tier: "quick", Reach: []string{"end"}},
			{Fn: "H_try2", Tier: "quick", Reach: []string{"end"}},
			{Fn: "H_same_object", Tier: "quick", Reach: []string{"end"}},
			{Fn: "H_catch_order", Tier: "quick", Reach: []string{"end"}},
			{Fn: "H_rethrow", Tier: "quick", Reach: []string{"end"}},
			{Fn: "H_messages", Tier: "quick", Reach: []string{"end"}},
			{Fn: "H_abnormal", Fuel: 30_000_000, Tier: "quick", Reach: []string{"end"}},
			{Fn: "H_try_repeated", Fuel: 60_000_000, Tier: "quick", Reach: []string{"end"}},
		},
		Rule:        rule + "; try/catch/finally template inside a loop inside a function with selectors for how the try body (5), the handler (5) and finally (2) exit and which class is thrown (5, incl. a Go-level error), all 250 combinations by solver-driven case split; marker trace and return value compared with the 40-line reference model of B.3; H_catch_order: every thrown class x every ordered pair of catch clause types (first match in source order); H_same_object: the caught object is the thrown one; H_rethrow: every thrown class x every inner clause type, the caught object thrown again is matched by the enclosing try by its original class and keeps its message; H_catch_order: 5 thrown classes x ordered pairs of 8 clause types incl. interfaces implemented by the class / an ancestor / two levels up, handlers with a marker or EMPTY, with finally; H_messages: each object keeps the message it was constructed with (incl. a subclass whose constructor never calls the parent's); H_abnormal: a Go-level failure inside the try body and a throw leaving an included file",
		Assumptions: []string{"a Go-level error (1 % 0) is a Throwable that also matches catch (Exception)"},
		Outside:     []string{"process exit status and stderr of uncaught throwables / parse errors (decided per OS process: no symbolic dimension)", "nesting depth > 2", "hierarchies beyond the 4-class fixture"},
	})

	reg(Check{
		ID:  "C06",
		Pkg: "verif/harness/c06",
		Runs: []RunDef{
			{Fn: "H_alias", Tier: "quick", Reach: []string{"end"}},
			{Fn: "H_reference", Tier: "quick", Reach: []string{"end"}},
			{Fn: "H_callee_writes", Fuel: 30_000_000, Tier: "quick", Reach: []string{"end"}},
		},
		Rule:        rule + "; (shape: list / string-keyed / nested / nested with an empty inner list / list with a string key added later) x (16 aliasing routes: assignment, by-value parameter, return, into/out of a property, into/out of a static property, through a static local, into/out of an element by literal, append, string key and int key, getter method / function / static method returning a stored array) x (12 mutations) x (2 directions) enumerated by solver-driven case split, element values and the written value are symbolic 64-bit ints; oracle = before/after snapshot of the other name inside the same run; shapes incl. associative arrays nested in lists and in each other; mutations incl. a leaf of a nested associative array, a reference taken on a slot, unset; H_callee_writes: 15 ways an array reaches code that writes to it (parameters of every callable kind, variadics, spread, captures, the loop variable of a by-value foreach over rows: the row inside the iterated array is the one observed), the source array is unchanged",
		Assumptions: []string{"sort() cells use a concrete element pool (elements are compared through their string form)"},
		Outside:     []string{"depth-3 shapes, mixed shapes", "std/php/array builtins (only the data methods)", "closure capture (excluded by the property)"},
	})

	c15s := func(nn, mm int, tier string) RunDef {
		return RunDef{Fn: "H_string", Params: map[string]int{"n": nn, "m": mm}, Tier: tier, Reach: []string{"end"}}
	}
	reg(Check{
		ID:  "C15",
		Pkg: "verif/harness/c15",
		Runs: []RunDef{
			{Fn: "H_array", Tier: "quick", Reach: []string{"end"}},
			{Fn: "H_array_text", Fuel: 30_000_000, Tier: "quick", Reach: []string{"end"}},
			{Fn: "H_array_history", Fuel: 30_000_000, Tier: "quick", Reach: []string{"end"}},
			{Fn: "H_join_strings", Fuel: 30_000_000, Tier: "quick", Reach: []string{"end"}},
			c15s(0, 0, "quick"), c15s(0, 1, "quick"), c15s(1, 0, "quick"), c15s(1, 1, "quick"), c15s(2, 0, "quick"), c15s(2, 1, "quick"), c15s(2, 2, "quick"),
			c15s(3, 1, "thorough"), c15s(3, 2, "thorough"), c15s(4, 1, "thorough"), c15s(4, 2, "thorough"),
		},
		Rule:        rule + "; 37 array method cases (every arity incl. omitted optionals and 1-2 variadic items; callbacks with a local variable; reduce with and without an initial value) on receivers of length 0..3 with symbolic 64-bit elements and FULL-RANGE symbolic index/count arguments (negative, zero, = length, beyond, MinInt/MaxInt inside one query), result and receiver-after-call compared with Go reference functions of the documented Node.js semantics; 11 string method cases on printable-ASCII symbolic strings; H_array_text: join() / join(sep) / sort() on receivers drawn from the pool {10, 9, 1, -1, -2, 2} (string comparison order) and flat() / flat(2) / flat(0) on doubly nested lists; H_array_history: method, change of length, same method again on one array; callbacks that use their index argument",
		Assumptions: []string{"indexOf/includes compare elements through their string form: concrete element pool {0,1,-1,7} there", "strings: printable ASCII only; substring asserted on 0 <= a <= b <= len (outside: completes without a crash)", "callbacks are function(...) use (...) closures over ordinary assigned script variables"},
		Outside:     []string{"receivers longer than 3 (strings 4)", "sort()/join() on elements outside the concrete pool, forEach", "multi-byte strings and the unit of length", "callbacks using the array argument"},
	})

	reg(Check{
		ID:  "C07",
		Pkg: "verif/harness/c07",
		Runs: []RunDef{
			{Fn: "H_visibility", Tier: "quick", Reach: []string{"end"}},
			{Fn: "H_types", Tier: "quick", Reach: []string{"end"}},
			{Fn: "H_types_ns", Tier: "quick", Reach: []string{"end"}},
			{Fn: "H_abstract", Tier: "quick", Reach: []string{"end"}},
		},
		Rule:        rule + "; (7 member kinds x 3 modifiers) x (8 access sites incl. code of the declaring class acting on a subclass instance held in a variable, and the same code inherited by a subclass object acting on a base instance) and (6 declared types x 9 runtime value kinds) x (15 boundaries: typed property, static typed property through Class::/self::/static::, parameter and return value of functions, instance methods, static methods, constructors, closures and arrow functions) enumerated completely; H_types_ns: a type name declared in global code or in a namespace against objects of a same-named class of the other namespace (and of its subclass / of an implementor of a same-named interface) at the three basic boundaries by solver-driven case split over one fixture family; the written payload is a symbolic int, so a denied write is shown to leave the member unchanged for every value; every attempt of H_abstract (instantiating an abstract / incomplete class) is made three times in one run, so a verdict cached after the first attempt is observed. The structural dimension is exhaustive enumeration executed through the engine; the universal (solver) part is payload independence",
		Assumptions: []string{"strict typing: a declared scalar type accepts exactly values of that type (no coercion)"},
		Outside:     []string{"hierarchy-shape variation, enum/readonly, traits", "static:: / self:: visibility paths, __get/__set", "types written before the class they name is declared; promoted constructor properties"},
	})

	reg(Check{
		ID:  "C08",
		Pkg: "verif/harness/c08",
		Runs: []RunDef{
			{Fn: "H_iface_chain", Fuel: 30_000_000, Tier: "quick", Reach: []string{"end"}},
			{Fn: "H_parent_chain", Fuel: 30_000_000, Tier: "quick", Reach: []string{"end"}},
			{Fn: "H_self_inherited", Tier: "quick", Reach: []string{"end"}},
			{Fn: "H_scope_instance_method", Tier: "quick"},
			{Fn: "H_like", Params: map[string]int{"small": 1}, Fuel: 30_000_000, Tier: "quickonly", Reach: []string{"end"}},
			{Fn: "H_like", Params: map[string]int{"small": 0}, Fuel: 30_000_000, Tier: "thorough", Reach: []string{"end"}},
			{Fn: "H_hierarchy", Params: map[string]int{"implbits": 16}, Fuel: 30_000_000, Tier: "quickonly", Reach: []string{"end"}},
			{Fn: "H_hierarchy", Params: map[string]int{"implbits": 64}, Fuel: 30_000_000, Tier: "thorough", Reach: []string{"end"}},
		},
		Rule:    rule + "; the hierarchy is the quantified dimension: parent links of 3 classes (single inheritance), extends edge between 2 interfaces, implements matrix, override bits — every shape (quick: 768 with C0 implementing nothing, thorough: all 3072; H_iface_chain: 3 interfaces with every extends shape among them, incl. chains of depth 3; H_parent_chain: a 4-class chain where every class defines m() or inherits it and every definition continues with parent::m() or not, plus static::/self:: helpers; H_like: every parent shape of 3 classes x each class declaring m with 0/1/2 parameters or not at all x a second method n declared at one level x interface parameter count 0..2 x a nominal `implements` edge, `like` against every class and three interfaces, reference = parameter count of the nearest definition) is assembled as script text, registered by the real class/interface parsers and checked for all (object, type) pairs (instanceof, typed parameter, catch) and all dispatch forms (virtual call, parent::, self::, static::, like) against reachability computed by a 15-line closure. No scalar dimension: the engine degenerates to exhaustive bounded enumeration here",
		Outside: []string{"5 classes, 4 interfaces; instanceof/catch/like on the 4-class chain (dispatch only)", "like: methods with more than 2 parameters, more than two methods per target, static methods"},
	})

	reg(Check{
		ID:  "C19",
		Pkg: "verif/harness/c19",
		Runs: []RunDef{
			{Fn: "H_two", Fuel: 20_000_000, Tier: "quick", Reach: []string{"end"}},
			{Fn: "H_members", Fuel: 20_000_000, Tier: "quick", Reach: []string{"end"}},
			{Fn: "H_factory", Fuel: 20_000_000, Tier: "quick", Reach: []string{"end"}},
			{Fn: "H_site_reuse", Fuel: 20_000_000, Tier: "quick", Reach: []string{"end"}},
			{Fn: "H_template_first", Fuel: 20_000_000, Tier: "quick", Reach: []string{"end"}},
			{Fn: "H_pair_two", Fuel: 20_000_000, Tier: "quick", Reach: []string{"end"}},
			{Fn: "H_member_forms", Fuel: 20_000_000, Tier: "quick", Reach: []string{"end"}},
			{Fn: "H_history", Params: k(2), Fuel: 20_000_000, Tier: "quick", Reach: []string{"end"}},
			{Fn: "H_history", Params: k(3), Fuel: 20_000_000, Tier: "quick", Reach: []string{"end"}},
			{Fn: "H_history", Params: k(4), Fuel: 30_000_000, Tier: "thorough", Reach: []string{"end"}},
		},
		Rule:    rule + "; every history of k steps over {instantiate Box<int|string|array|U> into one of 2 slots, write a value of kind int|string|array|U into a slot's T-typed property, pass it to a T-typed method parameter}; the script is assembled per path and parsed by the real generic-class parser; expected acceptance is computed per instance from its own type argument; H_members: Pair<K,V> with three typed members touched in every order; H_two: two instantiations alive at once; H_factory: one new-site evaluated three times (factory function / loop body), objects written in every rotation; H_pair_two: two instantiations of Pair<K,V> over {int,string,U}^2 x {int,string,U}^2 (permuted arguments included), either member of either instance probed with every value kind; H_member_forms: plain / nullable / promoted-constructor / method-parameter / nullable-parameter members of Box<A> against every value kind and null. Structural enumeration through the engine; the int payload is symbolic; H_site_reuse: one assignment / call site executed on two instantiations; H_member_forms: plain, nullable, promoted, parameter, nullable-parameter and constructor-parameter members",
		Outside: []string{"generic classes with more than two parameters, generic functions", "concurrent instantiation (only sequential orders)", "histories longer than 4"},
	})

	reg(Check{
		ID:  "C12",
		Pkg: "verif/harness/c12",
		Runs: []RunDef{
			{Fn: "H_parse_define", Tier: "quick", Reach: []string{"end"}},
			{Fn: "H_history", Params: k(1), Tier: "quick", Reach: []string{"end"}},
			{Fn: "H_history", Params: k(2), Tier: "quick", Reach: []string{"end"}},
			{Fn: "H_history", Params: k(3), Tier: "thorough", Reach: []string{"end"}},
			{Fn: "H_script", Fuel: 60_000_000, Tier: "quick", Reach: []string{"end"}},
			{Fn: "H_base_code", Fuel: 60_000_000, Tier: "quick", Reach: []string{"end"}},
			{Fn: "H_base_after", Fuel: 60_000_000, Tier: "quick", Reach: []string{"end"}},
			{Fn: "H_base_autoload", Fuel: 60_000_000, Tier: "quick", Reach: []string{"end"}},
			{Fn: "H_base_closure", Fuel: 30_000_000, Tier: "quick", Reach: []string{"end"}},
			{Fn: "H_autoload", Params: k(1), Fuel: 60_000_000, Tier: "quick", Reach: []string{"end"}},
			{Fn: "H_autoload", Params: k(2), Fuel: 60_000_000, Tier: "thorough", Reach: []string{"end"}},
		},
		Rule:    rule + "; every history of k operations (op in {AddClass, AddFunc, AddInterface, GetClass, GetFunc, GetInterface}) x (VM in {base, temp1, temp2}) x (name in {a, A, b}: a case-fold collision and a distinct name); after each step a relational check compares what every other VM resolves for every pool name with what it resolved before the step (no name-matching model needed), and everything the base resolves must be resolvable through each temporary VM; H_autoload (virtual file system with a class file and an interface file below a registered namespace): k load steps (GetOrLoadClass, LoadPkg, GetOrLoadInterface, GetClass, GetInterface on any VM) followed by a probe on a temporary VM must give the probe the same answer as the history without the steps of the other temporary VM (non-interference); H_script: a request script on a temporary VM that declares a class / function / interface, includes a file (virtual file system) or evals code, with or without the same script having run on another temporary VM before: base, other and later temporary VMs resolve what they resolved before; H_base_code: a function defined on the base VM that instantiates / calls / statically calls a name only the requests define gives each of two successive requests its own definition. Finite enumeration through the engine",
		Outside: []string{"histories longer than 3, more than 2 temporary VMs, pools larger than 3 names", "discard operations; autoload histories longer than 2 steps, spl autoload callbacks", "constants (shared with the base by design), class_alias, closures bound across requests"},
	})

	reg(Check{
		ID:  "C20",
		Pkg: "verif/harness/c20",
		Runs: []RunDef{
			{Fn: "H_order", Fuel: 30_000_000, Tier: "quick", Reach: []string{"end"}, NativeRepeat: 300},
			{Fn: "H_ordered_map", Params: k(3), Tier: "quick", Reach: []string{"end"}, NativeRepeat: 300},
			{Fn: "H_ordered_map", Params: k(4), Tier: "quick", Reach: []string{"end"}, NativeRepeat: 300},
			{Fn: "H_ordered_map", Params: k(5), Tier: "thorough", Reach: []string{"end"}, NativeRepeat: 300},
			{Fn: "H_pairs", Fuel: 30_000_000, Tier: "quick", Reach: []string{"end"}},
			{Fn: "H_include", Fuel: 30_000_000, Tier: "quick", Reach: []string{"end"}},
			{Fn: "H_enum_order", Fuel: 30_000_000, Tier: "quick", Reach: []string{"end"}},
			{Fn: "H_file_programs", Fuel: 30_000_000, Tier: "quick", Reach: []string{"end"}},
			{Fn: "H_diagnostics_repeat", Fuel: 30_000_000, Tier: "quick", Reach: []string{"end"}},
			{Fn: "H_array_builtins", Fuel: 30_000_000, Tier: "quick", Reach: []string{"end"}, NativeRepeat: 300},
		},
		Rule:        rule + "; Go's map iteration order is the adversary and is made a symbolic choice: every range over a Go map with 2..3 entries executed inside origami code (up to 4 such ranges per path) takes its order from a fresh symbolic permutation, all orders are explored as sibling paths, and the output must equal the insertion-order run of the same template in the same path; OrderedMap Set/Delete histories against a slice model; all ordered pairs (A then B vs B alone) of the templates on fresh VMs in one engine process; H_enum_order: explicit insertion-order oracle for objects and string-keyed arrays over every order of three names; H_include: two programs including the same file",
		Assumptions: []string{"maps with more than 3 entries and the 5th and later permutable ranges of a path iterate in insertion order"},
		Outside:     []string{"byte-identical diagnostics / exit status across fresh OS processes", "std/php output buffers and spl registries (not loaded)", "programs outside the 17 templates (H_pairs: every ordered pair, the reference run of B is a copy with all class / interface / function names renamed, so nothing remembered per name can mask a leak; H_include: two programs including the same file under the 4 include forms, the first optionally mutating what it got)"},
	})

	c09 := func(fn string, p map[string]int, tier string, pre int) RunDef {
		return RunDef{Fn: fn, Params: p, Tier: tier, Sched: true, Preempt: pre, Reach: []string{"end"}, NativeTwin: "N_close_parked"}
	}
	reg(Check{
		ID:  "C09",
		Pkg: "verif/harness/c09",
		Runs: []RunDef{
			c09("H_pc", map[string]int{"producers": 1}, "quick", 2),
			c09("H_pc", map[string]int{"producers": 2}, "quick", 1),
			c09("H_close_drain", nil, "quick", 2),
			c09("H_two_consumers", nil, "quick", 2),
			c09("H_close_race", nil, "quick", 2),
			c09("H_close_accounting", nil, "quick", 2),
			c09("H_two_senders_late_receiver", nil, "quick", 2),
			c09("H_close_accounting", nil, "thorough", 3),
			c09("H_pc", map[string]int{"producers": 2}, "thorough", 2),
			c09("H_two_consumers", nil, "thorough", 3),
			c09("H_close_race", nil, "thorough", 4),
			c09("H_close_drain", nil, "thorough", 4),
		},
		Rule:        rule + "; goroutines of the harness and the real Channel methods run as engine threads under a baton; at every visible operation (go, chan send/recv/close/len, WaitGroup ops, accesses to Channel.closed) the scheduler decision is a recorded choice and all alternatives are explored, with preemption bounding; Go channels are modelled exactly (FIFO buffer, rendezvous with parked senders and receivers, select with nondeterministic choice among ready cases, close wakes parked senders with a panic), sync.Mutex and sync.Cond at contract level; a vector-clock happens-before relation flags unordered conflicting accesses to Channel.closed; capacity 0..2 enumerated, payloads symbolic; H_close_accounting: two senders, optional receive, close, drain while the senders return: a send reports success iff its value is received exactly once, and once a receive has reported closed-and-drained no value appears",
		Assumptions: []string{"bounded: <= 3 goroutines besides main, <= 2 channel operations per goroutine, preemption bound 2 (1 for two producers) in the quick tier, 2-4 in the thorough tier", "sync.Cond model: waiters queue in arrival order, Broadcast wakes all, Signal wakes the longest-waiting one (Go runtime notifyList order) and nobody if none waits; no spurious wake-ups", "schedule counterexamples replay deterministically in the engine; native confirmation by the directed twin N_close_parked (sender parked on an unbuffered channel, then Close)"},
		Outside:     []string{"more than 4 goroutines / 2 operations each, capacities 3-4 (H_close_accounting: two senders, one receive, close, drain at capacities 0 and 1: a send reports success iff its value is received exactly once)", "script-level spawn closures sharing a frame", "seeded stress under the race detector (different technique family)"},
	})

	reg(Check{
		ID:  "C10",
		Pkg: "verif/harness/c10",
		Runs: []RunDef{
			{Fn: "H_two", Tier: "quickonly", Sched: true, Preempt: 2, Reach: []string{"end"}},
			{Fn: "H_two_fold", Tier: "quick", Sched: true, Preempt: 2, Reach: []string{"end"}},
			{Fn: "H_two_temp", Tier: "quick", Sched: true, Preempt: 2, Reach: []string{"end"}},
			{Fn: "H_two_autoload", Fuel: 60_000_000, Tier: "quick", Sched: true, Preempt: 1, Reach: []string{"end"}, NativeTwin: "N_autoload_same_file"},
			{Fn: "H_two", Tier: "thorough", Sched: true, Preempt: 4, Reach: []string{"end"}},
		},
		Rule:        rule + "; two goroutines issue one call each out of {AddClass, AddFunc, AddInterface, GetClass, GetFunc, SetConstant, GetConstant, EnsureGlobalZVal} on names from a 2-name pool (all 64 x 4 combinations); the five registry maps are marked shared, so every map access and every lock operation is a schedule point and all interleavings within the preemption bound are explored; obligations: no happens-before race on a registry map (vector clocks over RWMutex edges), results equal those of one of the 2 sequential orders run on a fresh VM in the same path, a duplicate name accepted at most once; H_two_fold drives the case-insensitive lookup path (spellings a / A, with a class of the other spelling registered beforehand or not); H_two_autoload: two goroutines load classes from files (virtual file system) through GetOrLoadClass / LoadPkg, preemption bound 1; H_two_temp: two coroutines of one request on the shared temporary VM; sync.RWMutex is modelled with writer preference, a state in which every thread is blocked is a violation",
		Assumptions: []string{"sync.RWMutex modelled at contract level (readers/writer counts, unlock->lock and RUnlock->Lock happens-before edges)", "bounded: 2 goroutines x 1 call, preemption bound 2 (quick) / 4 (thorough)"},
		Outside:     []string{"10^2-10^4 calls, 3-16 goroutines, GOMAXPROCS effects (stress testing is a different technique family)", "call-depth counters, exception handler slots, spl autoload callback list; autoload under preemption bounds above 1"},
	})

	reg(Check{
		ID:  "C11",
		Pkg: "verif/harness/c11",
		Runs: []RunDef{
			{Fn: "H_alone", Fuel: 30_000_000, Tier: "quick", Reach: []string{"end"}},
			{Fn: "H_sequential", Fuel: 30_000_000, Tier: "quick", Reach: []string{"end"}},
			{Fn: "H_two_deep", Fuel: 200_000_000, Tier: "quick", Reach: []string{"end"}},
			{Fn: "H_two", Fuel: 30_000_000, Tier: "quick", Sched: true, Preempt: 2, Reach: []string{"end"}, NativeTwin: "N_reentrant"},
			{Fn: "H_two_locals", Fuel: 30_000_000, Tier: "quick", Sched: true, Preempt: 2, Reach: []string{"end"}, NativeTwin: "N_reentrant"},
			{Fn: "H_two_middleware", Fuel: 30_000_000, Tier: "quick", Sched: true, Preempt: 2, Reach: []string{"end"}, NativeTwin: "N_reentrant"},
			{Fn: "H_two_constructs", Fuel: 30_000_000, Tier: "quick", Sched: true, Preempt: 1, Reach: []string{"end"}, NativeTwin: "N_reentrant"},
			{Fn: "H_two_capture", Fuel: 30_000_000, Tier: "quick", Sched: true, Preempt: 1, Reach: []string{"end"}, NativeTwin: "N_reentrant"},
			{Fn: "H_two_capture", Fuel: 30_000_000, Tier: "thorough", Sched: true, Preempt: 2, Reach: []string{"end"}, NativeTwin: "N_reentrant"},
			{Fn: "H_two_constructs", Fuel: 30_000_000, Tier: "thorough", Sched: true, Preempt: 2, Reach: []string{"end"}, NativeTwin: "N_reentrant"},
			{Fn: "H_two", Fuel: 30_000_000, Tier: "thorough", Sched: true, Preempt: 3, Reach: []string{"end"}, NativeTwin: "N_reentrant"},
			{Fn: "H_two_locals", Fuel: 30_000_000, Tier: "thorough", Sched: true, Preempt: 3, Reach: []string{"end"}, NativeTwin: "N_reentrant"},
		},
		Rule:        rule + "; two requests with distinct parameters are served by the real Handler.ServeHTTP (beginRequest/beginResponse, per-request Context, script handler parsed by the real parser) in two engine threads; the package-level superglobal caches are marked shared so each access is a schedule point and all interleavings within the preemption bound are explored; each response body must equal what the handler yields for that request alone; handler 1 reads $_GET twice around a loop, handler 2 uses the request object, locals, a loop, an array and an object only; H_two_middleware puts a closure middleware (real newMiddleware) around the handler, with a local written before and read after $next(); H_sequential: three requests one after another through handler / middleware / onError / both; H_two_constructs, H_two_capture: handlers built from many call-site kinds and a closure writing to by-value captures; every heap cell stored to while two threads exist is checked against the happens-before relation",
		Assumptions: []string{"requests are built directly (no sockets); the recorder is a plain http.ResponseWriter", "internal/godebug settings read as unset"},
		Outside:     []string{"3-64 requests in flight, middleware stacks deeper than 1, sessions, $_FILES, $_POST/$_COOKIE/$_SERVER handlers", "seeded parallel load (different technique family)"},
	})

	c17 := func(fn string, p map[string]int) RunDef {
		return RunDef{Fn: fn, Params: p, Tier: "quick", Reach: []string{"end"}}
	}
	reg(Check{
		ID:  "C17",
		Pkg: "verif/harness/c17",
		Runs: []RunDef{
			c17("H_int_to_int", nil), c17("H_int_to_sized", nil), c17("H_int_to_bool", nil), c17("H_float_to", nil), c17("H_bool_to", nil),
			c17("H_string_to_string", n(0)), c17("H_string_to_string", n(1)), c17("H_string_to_string", n(2)), c17("H_string_to_string", n(3)),
			c17("H_reflect_int", nil), c17("H_reflect_int64", nil), c17("H_reflect_float", nil), c17("H_reflect_bool", nil),
			c17("H_reflect_str", n(0)), c17("H_reflect_str", n(1)), c17("H_reflect_str", n(2)), c17("H_reflect_str", n(3)),
			c17("H_reflect_arity", nil), c17("H_reflect_nocrash", nil),
			c17("H_reflect_sized", nil), c17("H_reflect_float_to_int", nil), c17("H_reflect_unsigned_result", nil), c17("H_reflect_float_result", nil), c17("H_reflect_defined", nil), c17("H_reflect_float32_param", nil),
			c17("H_reflect_method", n(0)), c17("H_reflect_method", n(1)), c17("H_reflect_method", n(2)),
		},
		Rule:        rule + "; script-side payloads are full-width symbolic ints/doubles/bools and fully symbolic byte strings (incl. non-UTF-8) of the stated length; the reflective path is driven through a real parsed script call; H_reflect_sized: int8/int16/int32/uint8/uint32/uint64 parameters accept exactly the representable values of a full-range symbolic int; H_reflect_float_to_int: a symbolic double passed to an int parameter; H_reflect_method: the methods of a registered struct (ReflectClass / ReflectMethod) for int64, float64, string, bool, int8 and arity 2; H_reflect_float_result: float32 (concrete pool) and float64 (symbolic) results bit for bit",
		Assumptions: []string{"reflect is modelled at contract level (TypeOf/ValueOf/Kind/Bits/NumIn/In/NumMethod/Method/Call with the documented assignability panic/Convert/Int/Uint/Float/String/Bool/IsZero/New/Interface)", "runtime.Caller returns a fixed location"},
		Outside:     []string{"struct fields set through the reflective constructor (FieldByName/Set*), float32 parameters with symbolic values", "arity 3, 64 KiB strings, std/system generated wrappers (all funnel through ConvertFromIndex)"},
	})

	c01 := func(fn string, p map[string]int, tier string, reach ...string) RunDef {
		return RunDef{Fn: fn, Setup: "Setup", Params: p, Tier: tier, Reach: reach, FuelViolation: true}
	}
	reg(Check{
		ID:  "C01",
		Pkg: "verif/harness/c01",
		Runs: []RunDef{
			c01("H_lex", n(0), "quick", "lexed"), c01("H_lex", n(1), "quick", "lexed"),
			c01("H_lex_template", n(0), "quick", "lexed"), c01("H_lex_template", n(1), "quick", "lexed"),
			c01("H_parse", n(0), "quick", "parsed"), c01("H_parse", n(1), "quick", "parsed", "accepted", "rejected"),
			c01("H_php_mid", n(1), "quick", "parsed"), c01("H_php_mid", n(2), "thorough", "parsed"),
			c01("H_html_lex", n(1), "quick", "lexed"), c01("H_html_lex", n(2), "quick", "lexed"), c01("H_html_lex", n(3), "thorough", "lexed"),
			c01("H_html_parse", n(1), "quick", "parsed"), c01("H_html_parse", n(2), "quick", "parsed"), c01("H_html_parse", n(3), "thorough", "parsed"),
			c01("H_parse_php", n(0), "quick", "parsed"), c01("H_parse_php", n(1), "quick", "parsed"), c01("H_parse_php", n(2), "thorough", "parsed"),
			c01("H_lex", n(2), "quick", "lexed"),
			c01("H_parse", map[string]int{"n": 2, "ctx": 0}, "quick", "parsed"),
			{Fn: "H_parse_cost", Setup: "Setup", Params: map[string]int{"d": 6}, Fuel: 300_000_000, Tier: "quick", Reach: []string{"parsed"}},
			{Fn: "H_parse_cost", Setup: "Setup", Params: map[string]int{"d": 10}, Fuel: 600_000_000, Tier: "thorough", Reach: []string{"parsed"}},
			c01("H_snip", n(0), "quick", "parsed", "accepted", "rejected", "ran"),
			c01("H_snip", map[string]int{"n": 1, "lo": 0, "hi": 3}, "quickonly", "parsed", "accepted", "rejected", "ran"),
			c01("H_snip", map[string]int{"n": 1, "lo": 26, "hi": 29}, "quickonly", "parsed", "accepted", "rejected", "ran"),
			c01("H_snip", map[string]int{"n": 1, "lo": 46, "hi": 49}, "quickonly", "parsed", "accepted", "rejected", "ran"),
			c01("H_snip", map[string]int{"n": 1, "lo": 34, "hi": 37}, "quickonly", "parsed", "accepted", "rejected", "ran"),
			c01("H_snip", map[string]int{"n": 0, "pool": 1, "lo": 34, "hi": 49}, "quickonly", "parsed", "accepted", "rejected", "ran"),
			c01("H_snip", map[string]int{"n": 0, "pool": 1}, "thorough", "parsed", "accepted", "rejected", "ran"),
			c01("H_lex_mid", n(1), "quick", "lexed"), c01("H_lex_mid", map[string]int{"n": 2, "lo": 12, "hi": 15}, "quickonly", "lexed"), c01("H_lex_mid", n(2), "thorough", "lexed"),
			c01("H_trunc", n(0), "quick", "parsed", "accepted", "rejected", "ran"),
			c01("H_trunc", map[string]int{"n": 1, "lo": 34, "hi": 46}, "thorough", "parsed", "accepted", "rejected", "ran"),
			c01("H_snip", n(1), "thorough", "parsed", "accepted", "rejected", "ran"),
			c01("H_lex_template", n(2), "thorough", "lexed"),
			c01("H_parse", n(2), "thorough", "parsed"),
			c01("H_lex", map[string]int{"n": 3, "ctx": 0}, "thorough", "lexed"),
		},
		Rule: rule + "; the source is opener ‖ window (31 lexer-state openers, window = n arbitrary bytes at the end) or a one-construct snippet with the window inserted at / replacing every token (n=0: single-token deletion); " +
			"exhausting the instruction budget (3·10^6 SSA instructions, inputs < 120 bytes) during lexing/parsing is reported as non-termination and replayed natively under a watchdog; H_php_mid: a window in the middle of a .php file whose tail holds if:/endif;, else:, foreach:, @end constructs (the alternative-syntax rewriting pass searches across the window); H_html_lex / H_html_parse: sources starting with <!DOCTYPE go to the HTML tokenizer and template parser, an accepted template is rendered; H_parse_cost: 12 families nesting one construct d and d+4 levels deep, the exact SSA instruction count of the deeper parse may be at most 4x that of the shallower one (an exponential parser gives 16x)",
		Assumptions: []string{"class autoload sees an empty file system", "running an accepted program gets a soft budget of 3·10^5 instructions (programs may legitimately loop); only a Go panic is a violation there"},
		Outside:     []string{"windows longer than 3 bytes (2 inside snippets)", "holes in multi-construct files; the 330-file corpus as contexts", "the HTML tokenizer / template parser (<!DOCTYPE path) beyond 16 contexts with a window of 1-2 (3 thorough) bytes", ".php mode beyond 8 openers and 12 sandwiches whose tail holds alternative-syntax constructs (ParseFile with shebang stripping, alternative-syntax conversion and TokenizeTemplate is driven through a virtual file)", "stack-overflow depth (call depth capped at 3000 frames, never reached)"},
	})
	reg(Check{
		ID:  "C18",
		Pkg: "verif/harness/c01",
		Runs: []RunDef{
			c01("H_lex_spans", n(0), "quick", "lexed"), c01("H_lex_spans", n(1), "quick", "lexed"),
			c01("H_lex_spans", n(2), "quick", "lexed"),
			c01("H_lex_spans_mid", n(0), "quick", "lexed"), c01("H_lex_spans_mid", n(1), "quick", "lexed"), c01("H_lex_spans_mid", n(2), "quick", "lexed"),
			c01("H_lex_template_spans", n(0), "quick", "lexed"), c01("H_lex_template_spans", n(1), "quick", "lexed"), c01("H_lex_template_spans", n(2), "quick", "lexed"),
			c01("H_error_line", n(0), "quick", "parsed", "end"), c01("H_error_line", n(1), "quick", "parsed", "end"), c01("H_error_line", n(2), "thorough", "parsed", "end"),
			c01("H_error_line_instring", n(1), "quick", "parsed", "end"), c01("H_error_line_instring", n(2), "quick", "parsed", "end"), c01("H_error_line_instring", n(3), "quick", "parsed", "end"), c01("H_error_line_instring", n(4), "thorough", "parsed", "end"),
			c01("H_lex_spans_mid", n(3), "thorough", "lexed"),
		},
		Rule:    rule + "; span laws asserted on every token of the real Tokenize output for opener ‖ symbolic window: 0<=Start<=End<=len, ordered/non-overlapping, Line = number of '\\n' before Start (sum of ite terms over symbolic bytes), Literal = src[Start:End] for identifier/number/variable tokens; H_lex_template_spans: the same laws on TokenizeTemplate (HTML + <?php ?> blocks, window before / inside / after a block); H_error_line (second clause): a program with one planted fault (5 runtime faults ending in an uncaught throwable, 6 parse faults) on its own line after a neutral construct holding the symbolic window (comment, string, nowdoc, blanks) must carry, in the location the diagnostic prints, the line computed from the symbolic bytes; H_error_line_instring: the faulty interpolation ({$..} or @{..}) sits inside a string / heredoc whose text in front of it is the symbolic window (newlines, CR LF, multi-byte and invalid UTF-8), the reported line must equal the number of newlines before the interpolation",
		Outside: []string{"columns of error locations; a lone CR inside a heredoc body (normalised to a line feed there only); the text written to stderr (the location object the printer formats is checked)", "columns inside re-lexed interpolation fragments", "HTML mode, LSP", "windows > 2 bytes"},
	})

	c14b := func(fn string, nn int, tier string) RunDef {
		return RunDef{Fn: fn, Setup: "Setup", Pkg: "verif/harness/c14b", Params: n(nn), Tier: tier, Reach: []string{"end"}}
	}
	reg(Check{
		ID:  "C14",
		Pkg: "verif/harness/c14",
		Runs: []RunDef{
			{Fn: "H_parse_nil", Params: n(0), Tier: "quick"},
			{Fn: "H_parse_nil", Params: n(1), Tier: "quick"},
			{Fn: "H_parse_nil", Params: n(2), Tier: "quick"},
			{Fn: "H_parse_nil", Params: n(3), Tier: "quick"},
			{Fn: "H_parse_nil", Params: n(4), Tier: "quick"},
			{Fn: "H_parse", Params: n(1), Tier: "quick", Reach: []string{"rejected"}},
			{Fn: "H_parse", Params: n(2), Tier: "quick", Reach: []string{"accepted", "rejected"}},
			{Fn: "H_parse", Params: n(3), Tier: "quick", Reach: []string{"accepted", "rejected"}},
			{Fn: "H_parse", Params: n(4), Tier: "quick", Reach: []string{"accepted", "rejected"}},
			{Fn: "H_parse", Params: n(5), Tier: "thorough", Reach: []string{"accepted", "rejected"}},
			{Fn: "H_parse", Params: n(6), Tier: "thorough", Reach: []string{"accepted", "rejected"}},
			c14b("H_base64", 0, "quick"), c14b("H_base64", 1, "quick"), c14b("H_base64", 2, "quick"), c14b("H_base64", 3, "quick"), c14b("H_base64", 4, "thorough"),
			c14b("H_hex", 0, "quick"), c14b("H_hex", 1, "quick"), c14b("H_hex", 2, "quick"), c14b("H_hex", 3, "quick"),
			c14b("H_url", 0, "quick"), c14b("H_url", 1, "quick"), c14b("H_url", 2, "quick"), c14b("H_url", 3, "thorough"),
			c14b("H_decode_total", 1, "quick"), c14b("H_decode_total", 2, "quick"), c14b("H_decode_total", 3, "quick"), c14b("H_decode_total", 4, "thorough"),
			c14b("H_unserialize_prefixed", 1, "quick"), c14b("H_unserialize_prefixed", 2, "quick"), c14b("H_unserialize_prefixed", 3, "quick"), c14b("H_unserialize_prefixed", 4, "thorough"),
			c14b("H_serialize_roundtrip", 0, "quick"), c14b("H_serialize_roundtrip", 1, "quick"), c14b("H_serialize_roundtrip", 2, "quick"), c14b("H_serialize_roundtrip", 3, "quick"),
			c14b("H_unserialize_exact", 1, "quick"), c14b("H_unserialize_exact", 2, "quick"),
			{Fn: "H_unserialize_exact", Setup: "Setup", Pkg: "verif/harness/c14b", Params: map[string]int{"n": 3, "hi": 26}, Tier: "thorough", Reach: []string{"end"}},
			c14b("H_serialize_float", 0, "quick"),
		},
		Assumptions: []string{"differential oracle for protobuf: the reference library google.golang.org/protobuf/encoding/protowire executed symbolically in the same path", "text codecs run through the real builtin functions of std/php down into encoding/base64, net/url and strconv source"},
		Outside:     []string{"JSON encode/decode and everything behind encoding/json (reflection)", "md5/hash (whole-stream digests)", "float formatting", "inputs longer than 4-6 bytes; depth-70 trees; 4 KiB inputs", "unserialize accepts-exactly beyond 31 contexts with a 1-2 byte window (3 thorough, without the d: contexts: strconv.ParseFloat on three symbolic bytes does not finish); objects (O:) and references are not part of the decoder"},
		Rule: "one state = one feasible path of the real code over a fully symbolic input of the stated length; " +
			"an assertion is discharged by an unsat answer for PC ∧ ¬assertion (all inputs on the path), " +
			"distinct paths have pairwise disjoint path conditions",
	})
}
