package main

var checks = map[string]Check{}

func init() {
	reg := func(c Check) { checks[c.ID] = c }
	n := func(k int) map[string]int { return map[string]int{"n": k} }

	k := func(v int) map[string]int { return map[string]int{"k": v} }
	rule := "one state = one feasible path of the real code over symbolic inputs; an assertion is discharged by an unsat answer " +
		"for PC ∧ ¬assertion, i.e. for every input following that path; distinct paths have disjoint path conditions"

	reg(Check{
		ID:  "C13",
		Pkg: "verif/harness/c13",
		Runs: []RunDef{
			{Fn: "H_hist", Params: k(1), Tier: "quick", Reach: []string{"end"}},
			{Fn: "H_hist", Params: k(2), Tier: "quick", Reach: []string{"end"}},
			{Fn: "H_hist", Params: k(3), Tier: "quick", Reach: []string{"end"}},
			{Fn: "H_hist", Params: k(4), Tier: "thorough", Reach: []string{"end"}},
			{Fn: "H_step", Tier: "quick", Reach: []string{"end"}},
			{Fn: "H_mw", Params: n(1), Tier: "quick", Reach: []string{"end"}},
			{Fn: "H_mw", Params: n(2), Tier: "quick", Reach: []string{"end"}},
			{Fn: "H_mw", Params: n(3), Tier: "quick", Reach: []string{"end"}},
			{Fn: "H_mw", Params: n(4), Tier: "quick", Reach: []string{"end"}},
			{Fn: "H_mw", Params: n(5), Tier: "thorough", Reach: []string{"end"}},
		},
		Rule:        rule + "; H_step is the inductive step from an arbitrary state satisfying the representation invariant (covers histories of any length), H_hist enumerates all operation sequences of length k from the initial state with symbolic status codes/payloads",
		Assumptions: []string{"status codes in [100,999] (net/http's own precondition)", "recorder commits on first Write like net/http", "cookie() is modelled by its effect on the live header map (Header().Set), http.SetCookie's formatting is not executed"},
		Outside:     []string{"SendFile, Hijack, Flush, response formatter closures", "script-level argument conversion of the ResponseWriter*Method wrappers", "histories longer than 4 outside the inductive argument"},
	})

	c03 := func(fn string, p map[string]int) RunDef {
		return RunDef{Fn: fn, Params: p, Tier: "quick", Reach: []string{"end"}}
	}
	reg(Check{
		ID:  "C03",
		Pkg: "verif/harness/c03",
		Runs: []RunDef{
			c03("H_int_arith", nil), c03("H_int_unary", nil), c03("H_int_div", nil), c03("H_float_arith", nil), c03("H_float_rem", nil),
			c03("H_mixed_arith", nil), c03("H_shift", nil), c03("H_cmp_int", nil), c03("H_cmp_float", nil), c03("H_cmp_mixed", nil), c03("H_cmp_bool", nil),
			c03("H_cmp_string", map[string]int{"n": 0, "m": 0}), c03("H_cmp_string", map[string]int{"n": 1, "m": 0}), c03("H_cmp_string", map[string]int{"n": 0, "m": 1}),
			c03("H_cmp_string", map[string]int{"n": 1, "m": 1}), c03("H_cmp_string", map[string]int{"n": 2, "m": 1}), c03("H_cmp_string", map[string]int{"n": 1, "m": 2}),
			c03("H_cmp_string", map[string]int{"n": 2, "m": 2}),
			c03("H_truth_int", nil), c03("H_truth_float", nil), c03("H_truth_bool", nil), c03("H_truth_null", nil),
			c03("H_truth_string", n(0)), c03("H_truth_string", n(1)), c03("H_truth_string", n(2)),
			c03("H_nocrash", nil), c03("H_nocrash_unary", nil),
		},
		Rule:        rule + "; operand payloads are full 64-bit ints / full IEEE doubles (FP theory), strings are symbolic byte tuples of the stated length; templates are parsed by the real lexer+parser on every path",
		Assumptions: []string{"string comparison domain: non-numeric strings (leading byte >= 'A'); NaN ordering excluded", "truthiness of the string \"0\" is only checked for context independence (docs are silent on its value)"},
		Outside:     []string{"casts (int)/(float)/(string)/(bool): need package std, whose import drags database drivers into the SSA program", "string<->number juggling beyond the concrete pool", "** and . with symbolic numbers (number formatting / math.Pow are not encoded): concrete boundary pools there", "strings longer than 2 bytes"},
	})

	c17 := func(fn string, p map[string]int) RunDef { return RunDef{Fn: fn, Params: p, Tier: "quick", Reach: []string{"end"}} }
	reg(Check{
		ID:  "C17",
		Pkg: "verif/harness/c17",
		Runs: []RunDef{
			c17("H_int_to_int", nil), c17("H_int_to_sized", nil), c17("H_int_to_bool", nil), c17("H_float_to", nil), c17("H_bool_to", nil),
			c17("H_string_to_string", n(0)), c17("H_string_to_string", n(1)), c17("H_string_to_string", n(2)), c17("H_string_to_string", n(3)),
			c17("H_reflect_int", nil), c17("H_reflect_int64", nil), c17("H_reflect_float", nil), c17("H_reflect_bool", nil),
			c17("H_reflect_str", n(0)), c17("H_reflect_str", n(1)), c17("H_reflect_str", n(2)), c17("H_reflect_str", n(3)),
			c17("H_reflect_arity", nil), c17("H_reflect_nocrash", nil),
		},
		Rule:        rule + "; script-side payloads are full-width symbolic ints/doubles/bools and fully symbolic byte strings (incl. non-UTF-8) of the stated length; the reflective path is driven through a real parsed script call",
		Assumptions: []string{"reflect is modelled at contract level (TypeOf/ValueOf/Kind/NumIn/In/Call with the documented assignability panic/Convert/Int/Float/String/Bool)", "runtime.Caller returns a fixed location"},
		Outside:     []string{"convertTypeAlias (reflection on named types) and struct methods via reflect_class.go", "arity 3, 64 KiB strings, std/system generated wrappers (all funnel through ConvertFromIndex)"},
	})

	reg(Check{
		ID:  "C14",
		Pkg: "verif/harness/c14",
		Runs: []RunDef{
			{Fn: "H_parse_nil", Params: n(0), Tier: "quick"},
			{Fn: "H_parse_nil", Params: n(1), Tier: "quick"},
			{Fn: "H_parse_nil", Params: n(2), Tier: "quick"},
			{Fn: "H_parse_nil", Params: n(3), Tier: "quick"},
			{Fn: "H_parse_nil", Params: n(4), Tier: "quick"},
			{Fn: "H_parse", Params: n(1), Tier: "quick", Reach: []string{"rejected"}},
			{Fn: "H_parse", Params: n(2), Tier: "quick", Reach: []string{"accepted", "rejected"}},
			{Fn: "H_parse", Params: n(3), Tier: "quick", Reach: []string{"accepted", "rejected"}},
			{Fn: "H_parse", Params: n(4), Tier: "quick", Reach: []string{"accepted", "rejected"}},
			{Fn: "H_parse", Params: n(5), Tier: "thorough", Reach: []string{"accepted", "rejected"}},
			{Fn: "H_parse", Params: n(6), Tier: "thorough", Reach: []string{"accepted", "rejected"}},
		},
		Rule: "one state = one feasible path of the real code over a fully symbolic input of the stated length; " +
			"an assertion is discharged by an unsat answer for PC ∧ ¬assertion (all inputs on the path), " +
			"distinct paths have pairwise disjoint path conditions",
	})
}
