package main

func cmdSelftest(args []string) int { return 0 }
