package main

import (
	"encoding/json"
	"fmt"
	"os"
	"os/exec"
	"path/filepath"
	"sort"
	"strings"
	"time"

	"verif/engine"
)

// cmdSelftest validates the translator against the real code (DESIGN.md §3.6):
//
//  1. conformance twins: concrete vectors (the repository's own lexer/protowire test inputs and a
//     broad script) run natively and under the engine; the observation logs must be identical;
//  2. pinned-symbolic twins: the symbolic machinery on inputs pinned by an assumption must agree
//     with the concrete run inside the same path (all 256 byte values, boundary ints);
//  3. solver agreement: a set of harnesses is decided with z3 5.1 (z3-new), cvc5 and z3 4.8.12;
//     path, obligation, discharge and violation counts must be identical.
func cmdSelftest(args []string) int {
	t0 := time.Now()
	fail := 0
	l, err := engine.Load(verifDir(), "verif/harness/selftest")
	if err != nil {
		fmt.Fprintln(os.Stderr, "selftest load:", err)
		return 1
	}
	bin, err := buildNative("verif/harness/selftest", l)
	if err != nil {
		fmt.Fprintln(os.Stderr, "selftest native build:", err)
		return 1
	}
	defer os.RemoveAll(filepath.Dir(bin))
	empty := filepath.Join(filepath.Dir(bin), "empty.json")
	os.WriteFile(empty, []byte(`{"inputs":{},"params":{}}`), 0o644)

	// 1. conformance twins
	for _, fn := range []string{"H_lex_vectors", "H_protowire_vectors", "H_script_vector", "H_vfs_vector"} {
		exp, err := l.Run(engine.RunSpec{Fn: fn, Workers: 1, Fuel: 200_000_000, Collect: true}, "z3-new", 60000)
		if err != nil {
			fmt.Println("selftest", fn, "engine error:", err)
			fail++
			continue
		}
		var eng []string
		for _, o := range exp.Stats.Observed {
			eng = append(eng, o)
		}
		cmd := exec.Command("timeout", "-s", "KILL", "60", bin, fn)
		cmd.Env = append(os.Environ(), "SYMX_REPLAY="+empty, "SYMX_VERBOSE=1")
		out, _ := cmd.CombinedOutput()
		var nat []string
		for _, line := range strings.Split(string(out), "\n") {
			if strings.HasPrefix(line, "SYMX-OBSERVE ") {
				nat = append(nat, strings.TrimPrefix(line, "SYMX-OBSERVE "))
			}
		}
		same := len(eng) == len(nat) && len(nat) > 0
		first := ""
		for k := 0; same && k < len(nat); k++ {
			if normObs(eng[k]) != normObs(nat[k]) {
				same = false
				first = fmt.Sprintf("line %d: engine %q vs native %q", k, eng[k], nat[k])
			}
		}
		if !same {
			fail++
			fmt.Printf("selftest CONFORMANCE MISMATCH %s: engine %d lines, native %d lines %s\n", fn, len(eng), len(nat), first)
		} else {
			fmt.Printf("selftest conformance %s: %d observation lines identical (engine vs native)\n", fn, len(nat))
		}
	}

	// 2. pinned-symbolic twins
	for _, fn := range []string{"H_pinned_decode", "H_pinned_lex", "H_pinned_arith", "H_pool_reuse"} {
		exp, err := l.Run(engine.RunSpec{Fn: fn, Workers: 16, Fuel: 20_000_000}, "z3-new", 60000)
		if err != nil {
			fmt.Println("selftest", fn, "engine error:", err)
			fail++
			continue
		}
		st := exp.Stats
		ok := len(exp.Violations) == 0 && st.Inconclusive == 0 && st.Unsupported == 0 && st.FuelOut == 0 && st.AssertsTotal > 0 && exp.Truncated == ""
		fmt.Printf("selftest pinned %s: paths=%d obligations=%d discharged=%d violations=%d inconclusive=%d\n", fn, st.Paths, st.AssertsTotal, st.Discharged, len(exp.Violations), st.Inconclusive+st.Unsupported)
		if !ok {
			fail++
			for _, v := range exp.Violations {
				b, _ := json.Marshal(v.Inputs)
				fmt.Printf("  PINNED MISMATCH %s %s\n", v.Label, b)
				break
			}
		}
	}

	// 2b. scheduler model twins (channel/select model)
	for _, fn := range []string{"H_select_rendezvous"} {
		exp, err := l.Run(engine.RunSpec{Fn: fn, Workers: 16, Fuel: 20_000_000, Sched: true, Preempt: 3}, "z3-new", 60000)
		if err != nil {
			fmt.Println("selftest", fn, "engine error:", err)
			fail++
			continue
		}
		st := exp.Stats
		ok := len(exp.Violations) == 0 && st.Inconclusive == 0 && st.Unsupported == 0 && st.FuelOut == 0 && st.AssertsTotal > 0 && exp.Truncated == "" && st.Reached["end"] > 0
		fmt.Printf("selftest scheduler %s: paths=%d obligations=%d discharged=%d violations=%d inconclusive=%d\n", fn, st.Paths, st.AssertsTotal, st.Discharged, len(exp.Violations), st.Inconclusive+st.Unsupported)
		if !ok {
			fail++
			for _, v := range exp.Violations {
				fmt.Printf("  SCHEDULER MODEL MISMATCH %s %s\n", v.Label, v.Msg)
				break
			}
		}
	}

	// 3. solver agreement
	type job struct {
		pkg, fn, setup string
		params         map[string]int
		sched          bool
	}
	jobs := []job{
		{"verif/harness/c14", "H_parse", "", map[string]int{"n": 3}, false},
		{"verif/harness/c03", "H_int_arith", "", nil, false},
		{"verif/harness/c03", "H_cmp_float", "", nil, false},
		{"verif/harness/c03", "H_truth_string", "", map[string]int{"n": 2}, false},
		{"verif/harness/c13", "H_hist", "", map[string]int{"k": 2}, false},
		{"verif/harness/c01", "H_lex_spans", "Setup", map[string]int{"n": 1}, false},
		{"verif/harness/c15", "H_string", "", map[string]int{"n": 2, "m": 1}, false},
	}
	loaded := map[string]*engine.Loaded{"verif/harness/selftest": l}
	for _, j := range jobs {
		lj := loaded[j.pkg]
		if lj == nil {
			lj, err = engine.Load(verifDir(), j.pkg)
			if err != nil {
				fmt.Println("selftest load", j.pkg, err)
				fail++
				continue
			}
			loaded[j.pkg] = lj
		}
		var sigs []string
		for _, solver := range []string{"z3-new", "cvc5", "z3"} {
			exp, err := lj.Run(engine.RunSpec{Fn: j.fn, Setup: j.setup, Params: j.params, Workers: 16, Fuel: 20_000_000}, solver, 60000)
			if err != nil {
				sigs = append(sigs, solver+": error "+err.Error())
				continue
			}
			st := exp.Stats
			var labels []string
			for _, v := range exp.Violations {
				labels = append(labels, v.Label)
			}
			sort.Strings(labels)
			sigs = append(sigs, fmt.Sprintf("paths=%d obligations=%d discharged=%d inconclusive=%d violations=%v", st.Paths, st.AssertsTotal, st.Discharged, st.Inconclusive+st.Unsupported, labels))
		}
		agree := sigs[0] == sigs[1] && sigs[1] == sigs[2]
		fmt.Printf("selftest solvers %s.%s: %s agree=%v\n", j.pkg[len("verif/harness/"):], j.fn, sigs[0], agree)
		if !agree {
			fail++
			fmt.Printf("  SOLVER-DISAGREEMENT z3-new: %s\n  cvc5:   %s\n  z3 4.8: %s\n", sigs[0], sigs[1], sigs[2])
		}
	}
	fmt.Printf("selftest done in %.1fs, failures=%d\n", time.Since(t0).Seconds(), fail)
	if fail > 0 {
		return 1
	}
	return 0
}

// normObs removes representation differences between the engine's and fmt's rendering.
func normObs(s string) string {
	s = strings.ReplaceAll(s, "  ", " ")
	return strings.TrimSpace(s)
}
