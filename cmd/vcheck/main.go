// vcheck: driver of the solver-based checks (see /verif/DESIGN.md).
package main

import (
	"encoding/json"
	"flag"
	"fmt"
	"os"
	"strings"
	"time"

	"verif/engine"
)

func main() {
	// offline toolchain: go1.26.8 first on PATH (go/packages looks "go" up in this process's PATH)
	os.Setenv("PATH", "/opt/veriftools/go1.26.8/bin:"+os.Getenv("PATH"))
	for k, v := range map[string]string{"GOFLAGS": "-mod=mod", "GOPROXY": "off", "GOSUMDB": "off", "GOTOOLCHAIN": "local", "CGO_ENABLED": "0"} {
		os.Setenv(k, v)
	}
	if len(os.Args) < 2 {
		fmt.Fprintln(os.Stderr, "usage: vcheck run|check|replay ...")
		os.Exit(2)
	}
	switch os.Args[1] {
	case "run":
		cmdRun(os.Args[2:])
	case "check":
		os.Exit(cmdCheck(os.Args[2:]))
	case "replay":
		os.Exit(cmdReplay(os.Args[2:]))
	case "selftest":
		os.Exit(cmdSelftest(os.Args[2:]))
	default:
		fmt.Fprintln(os.Stderr, "unknown command", os.Args[1])
		os.Exit(2)
	}
}

// cmdRun: ad-hoc exploration of one harness function (development aid).
func cmdRun(args []string) {
	fs := flag.NewFlagSet("run", flag.ExitOnError)
	pkg := fs.String("pkg", "", "harness package (e.g. verif/harness/c14)")
	fn := fs.String("fn", "", "harness function")
	setup := fs.String("setup", "", "setup function")
	params := fs.String("p", "", "params k=v,k=v")
	workers := fs.Int("workers", 16, "")
	fuel := fs.Int64("fuel", 3_000_000, "")
	maxPaths := fs.Int64("maxpaths", 0, "")
	timeout := fs.Duration("timeout", 10*time.Minute, "")
	solver := fs.String("solver", "z3-new", "")
	debug := fs.Bool("debug", false, "")
	sched := fs.Bool("sched", false, "")
	verbose := fs.Bool("v", false, "print every violation candidate")
	fuelV := fs.Bool("fuelv", false, "fuel exhaustion is a violation")
	preempt := fs.Int("preempt", 2, "preemption bound (with -sched)")
	fs.Parse(args)
	t0 := time.Now()
	l, err := engine.Load(verifDir(), *pkg)
	if err != nil {
		fmt.Fprintln(os.Stderr, "load:", err)
		os.Exit(2)
	}
	fmt.Fprintf(os.Stderr, "loaded in %.1fs\n", time.Since(t0).Seconds())
	pm := map[string]int{}
	for _, kv := range strings.Split(*params, ",") {
		if kv == "" {
			continue
		}
		var k string
		var v int
		parts := strings.SplitN(kv, "=", 2)
		k = parts[0]
		fmt.Sscan(parts[1], &v)
		pm[k] = v
	}
	t1 := time.Now()
	exp, err := l.Run(engine.RunSpec{Fn: *fn, Setup: *setup, Params: pm, Fuel: *fuel, MaxPaths: *maxPaths, Timeout: *timeout, Workers: *workers, Debug: *debug, Sched: *sched, Preempt: *preempt, FuelViolation: *fuelV}, *solver, 60000)
	if err != nil {
		fmt.Fprintln(os.Stderr, "run:", err)
		os.Exit(2)
	}
	st := exp.Stats
	fmt.Printf("paths=%d decisions=%d queries=%d solver=%.2fs asserts=%d discharged=%d inconclusive=%d unsupported=%d fuelout=%d instr=%d maxdepth=%d wall=%.2fs truncated=%q\n",
		st.Paths, st.Decisions, st.Queries, float64(st.SolverNs)/1e9, st.AssertsTotal, st.Discharged, st.Inconclusive, st.Unsupported, st.FuelOut, st.Instr, st.MaxDepth, time.Since(t1).Seconds(), exp.Truncated)
	pr := func(name string, m map[string]int64) {
		if len(m) == 0 {
			return
		}
		b, _ := json.Marshal(m)
		fmt.Printf("%s: %s\n", name, b)
	}
	pr("reached", st.Reached)
	pr("asserts", st.AssertLabels)
	pr("known", st.KnownSeen)
	pr("inconclusive", st.InconclMsgs)
	pr("unsupported", st.UnsuppMsgs)
	byLabel := map[string]int{}
	for _, v := range exp.Violations {
		byLabel[v.Label+" :: "+v.Msg]++
	}
	for _, v := range exp.Violations {
		if *verbose || byLabel[v.Label+" :: "+v.Msg] > 0 {
			b, _ := json.Marshal(v.Inputs)
			fmt.Printf("VIOLATION-CANDIDATE label=%q msg=%q known=%q inputs=%s (x%d recorded)\n", v.Label, v.Msg, v.Known, b, byLabel[v.Label+" :: "+v.Msg])
			if v.Kind == "fuel" && len(v.Observed) > 0 {
				fmt.Println(v.Observed[len(v.Observed)-1])
			} else if *verbose {
				for _, o := range v.Observed {
					fmt.Println("   observed:", o)
				}
			}
			if !*verbose {
				byLabel[v.Label+" :: "+v.Msg] = -1
			}
		}
	}
	for _, s := range st.Samples {
		fmt.Println("sample:", s)
	}
}

func verifDir() string {
	if d := os.Getenv("VERIF_DIR"); d != "" {
		return d
	}
	return "/verif"
}
