package main

import (
	"crypto/sha1"
	"encoding/json"
	"flag"
	"fmt"
	"os"
	"os/exec"
	"path/filepath"
	"sort"
	"strings"
	"time"

	"verif/engine"
	"verif/engine/interp"
)

// RunDef is one harness exploration belonging to a check.
type RunDef struct {
	Fn            string
	Setup         string
	Params        map[string]int
	Fuel          int64
	Tier          string // "quick" (also run in thorough) | "thorough" (thorough only)
	Sched         bool
	Preempt       int
	Reach         []string // labels that must be reached (vacuity guard)
	FuelViolation bool
	Pkg           string // harness package of this run (default: the check's Pkg)
	NativeRepeat  int    // native replay attempts (violations that depend on Go's randomised map iteration)
	NativeTwin    string // for scheduler runs: harness function run natively to confirm known findings (expects a Go panic)
	Note          string
}

// Check describes how one property is decided.
type Check struct {
	ID          string
	Pkg         string
	Runs        []RunDef
	Rule        string
	Assumptions []string
	Outside     []string
}

type KnownFinding struct {
	ID       string `json:"id"`
	Property string `json:"property"`
	Status   string `json:"status"` // open | fixed
	Harness  string `json:"harness"`
	Witness  string `json:"witness"`
	What     string `json:"what"`
	Commit   string `json:"commit,omitempty"`
}

// loadKnown parses /verif/known_findings.txt. Lines:
//
//	known: property=<Cxx> id=<finding id> :: <what fails, identified by input / call site / history>
//	fixed: property=<Cxx> <commit> <what failed>
//
// Only "known:" lines suppress anything (and only the exact witness predicate the
// harness attaches to that id); "fixed:" lines are a record and suppress nothing.
func loadKnown() (map[string]KnownFinding, error) {
	b, err := os.ReadFile(filepath.Join(verifDir(), "known_findings.txt"))
	if err != nil {
		if os.IsNotExist(err) {
			return map[string]KnownFinding{}, nil
		}
		return nil, err
	}
	m := map[string]KnownFinding{}
	for _, line := range strings.Split(string(b), "\n") {
		line = strings.TrimSpace(line)
		if !strings.HasPrefix(line, "known:") {
			continue
		}
		rest := strings.TrimSpace(strings.TrimPrefix(line, "known:"))
		parts := strings.SplitN(rest, "::", 2)
		if len(parts) != 2 {
			return nil, fmt.Errorf("malformed known-findings line: %s", line)
		}
		k := KnownFinding{Status: "open", What: strings.TrimSpace(parts[1])}
		for _, f := range strings.Fields(parts[0]) {
			if strings.HasPrefix(f, "property=") {
				k.Property = strings.TrimPrefix(f, "property=")
			}
			if strings.HasPrefix(f, "id=") {
				k.ID = strings.TrimPrefix(f, "id=")
			}
		}
		if k.ID == "" || k.Property == "" {
			return nil, fmt.Errorf("malformed known-findings line: %s", line)
		}
		m[k.ID] = k
	}
	return m, nil
}

type replayRec struct {
	Harness  string            `json:"harness"`
	Pkg      string            `json:"pkg"`
	Fn       string            `json:"fn"`
	Setup    string            `json:"setup,omitempty"`
	Property string            `json:"property"`
	Label    string            `json:"label"`
	Kind     string            `json:"kind"`
	Msg      string            `json:"msg"`
	Site     string            `json:"site,omitempty"`
	Known    string            `json:"known,omitempty"`
	Inputs   map[string]uint64 `json:"inputs"`
	Params   map[string]int    `json:"params"`
	Observed []string          `json:"observed,omitempty"`
}

func cmdCheck(args []string) int {
	fs := flag.NewFlagSet("check", flag.ExitOnError)
	tier := fs.String("tier", envOr("VERIF_TIER", "quick"), "quick|thorough")
	workers := fs.Int("workers", 16, "")
	solver := fs.String("solver", "z3-new", "")
	only := fs.String("only", "", "run only harness functions containing this substring")
	noReplay := fs.Bool("noreplay", false, "skip native replay (development)")
	fs.Parse(args)
	if fs.NArg() < 1 {
		fmt.Fprintln(os.Stderr, "usage: vcheck check [--tier quick|thorough] <Cxx>")
		return 2
	}
	id := fs.Arg(0)
	ck, ok := checks[id]
	if !ok {
		fmt.Fprintln(os.Stderr, "unknown check", id)
		return 2
	}
	seed := 0
	fmt.Sscan(os.Getenv("VERIF_SEED"), &seed)
	known, err := loadKnown()
	if err != nil {
		fmt.Fprintln(os.Stderr, "known_findings.json:", err)
		return 2
	}
	interp.OpenKnown = map[string]bool{}
	for kid, k := range known {
		if k.Status == "open" {
			interp.OpenKnown[kid] = true
		}
	}
	t0 := time.Now()
	loaded := map[string]*engine.Loaded{}
	loadPkg := func(pkg string) (*engine.Loaded, error) {
		if pkg == "" {
			pkg = ck.Pkg
		}
		if l, ok := loaded[pkg]; ok {
			return l, nil
		}
		l, err := engine.Load(verifDir(), pkg)
		if err == nil {
			loaded[pkg] = l
		}
		return l, err
	}
	if _, err := loadPkg(ck.Pkg); err != nil {
		fmt.Fprintln(os.Stderr, "load:", err)
		return 2
	}
	loadS := time.Since(t0).Seconds()

	type runOut struct {
		def  RunDef
		exp  *interp.Explorer
		wall float64
	}
	var outs []runOut
	total := interp.Stats{Reached: map[string]int64{}, AssertLabels: map[string]int64{}, KnownSeen: map[string]int64{}, InconclMsgs: map[string]int64{}, UnsuppMsgs: map[string]int64{}, Funcs: map[string]bool{}}
	exhaustive := true
	vacuous := []string{}
	var boundsDesc []string
	for _, rd := range ck.Runs {
		if rd.Tier == "thorough" && *tier != "thorough" {
			continue
		}
		if rd.Tier == "quickonly" && *tier != "quick" {
			continue
		}
		if *only != "" && !strings.Contains(rd.Fn, *only) {
			continue
		}
		t1 := time.Now()
		spec := engine.RunSpec{Fn: rd.Fn, Setup: rd.Setup, Params: rd.Params, Fuel: rd.Fuel, Workers: *workers, Sched: rd.Sched, Preempt: rd.Preempt, Timeout: 100 * time.Minute, StopAfterVio: 90 * time.Second, FuelViolation: rd.FuelViolation}
		l, err := loadPkg(rd.Pkg)
		if err != nil {
			fmt.Fprintln(os.Stderr, "load:", err)
			return 2
		}
		exp, err := l.Run(spec, *solver, 60000)
		if err != nil {
			fmt.Fprintf(os.Stderr, "run %s: %v\n", rd.Fn, err)
			return 2
		}
		w := time.Since(t1).Seconds()
		outs = append(outs, runOut{rd, exp, w})
		st := exp.Stats
		pj, _ := json.Marshal(rd.Params)
		fmt.Printf("run %-28s params=%s paths=%d queries=%d asserts=%d discharged=%d inconclusive=%d unsupported=%d fuelout=%d violations=%d wall=%.1fs %s\n",
			rd.Fn, pj, st.Paths, st.Queries, st.AssertsTotal, st.Discharged, st.Inconclusive, st.Unsupported, st.FuelOut, len(exp.Violations), w, exp.Truncated)
		boundsDesc = append(boundsDesc, fmt.Sprintf("%s%s fuel=%d", rd.Fn, pj, spec.Fuel))
		if exp.Truncated != "" || st.Inconclusive > 0 || st.Unsupported > 0 || st.FuelOut > 0 {
			exhaustive = false
			for m, n := range st.InconclMsgs {
				fmt.Printf("  INCONCLUSIVE %s x%d\n", m, n)
			}
			for m, n := range st.UnsuppMsgs {
				fmt.Printf("  UNSUPPORTED %s x%d\n", m, n)
			}
		}
		// vacuity: something must complete, every required label must be reached
		if st.Paths == 0 {
			vacuous = append(vacuous, rd.Fn+": no path")
		}
		for _, lab := range rd.Reach {
			if st.Reached[lab] == 0 {
				vacuous = append(vacuous, rd.Fn+": label "+lab+" never reached")
			}
		}
		if st.AssertsTotal == 0 && !rd.Sched && len(rd.Reach) == 0 {
			vacuous = append(vacuous, rd.Fn+": no assertion executed")
		}
		mergeInto(&total, st)
	}
	if len(outs) == 0 {
		fmt.Fprintln(os.Stderr, "no runs selected")
		return 2
	}

	// ---- violations: native replay, known-finding classification
	replayDir := filepath.Join(verifDir(), "replay")
	os.MkdirAll(replayDir, 0o755)
	nativeBins := map[string]string{}
	nativeFor := func(pkg string) (string, error) {
		if pkg == "" {
			pkg = ck.Pkg
		}
		if b, ok := nativeBins[pkg]; ok {
			return b, nil
		}
		l, err := loadPkg(pkg)
		if err != nil {
			return "", err
		}
		b, err := buildNative(pkg, l)
		if err == nil {
			nativeBins[pkg] = b
		}
		return b, err
	}
	defer func() {
		for _, b := range nativeBins {
			os.RemoveAll(filepath.Dir(b))
		}
	}()
	nativeRuns, reproduced, spurious := 0, 0, 0
	var violLines []string
	var knownLines []string
	var spuriousList []string
	knownWitnessDone := map[string]bool{}
	fuelReproduced := 0
	for _, o := range outs {
		for _, v := range o.exp.Violations {
			rpkg := ck.Pkg
			if o.def.Pkg != "" {
				rpkg = o.def.Pkg
			}
			rec := replayRec{Harness: rpkg + "." + o.def.Fn, Pkg: rpkg, Fn: o.def.Fn, Setup: o.def.Setup, Property: id, Label: v.Label, Kind: v.Kind,
				Msg: v.Msg, Site: v.Site, Known: v.Known, Inputs: v.Inputs, Params: o.def.Params, Observed: v.Observed}
			if v.Known != "" {
				if knownWitnessDone[v.Known] {
					continue
				}
				knownWitnessDone[v.Known] = true
			}
			b, _ := json.MarshalIndent(rec, "", " ")
			h := sha1.Sum(b)
			path := filepath.Join(replayDir, fmt.Sprintf("%s-%x.json", id, h[:5]))
			os.WriteFile(path, b, 0o644)
			status := "engine-only"
			if v.Kind == "fuel" && fuelReproduced >= 3 && !*noReplay {
				// the watchdog costs 10 s per replay: after three reproduced non-termination witnesses the
				// remaining ones of this run are reported without a native replay of their own
				violLines = append(violLines, fmt.Sprintf("VIOLATION property=%s replay=%s", id, path))
				fmt.Printf("  violation: %s label=%s inputs=%v [engine-only: watchdog budget, 3 others reproduced natively]\n", o.def.Fn, v.Label, v.Inputs)
				continue
			}
			if !*noReplay && o.def.Sched && o.def.NativeTwin != "" && v.Known != "" {
				nativeBin, err := nativeFor(o.def.Pkg)
				if err != nil {
					fmt.Fprintln(os.Stderr, "native replay build failed:", err)
					return 2
				}
				nativeRuns++
				twin := rec
				twin.Fn, twin.Setup, twin.Kind = o.def.NativeTwin, "", "twin"
				if okRep, _ := runNative(nativeBin, path, twin); okRep {
					status = "engine-replayed; native twin " + o.def.NativeTwin + " reproduced"
					reproduced++
				} else {
					status = "engine-replayed; native twin did not reproduce"
				}
			}
			if !*noReplay && !o.def.Sched {
				nativeBin, err := nativeFor(o.def.Pkg)
				if err != nil {
					fmt.Fprintln(os.Stderr, "native replay build failed:", err)
					return 2
				}
				nativeRuns++
				okRep, out := runNative(nativeBin, path, rec)
				for try := 1; !okRep && try < o.def.NativeRepeat; try++ {
					nativeRuns++
					okRep, out = runNative(nativeBin, path, rec)
				}
				if okRep {
					status = "reproduced"
					reproduced++
					if v.Kind == "fuel" {
						fuelReproduced++
					}
				} else {
					status = "NOT-reproduced"
					spurious++
					spuriousList = append(spuriousList, fmt.Sprintf("%s %s: %s", o.def.Fn, v.Label, firstLine(out)))
				}
			}
			if v.Known != "" {
				k := known[v.Known]
				if status == "NOT-reproduced" {
					fmt.Printf("  known finding %s: engine witness did not reproduce natively (%s)\n", v.Known, path)
					continue
				}
				knownLines = append(knownLines, fmt.Sprintf("KNOWN-FINDING: property=%s %s [%s; witness %s; %s]", id, k.What, v.Known, filepath.Base(path), status))
				continue
			}
			if status == "NOT-reproduced" {
				fmt.Printf("  SPURIOUS counterexample (engine/stub defect, counted inconclusive): %s %s replay=%s\n", o.def.Fn, v.Label, path)
				exhaustive = false
				continue
			}
			violLines = append(violLines, fmt.Sprintf("VIOLATION property=%s replay=%s", id, path))
			fmt.Printf("  violation: %s label=%s msg=%s site=%s inputs=%v [%s]\n", o.def.Fn, v.Label, v.Msg, v.Site, v.Inputs, status)
		}
	}
	// known findings seen without a recorded witness (should not happen) still get a line
	for kid := range total.KnownSeen {
		if !knownWitnessDone[kid] {
			if k, ok := known[kid]; ok {
				knownLines = append(knownLines, fmt.Sprintf("KNOWN-FINDING: property=%s %s [%s]", id, k.What, kid))
			}
		}
	}
	sort.Strings(knownLines)
	for _, kl := range knownLines {
		fmt.Println(kl)
	}
	for _, vl := range violLines {
		fmt.Println(vl)
	}
	for _, v := range vacuous {
		fmt.Println("VACUOUS:", v)
	}

	// ---- evidence
	wall := time.Since(t0).Seconds()
	funcs := make([]string, 0, len(total.Funcs))
	for f := range total.Funcs {
		if strings.Contains(f, "php-any/origami") || strings.Contains(f, "protowire") || strings.Contains(f, "unicode") || strings.Contains(f, "encoding/") || strings.Contains(f, "net/url") || strings.Contains(f, "strconv") || strings.Contains(f, "strings.") {
			funcs = append(funcs, f)
		}
	}
	sort.Strings(funcs)
	if len(funcs) > 80 {
		funcs = append(funcs[:80], fmt.Sprintf("... and %d more", len(funcs)-80))
	}
	samples := []any{}
	for _, s := range total.Samples {
		samples = append(samples, s)
	}
	for _, o := range outs {
		for n, v := range o.exp.Violations {
			if n < 2 {
				samples = append(samples, map[string]any{"harness": o.def.Fn, "label": v.Label, "counterexample_inputs": v.Inputs, "known": v.Known})
			}
		}
	}
	if len(samples) == 0 {
		samples = append(samples, "no symbolic inputs on any path")
	}
	ev := map[string]any{
		"property_id": id,
		"tier":        *tier,
		"seed":        seed,
		"level":       "model_checking",
		"wall_s":      wall,
		"violations":  len(violLines),
		"assumptions": append([]string{
			"environment model of DESIGN.md §2.7 (sync, atomic, fmt, bytealg, os stubs); GOARCH=amd64 float->int conversion",
			"solver " + *solver + " answers are trusted within its 60 s cap; unknown/timeout/error are counted inconclusive, never success",
		}, ck.Assumptions...),
		"coverage": map[string]any{
			"states":                        total.Paths,
			"transitions":                   total.Decisions,
			"traces_validated_against_impl": nativeRuns,
			"samples":                       samples,
			"exhaustive":                    exhaustive && len(vacuous) == 0,
			"rule":                          ck.Rule,
			"bounds":                        boundsDesc,
			"outside_claim":                 ck.Outside,
			"paths":                         total.Paths,
			"queries":                       total.Queries,
			"solver_s":                      float64(total.SolverNs) / 1e9,
			"solver":                        *solver,
			"obligations":                   total.AssertsTotal,
			"discharged":                    total.Discharged,
			"inconclusive":                  total.Inconclusive,
			"unsupported":                   total.Unsupported,
			"fuel_exhausted":                total.FuelOut,
			"ssa_instructions_executed":     total.Instr,
			"assert_labels":                 total.AssertLabels,
			"reach_labels":                  total.Reached,
			"functions_encoded":             funcs,
			"known_findings_seen":           total.KnownSeen,
			"native_replays":                nativeRuns,
			"native_reproduced":             reproduced,
			"spurious_counterexamples":      spuriousList,
			"inconclusive_reasons":          total.InconclMsgs,
			"unsupported_reasons":           total.UnsuppMsgs,
			"ssa_load_s":                    loadS,
			"vacuity_failures":              vacuous,
		},
	}
	// VCHECK_EVIDENCE_DIR: seeded-change experiments (scripts/try_seed.sh, seed_regress.sh) run against a
	// deliberately broken tree and must not overwrite the evidence of the real tree
	evDir := filepath.Join(verifDir(), "evidence")
	if d := os.Getenv("VCHECK_EVIDENCE_DIR"); d != "" {
		evDir = d
	}
	os.MkdirAll(evDir, 0o755)
	eb, _ := json.MarshalIndent(ev, "", " ")
	os.WriteFile(filepath.Join(evDir, id+".json"), eb, 0o644)
	fmt.Printf("check %s tier=%s paths=%d queries=%d obligations=%d discharged=%d known=%d violations=%d exhaustive=%v wall=%.1fs\n",
		id, *tier, total.Paths, total.Queries, total.AssertsTotal, total.Discharged, len(knownLines), len(violLines), exhaustive, wall)
	if len(violLines) > 0 {
		return 1
	}
	if len(vacuous) > 0 {
		return 2
	}
	if !exhaustive {
		// some paths ended inconclusive / unsupported / out of budget: the property was neither shown to
		// hold within the bounds nor violated; never reported as success
		fmt.Printf("UNDECIDED property=%s: exploration incomplete (see INCONCLUSIVE/UNSUPPORTED lines above); no verdict\n", id)
		return 2
	}
	return 0
}

func mergeInto(dst *interp.Stats, src *interp.Stats) {
	dst.Paths += src.Paths
	dst.Decisions += src.Decisions
	dst.Queries += src.Queries
	dst.SolverNs += src.SolverNs
	dst.AssertsTotal += src.AssertsTotal
	dst.Discharged += src.Discharged
	dst.Inconclusive += src.Inconclusive
	dst.SolverRetries += src.SolverRetries
	dst.Unsupported += src.Unsupported
	dst.FuelOut += src.FuelOut
	dst.Instr += src.Instr
	for k, v := range src.Reached {
		dst.Reached[k] += v
	}
	for k, v := range src.AssertLabels {
		dst.AssertLabels[k] += v
	}
	for k, v := range src.KnownSeen {
		dst.KnownSeen[k] += v
	}
	for k, v := range src.InconclMsgs {
		dst.InconclMsgs[k] += v
	}
	for k, v := range src.UnsuppMsgs {
		dst.UnsuppMsgs[k] += v
	}
	for k := range src.Funcs {
		dst.Funcs[k] = true
	}
	if len(dst.Samples) < 8 {
		n := 3
		if len(src.Samples) < n {
			n = len(src.Samples)
		}
		dst.Samples = append(dst.Samples, src.Samples[:n]...)
	}
}

func envOr(k, d string) string {
	if v := os.Getenv(k); v != "" {
		return v
	}
	return d
}

func firstLine(s string) string {
	s = strings.TrimSpace(s)
	if i := strings.IndexByte(s, '\n'); i >= 0 {
		return s[:i]
	}
	return s
}

// buildNative compiles the harness package with a generated main into a temp dir.
func buildNative(pkg string, l *engine.Loaded) (string, error) {
	var fns []string
	for name := range l.Main.Members {
		if strings.HasPrefix(name, "H_") || strings.HasPrefix(name, "N_") || strings.HasPrefix(name, "Setup") {
			if l.Main.Func(name) != nil {
				fns = append(fns, name)
			}
		}
	}
	sort.Strings(fns)
	dir := filepath.Join(verifDir(), ".native", fmt.Sprintf("%d", os.Getpid()))
	if err := os.MkdirAll(dir, 0o755); err != nil {
		return "", err
	}
	var sb strings.Builder
	sb.WriteString("package main\n\nimport (\n\t\"fmt\"\n\t\"os\"\n\th \"" + pkg + "\"\n\t\"verif/symx\"\n)\n\nfunc main() {\n\tfor _, a := range os.Args[1:] {\n\t\tswitch a {\n")
	for _, f := range fns {
		fmt.Fprintf(&sb, "\t\tcase %q:\n\t\t\th.%s()\n", f, f)
	}
	sb.WriteString("\t\tdefault:\n\t\t\tfmt.Println(\"SYMX-ERROR unknown harness\", a)\n\t\t\tos.Exit(5)\n\t\t}\n\t}\n\tsymx.Done()\n}\n")
	if err := os.WriteFile(filepath.Join(dir, "main.go"), []byte(sb.String()), 0o644); err != nil {
		return "", err
	}
	// overlay for export shims
	ov, err := engine.Overlay(verifDir())
	if err != nil {
		return "", err
	}
	repl := map[string]string{}
	n := 0
	for dst, content := range ov {
		src := filepath.Join(dir, fmt.Sprintf("shim%d.go", n))
		n++
		os.WriteFile(src+".txt", content, 0o644)
		repl[dst] = src + ".txt"
	}
	ob, _ := json.Marshal(map[string]any{"Replace": repl})
	ovPath := filepath.Join(dir, "overlay.json")
	os.WriteFile(ovPath, ob, 0o644)
	bin := filepath.Join(dir, "replay.bin")
	cmd := exec.Command("/opt/veriftools/go1.26.8/bin/go", "build", "-overlay", ovPath, "-o", bin, "./"+mustRel(dir))
	cmd.Dir = verifDir()
	cmd.Env = engine.GoEnv()
	out, err := cmd.CombinedOutput()
	if err != nil {
		return "", fmt.Errorf("%v: %s", err, out)
	}
	return bin, nil
}

func mustRel(dir string) string {
	r, err := filepath.Rel(verifDir(), dir)
	if err != nil {
		return dir
	}
	return r
}

// runNative replays one counterexample against the natively compiled harness.
// Reproduced means: same assertion label fails / known id fails / a Go panic for panic-kind.
func runNative(bin, replayPath string, rec replayRec) (bool, string) {
	args := []string{}
	if rec.Setup != "" {
		args = append(args, rec.Setup)
	}
	args = append(args, rec.Fn)
	cmd := exec.Command("timeout", append([]string{"-s", "KILL", "10", bin}, args...)...)
	cmd.Env = append(os.Environ(), "SYMX_REPLAY="+replayPath)
	out, err := cmd.CombinedOutput()
	s := string(out)
	code := 0
	if ee, ok := err.(*exec.ExitError); ok {
		code = ee.ExitCode()
	}
	if os.Getenv("VERIF_DEBUG") != "" {
		fmt.Fprintf(os.Stderr, "native replay %s: exit=%d err=%v out=%q\n", rec.Fn, code, err, firstLine(s))
	}
	switch rec.Kind {
	case "assert":
		if rec.Known != "" {
			return strings.Contains(s, "SYMX-KNOWN-FAIL "+rec.Known), s
		}
		return code == 3 && strings.Contains(s, "SYMX-ASSERT-FAIL "+rec.Label), s
	case "panic":
		return code == 2 && (strings.Contains(s, "panic:") || strings.Contains(s, "fatal error:")), s
	case "fuel":
		return code == 137 || code == 124 || code == -1, s // killed by the watchdog (timeout -s KILL may take the wrapper down too): did not terminate
	case "twin":
		// directed native twin of a schedule-dependent finding: it demonstrates the defect by a Go
		// panic (exit 2) or by a failing assertion (exit 3)
		return code == 2 || code == 3, s
	}
	return false, s
}

func cmdReplay(args []string) int {
	if len(args) < 1 {
		fmt.Fprintln(os.Stderr, "usage: vcheck replay <file>")
		return 2
	}
	b, err := os.ReadFile(args[0])
	if err != nil {
		fmt.Fprintln(os.Stderr, err)
		return 2
	}
	var rec replayRec
	if err := json.Unmarshal(b, &rec); err != nil {
		fmt.Fprintln(os.Stderr, err)
		return 2
	}
	l, err := engine.Load(verifDir(), rec.Pkg)
	if err != nil {
		fmt.Fprintln(os.Stderr, "load:", err)
		return 2
	}
	bin, err := buildNative(rec.Pkg, l)
	if err != nil {
		fmt.Fprintln(os.Stderr, err)
		return 2
	}
	defer os.RemoveAll(filepath.Dir(bin))
	ok, out := runNative(bin, args[0], rec)
	fmt.Print(out)
	if ok {
		fmt.Printf("REPRODUCED property=%s label=%s\n", rec.Property, rec.Label)
		return 1
	}
	fmt.Println("not reproduced")
	return 0
}
