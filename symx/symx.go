// Package symx is the harness API. Under the symbolic engine every function
// here is intercepted (verif/engine/interp/externals2.go); compiled natively
// the same functions read the recorded counterexample named by $SYMX_REPLAY, so
// an identical harness runs against the real compiled code.
package symx

import (
	"encoding/json"
	"fmt"
	"math"
	"os"
)

type replayFile struct {
	Harness string            `json:"harness"`
	Inputs  map[string]uint64 `json:"inputs"`
	Params  map[string]int    `json:"params"`
}

var (
	loaded bool
	rep    replayFile
)

func load() {
	if loaded {
		return
	}
	loaded = true
	p := os.Getenv("SYMX_REPLAY")
	if p == "" {
		fmt.Fprintln(realStdout, "SYMX-ERROR no SYMX_REPLAY file")
		os.Exit(5)
	}
	b, err := os.ReadFile(p)
	if err != nil {
		fmt.Fprintln(realStdout, "SYMX-ERROR", err)
		os.Exit(5)
	}
	if err := json.Unmarshal(b, &rep); err != nil {
		fmt.Fprintln(realStdout, "SYMX-ERROR", err)
		os.Exit(5)
	}
}

func get(name string) uint64 {
	load()
	v, ok := rep.Inputs[name]
	if !ok {
		// unconstrained on the recorded path: any value will do
		return 0
	}
	return v
}

func Int(name string) int         { return int(get(name)) }
func Int64(name string) int64     { return int64(get(name)) }
func Int32(name string) int32     { return int32(get(name)) }
func Uint64(name string) uint64   { return get(name) }
func Uint32(name string) uint32   { return uint32(get(name)) }
func Byte(name string) byte       { return byte(get(name)) }
func Bool(name string) bool       { return get(name)&1 != 0 }
func Float64(name string) float64 { return math.Float64frombits(get(name)) }

// IntRange returns an int assumed to lie in [lo,hi].
func IntRange(name string, lo, hi int) int {
	v := int(get(name))
	if v < lo || v > hi {
		fmt.Fprintln(realStdout, "SYMX-ASSUME-FAIL range", name, v)
		os.Exit(4)
	}
	return v
}

// Bytes returns n arbitrary bytes (n concrete).
func Bytes(name string, n int) []byte {
	out := make([]byte, n)
	for k := range out {
		out[k] = byte(get(fmt.Sprintf("%s_%d", name, k)))
	}
	return out
}

// String returns an arbitrary string of n bytes.
func String(name string, n int) string { return string(Bytes(name, n)) }

// Choose returns an arbitrary value in [0,k), explored exhaustively.
func Choose(name string, k int) int {
	v := int(get(name))
	if v < 0 || v >= k {
		fmt.Fprintln(realStdout, "SYMX-ASSUME-FAIL choose", name, v)
		os.Exit(4)
	}
	return v
}

// Assume restricts the inputs considered.
func Assume(c bool) {
	if !c {
		fmt.Fprintln(realStdout, "SYMX-ASSUME-FAIL")
		os.Exit(4)
	}
}

// Assert states the property: must hold for every input reaching it.
func Assert(c bool, label string) {
	if !c {
		fmt.Fprintln(realStdout, "SYMX-ASSERT-FAIL", label)
		os.Exit(3)
	}
}

// AssertKnown is Assert with the witness predicate of a recorded finding:
// inputs satisfying known may violate c (reported as KNOWN-FINDING id).
func AssertKnown(c bool, label string, known bool, id string) {
	if !c {
		if known {
			fmt.Fprintln(realStdout, "SYMX-KNOWN-FAIL", id, label)
			os.Exit(6)
		}
		fmt.Fprintln(realStdout, "SYMX-ASSERT-FAIL", label)
		os.Exit(3)
	}
}

// KnownPanic declares that a Go panic whose site/message contains site is a
// recorded finding for inputs satisfying cond.
func KnownPanic(id, site string, cond bool) {}
func ClearKnownPanics()                     {}

// Reach marks a program point for the vacuity check.
func Reach(label string) {}

// Observe records values for evidence samples / replay logs.
func Observe(label string, v ...any) {
	if os.Getenv("SYMX_VERBOSE") != "" {
		line := "SYMX-OBSERVE " + label
		for _, x := range v {
			line += " " + fmt.Sprint(x)
		}
		fmt.Fprintln(realStdout, line)
	}
}

func IsSymbolic() bool { return false }

// Concrete pins x to one concrete value per path.
func Concrete(x int) int { return x }

// Ite is a branch-free conditional.
func Ite(c bool, x, y int) int {
	if c {
		return x
	}
	return y
}

// Param is a concrete bound chosen by the check (e.g. input length).
func Param(name string, def int) int {
	load()
	if v, ok := rep.Params[name]; ok {
		return v
	}
	return def
}

// SameFloat: a and b are the same double (NaN equals NaN, +0 differs from -0).
func SameFloat(a, b float64) bool {
	return (a != a && b != b) || math.Float64bits(a) == math.Float64bits(b)
}

// SoftFuel: after n more interpreted instructions the path ends benignly
// ("still running"). Used around the execution of accepted programs, which may
// legitimately loop; parse-time code keeps the hard fuel = termination check.
func SoftFuel(n int) {}

// MapOrder(true): from now on every range over a Go map with 2..3 entries inside
// origami code takes its iteration order from a symbolic choice (engine only; the
// native Go runtime randomises by itself).
func MapOrder(on bool) {}

// Shared marks the memory cell *ptr (ptr is a pointer to a scalar field) as shared between
// goroutines: under the engine's scheduler every access becomes a schedule point and is checked
// for happens-before races. No effect natively.
func Shared(ptr any, name string) {}

// SharedMap marks a Go map as shared between goroutines: every access to it becomes a schedule
// point under the engine's scheduler (check-then-insert sequences interleave). No effect natively.
func SharedMap(m any) {}

// SoftOpaque(true): from now on a path that would have to inspect the text of a formatted
// symbolic number (which the engine does not encode) ends benignly instead of being counted
// inconclusive. Used only where the remaining obligation is "no Go panic".
func SoftOpaque(on bool) {}

// Printed is everything the code under test has written with fmt.Print* / fmt.Fprint* (standard
// output and standard error alike) on the current path, concatenated in order. Natively the two
// standard streams are redirected into a scratch file on the first call (the harness protocol lines
// keep going to the real standard output), so a replay observes the same text.
func Printed() string {
	if capFile == nil {
		f, err := os.CreateTemp("", "symx-printed-")
		if err != nil {
			return ""
		}
		capFile = f
		os.Stdout, os.Stderr = f, f
	}
	b, _ := os.ReadFile(capFile.Name())
	return string(b)
}

var capFile *os.File

// realStdout carries the harness protocol lines (SYMX-...) also while Printed() has redirected os.Stdout.
var realStdout = os.Stdout

// Done is called by the generated native main when the harness returned.
func Done() {
	if capFile != nil {
		os.Remove(capFile.Name())
	}
	fmt.Fprintln(realStdout, "SYMX-DONE")
}

// Cost is the number of SSA instructions the engine has executed on the current path (0 natively):
// an exact, deterministic cost meter for "time bounded by a modest function of the input length".
func Cost() int { return 0 }
