package symx

// Virtual file system for harnesses that exercise class autoloading / include.
//
// Natively VFile writes a real file below VRoot() (a fresh temporary directory), and origami's
// os.Stat / os.ReadFile / os.ReadDir see it. Under the engine there is no file system: the
// engine's stubs for os.Stat, os.Lstat, os.ReadFile and os.ReadDir call VfsStat / VfsReadFile /
// VfsReadDir below, which are ordinary Go code executed by the engine over the registry that
// VFile fills. The registry is interpreted heap state, so it is rolled back between paths like
// everything else; file contents may be symbolic strings.

import (
	"io/fs"
	"os"
	"path/filepath"
	"sort"
	"strings"
	"time"
)

type vfile struct {
	path    string
	content string
}

var (
	vfiles []vfile
	vroot  string
)

// VRoot is the directory below which VFile places files.
func VRoot() string {
	if IsSymbolic() {
		return "/vfs"
	}
	if vroot == "" {
		d, err := os.MkdirTemp("", "symx-vfs-")
		if err != nil {
			panic(err)
		}
		vroot = d
	}
	return vroot
}

// VCleanup removes the native temporary directory (no effect under the engine).
func VCleanup() {
	if !IsSymbolic() && vroot != "" {
		os.RemoveAll(vroot)
		vroot = ""
	}
}

// VFile creates (or replaces) the file path, which must lie below VRoot().
func VFile(path, content string) {
	if IsSymbolic() {
		for i := range vfiles {
			if vfiles[i].path == path {
				vfiles[i].content = content
				return
			}
		}
		vfiles = append(vfiles, vfile{path, content})
		return
	}
	if err := os.MkdirAll(filepath.Dir(path), 0o755); err != nil {
		panic(err)
	}
	if err := os.WriteFile(path, []byte(content), 0o644); err != nil {
		panic(err)
	}
}

// VReset forgets all virtual files (engine) / removes the temporary directory (native).
func VReset() {
	vfiles = nil
	VCleanup()
}

type vInfo struct {
	name string
	dir  bool
	size int64
}

func (v vInfo) Name() string { return v.name }
func (v vInfo) Size() int64  { return v.size }
func (v vInfo) Mode() fs.FileMode {
	if v.dir {
		return fs.ModeDir | 0o755
	}
	return 0o644
}
func (v vInfo) ModTime() time.Time         { return time.Time{} }
func (v vInfo) IsDir() bool                { return v.dir }
func (v vInfo) Sys() any                   { return nil }
func (v vInfo) Type() fs.FileMode          { return v.Mode().Type() }
func (v vInfo) Info() (fs.FileInfo, error) { return v, nil }

func vclean(p string) string {
	for len(p) > 1 && p[len(p)-1] == '/' {
		p = p[:len(p)-1]
	}
	return p
}

func vbase(p string) string {
	if i := strings.LastIndexByte(p, '/'); i >= 0 {
		return p[i+1:]
	}
	return p
}

// VfsStat is what the engine's os.Stat / os.Lstat stub calls.
func VfsStat(name string) (fs.FileInfo, error) {
	name = vclean(name)
	for _, f := range vfiles {
		if f.path == name {
			return vInfo{name: vbase(name), size: int64(len(f.content))}, nil
		}
	}
	for _, f := range vfiles {
		if strings.HasPrefix(f.path, name+"/") || name == "/" {
			return vInfo{name: vbase(name), dir: true}, nil
		}
	}
	return nil, &fs.PathError{Op: "stat", Path: name, Err: fs.ErrNotExist}
}

// VfsReadFile is what the engine's os.ReadFile stub calls.
func VfsReadFile(name string) ([]byte, error) {
	name = vclean(name)
	for _, f := range vfiles {
		if f.path == name {
			return []byte(f.content), nil
		}
	}
	return nil, &fs.PathError{Op: "open", Path: name, Err: fs.ErrNotExist}
}

// VfsReadDir is what the engine's os.ReadDir stub calls.
func VfsReadDir(name string) ([]fs.DirEntry, error) {
	name = vclean(name)
	seen := map[string]bool{}
	var names []string
	dirs := map[string]bool{}
	for _, f := range vfiles {
		if !strings.HasPrefix(f.path, name+"/") {
			continue
		}
		rest := f.path[len(name)+1:]
		child := rest
		isDir := false
		if i := strings.IndexByte(rest, '/'); i >= 0 {
			child, isDir = rest[:i], true
		}
		if !seen[child] {
			seen[child] = true
			names = append(names, child)
		}
		if isDir {
			dirs[child] = true
		}
	}
	if len(names) == 0 {
		return nil, &fs.PathError{Op: "open", Path: name, Err: fs.ErrNotExist}
	}
	sort.Strings(names)
	var out []fs.DirEntry
	for _, n := range names {
		out = append(out, vInfo{name: n, dir: dirs[n]})
	}
	return out, nil
}
