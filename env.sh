# source this: offline Go toolchain environment for /verif
export GOTOOLCHAIN=local GOFLAGS=-mod=mod GOPROXY=off GOSUMDB=off CGO_ENABLED=0
export PATH=/opt/veriftools/go1.26.8/bin:$PATH
