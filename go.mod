module verif

go 1.26.8

require (
	golang.org/x/tools v0.50.0
	google.golang.org/protobuf v1.36.11
)

require (
	filippo.io/edwards25519 v1.1.0 // indirect
	github.com/dlclark/regexp2 v1.11.5 // indirect
	github.com/go-sql-driver/mysql v1.9.3 // indirect
	github.com/ncruces/go-strftime v1.0.0 // indirect
)

require (
	github.com/php-any/origami v0.0.0
	golang.org/x/mod v0.41.0 // indirect
	golang.org/x/sync v0.23.0 // indirect
)

replace github.com/php-any/origami => /repo
